"""Contracts for pybufrkit/coder.py: CoderState (C06, C07), operator registers (C01, C02), bitmap machinery (C07)."""
from pyvc.ty import *
from pyvc.contract import Contract, Loop
from contracts.classes import DESC, BSR, IDX_DESC

M = 'pybufrkit.coder.'
S = Ref('CoderState')
CD = Ref('Coder')
BO = Ref('BitOperator')
ED = Ref('ElementDescriptor')

# kinds of primitive calls (ghost record, see contracts/classes.py)
P_NUMERIC, P_STRING, P_CODEFLAG, P_NEWREF, P_NUMERIC_NEWREF, P_CONSTANT, P_BITMAP = 1, 2, 3, 4, 5, 6, 7
N0 = 'old(gh(state, "nprims"))'
L0 = 'old(len(state.decoded_descriptors))'
GH_ARRAYS = ('prim', 'pdesc', 'pa', 'pc', 'pf')
PRIM_MOD = ['list(state.decoded_descriptors)', 'lists(state.decoded_values_all_subsets)', 'state.idx_value'] + \
           ['ghost(state, "%s")' % g for g in ('nprims',) + GH_ARRAYS]


def earlier_calls_kept(upto=N0):
    return 'forall(k, 0, %s, %s)' % (upto, ' and '.join('ghat(state, "%s", k) == old(ghat(state, "%s", k))' % (g, g) for g in GH_ARRAYS))


def call_is(k, kind, desc=None, a=None, c=None, f=None):
    out = ['ghat(state, "prim", %s) == %d' % (k, kind)]
    if desc is not None:
        out.append('asref(ghat(state, "pdesc", %s), "Descriptor") is %s' % (k, desc))
    if a is not None:
        out.append('ghat(state, "pa", %s) == %s' % (k, a))
    if c is not None:
        out.append('ghat(state, "pc", %s) == %s' % (k, c))
    if f is not None:
        out.append('Eq(ghat(state, "pf", %s), %s)' % (k, f))
    return out


def appended(desc='descriptor'):
    return ['len(state.decoded_descriptors) == %s + 1' % L0, 'select(state.decoded_descriptors, %s) is %s' % (L0, desc),
            'list_eq_upto(state.decoded_descriptors, %s)' % L0]


REGS_KEPT = 'unchanged(state, "idx_value")'


def interface(reg, name, params, kind, a=None, c=None, f=None, extra_mod=(), extra_ens=(), requires=()):
    """interface contract of an abstract primitive: what the generic walker may assume; every override (Decoder, Encoder,
    TemplateCompiler) is checked to refine the non-ghost part; the ghost part records the call itself"""
    p = {'self': CD, 'state': S, 'bit_operator': BO, 'descriptor': Ref('Descriptor')}
    p.update(params)
    reg.add(Contract(M + 'Coder.' + name, p, trusted=True, requires=['state.decoded_descriptors != None'] + list(requires),
                     modifies=PRIM_MOD + list(extra_mod),
                     ensures=['gh(state, "nprims") == %s + 1' % N0, earlier_calls_kept()] + call_is(N0, kind, 'descriptor', a, c, f) +
                             appended() + [REGS_KEPT] + list(extra_ens),
                     raises={'PyBufrKitError': None, 'ValueError': None, 'AssertionError': None, 'IndexError': None, 'TypeError': None},
                     serves=['C01', 'C02', 'C07', 'C08'], note='interface contract (behavioural subtyping): assumed at calls inside Coder'))



class BitmapSpec(object):
    """contract text of CoderState.build_bitmapped_descriptors, parameterised by the name of the state object (so that the three
    define_bitmap contracts can state the same facts about `state`)"""

    def __init__(self, obj):
        self.obj = obj
        self.BR, self.BD = '%s.back_referenced_descriptors' % obj, '%s.bitmapped_descriptors' % obj
        self.DD, self.BND = '%s.decoded_descriptors' % obj, '%s.back_reference_boundary' % obj
        self.CUR = '%s.next_bitmapped_descriptor' % obj

    def br_facts(self, lst, lo):
        """entries of the back-reference list: (flat index, the element descriptor at that index), exact type ElementDescriptor,
        in increasing index order, all above `lo` and below the boundary"""
        return ['forall(k, 0, len(%s), %s < select(%s, k)[0] and select(%s, k)[0] < %s and select(%s, k)[1] is select(%s, select(%s, k)[0]) '
                'and typeis(select(%s, k)[1], "ElementDescriptor"))' % (lst, lo, lst, lst, self.BND, lst, self.DD, lst, lst),
                'forall(k, 0, len(%s) - 1, select(%s, k)[0] < select(%s, k + 1)[0])' % (lst, lst, lst)]

    def br_complete(self, lst, lo):
        return ('forall(i, 0, %s, implies(i > %s and typeis(select(%s, i), "ElementDescriptor"), exists(k, 0, len(%s), select(%s, k)[0] == i)))'
                % (self.BND, lo, self.DD, lst, lst))

    def wf(self):
        """state facts every operation keeps: the boundary lies inside the descriptor list; an existing back-reference list is one this
        function built (same facts)"""
        f = self.br_facts(self.BR, '-1')
        return ['%s != None' % self.DD, '0 <= %s' % self.BND, '%s <= len(%s)' % (self.BND, self.DD),
                'implies(%s != None, %s and %s)' % (self.BR, f[0], f[1])]

    def requires(self, bitmap):
        return self.wf() + ['%s != None' % bitmap]

    def modifies(self):
        return [self.BR, self.BD, self.CUR]

    def had(self):
        return 'old(%s != None and len(%s) != 0)' % (self.BR, self.BR)

    def mismatch(self, bitmap):
        return 'old(%s != None and len(%s) != 0 and len(%s) != len(%s))' % (self.BR, self.BR, self.BR, bitmap)

    def ensures(self, bitmap):
        BR, BD = self.BR, self.BD
        idxm, invm = 'lc_map(%s, "lc_idx")' % BD, 'lc_map(%s, "lc_inv")' % BD
        return (['len(%s) == len(%s)' % (BR, bitmap)] + self.br_facts(BR, '-1') +
                # existing back references are reused until cancelled; otherwise they are the LAST len(bitmap) element descriptors
                # before the boundary: every element descriptor between the first one selected and the boundary is selected
                ['implies(%s, %s is old(%s) and same_list(%s))' % (self.had(), BR, BR, BR),
                 'implies(not %s, fresh(%s))' % (self.had(), BR),
                 'implies(not %s and len(%s) > 0, %s)' % (self.had(), BR, self.br_complete(BR, 'select(%s, 0)[0]' % BR)),
                 # the selection: exactly the back references whose bit is 0, in order (index maps of the comprehension)
                 '%s != None' % BD, 'fresh(%s)' % BD,
                 'forall(k, 0, len(%s), 0 <= at(%s, k) and at(%s, k) < len(%s) and Eq(select(%s, at(%s, k)), 0) and '
                 'select(%s, k) == select(%s, at(%s, k)))' % (BD, idxm, idxm, BR, bitmap, idxm, BD, BR, idxm),
                 'forall(k, 0, len(%s) - 1, at(%s, k) < at(%s, k + 1))' % (BD, idxm, idxm),
                 'forall(j, 0, len(%s), implies(Eq(select(%s, j), 0), 0 <= at(%s, j) and at(%s, j) < len(%s) and at(%s, at(%s, j)) == j))'
                 % (BR, bitmap, invm, invm, BD, idxm, invm),
                 # the cursor restarts at the first zero bit
                 'fresh(%s)' % self.CUR, '%s.lst is %s' % (self.CUR, BD), '%s.pos == 0' % self.CUR])


def define_bitmap_requires():
    return ['state != None', 'state.decoded_values_all_subsets != None', 'len(state.decoded_values_all_subsets) >= 1',
            'implies(not state.is_compressed, state.decoded_values != None)'] + BitmapSpec('state').wf()


def define_bitmap_modifies():
    return ['state.bitmap'] + BitmapSpec('state').modifies()


def define_bitmap_ensures(source, reuse='reuse', result=True):
    """source: (list expression, first index) of the values that form the bitmap, None for the interface (which leaves that to the
    overrides); result=False: the caller drops the returned list (process_bitmap_definition) -- then the bitmap is only known
    through state.bitmap when it is kept for reuse"""
    bb = BitmapSpec('state')
    out = []
    if result:
        out += ['result != None', 'fresh(result)', 'implies(%s, state.bitmap is result)' % reuse,
                'implies(not %s, state.bitmap is old(state.bitmap))' % reuse]
        out += bb.ensures('result')
        if source is not None:
            lst, first, n = source
            out += ['len(result) == %s' % n, 'forall(j, 0, len(result), val_eq(select(result, j), select(%s, %s + j)))' % (lst, first)]
    else:
        out += ['implies(%s, state.bitmap != None and fresh(state.bitmap))' % reuse, 'implies(not %s, state.bitmap is old(state.bitmap))' % reuse,
                'implies(%s, %s)' % (reuse, ' and '.join('(%s)' % x for x in bb.ensures('state.bitmap')))]
    return out


def register(reg):
    add = reg.add
    interface(reg, 'process_numeric', {'nbits': INT, 'scale_powered': FLOAT, 'refval': INT}, P_NUMERIC, a='nbits', c='refval', f='scale_powered')
    interface(reg, 'process_string', {'nbytes': INT}, P_STRING, a='nbytes')
    interface(reg, 'process_codeflag', {'nbits': INT}, P_CODEFLAG, a='nbits')
    interface(reg, 'process_new_refval', {'nbits': INT}, P_NEWREF, a='nbits', extra_mod=['dict(state.new_refvals)'],
              extra_ens=['haskey(state.new_refvals, descriptor.id)'])
    interface(reg, 'process_numeric_of_new_refval', {'nbits': INT, 'scale_powered': FLOAT, 'refval_factor': INT}, P_NUMERIC_NEWREF,
              a='nbits', c='refval_factor', f='scale_powered', requires=['haskey(state.new_refvals, descriptor.id)'])
    interface(reg, 'process_constant', {'value': INT}, P_CONSTANT, a='value')
    add(Contract(M + 'CoderState.switch_subset_context', {'self': S, 'idx_subset': INT},
                 requires=['0 <= idx_subset', 'idx_subset < len(self.decoded_descriptors_all_subsets)',
                           'idx_subset < len(self.decoded_values_all_subsets)', 'idx_subset < len(self.bitmap_links_all_subsets)'],
                 modifies=['self.*'],
                 ensures=['registers_initial(self)',
                          'self.idx_subset == idx_subset', 'self.idx_value == 0',
                          'self.decoded_descriptors is select(self.decoded_descriptors_all_subsets, idx_subset)',
                          'self.decoded_values is select(self.decoded_values_all_subsets, idx_subset)',
                          'self.bitmap_links is select(self.bitmap_links_all_subsets, idx_subset)',
                          'fresh(self.new_refvals)', 'fresh(self.nbits_of_associated)',
                          # the per-subset containers themselves are not touched
                          'self.decoded_descriptors_all_subsets is old(self.decoded_descriptors_all_subsets)',
                          'self.decoded_values_all_subsets is old(self.decoded_values_all_subsets)',
                          'self.bitmap_links_all_subsets is old(self.bitmap_links_all_subsets)',
                          'self.is_compressed == old(self.is_compressed)', 'self.n_subsets == old(self.n_subsets)', 'same_ghosts(self)'],
                 serves=['C06'], note='each subset is a fresh application of the template (D-6)'))

    DALL, VALL, LALL = 'self.decoded_descriptors_all_subsets', 'self.decoded_values_all_subsets', 'self.bitmap_links_all_subsets'
    add(Contract(M + 'CoderState.__init__',
                 {'self': S, 'is_compressed': BOOL, 'n_subsets': INT, 'decoded_values_all_subsets': ListT(ListT(VAL))},
                 nullable=['decoded_values_all_subsets'],
                 requires=['n_subsets >= 1',
                           'implies(decoded_values_all_subsets != None, len(decoded_values_all_subsets) == n_subsets)'],
                 modifies=['self.*'],
                 ensures=['registers_initial(self)', 'self.is_compressed == is_compressed', 'self.n_subsets == n_subsets',
                          'self.idx_subset == 0', 'self.idx_value == 0',
                          'len(%s) == n_subsets' % DALL, 'len(%s) == n_subsets' % LALL, 'len(%s) == n_subsets' % VALL,
                          'fresh(%s)' % DALL, 'fresh(%s)' % LALL,
                          # compressed: every subset shares ONE descriptor list and ONE link map; uncompressed: pairwise distinct
                          'implies(is_compressed, forall(i, 0, n_subsets, select(%s, i) is select(%s, 0) and '
                          'select(%s, i) is select(%s, 0)))' % (DALL, DALL, LALL, LALL),
                          'implies(not is_compressed, forall(i, 0, n_subsets, forall(j, 0, n_subsets, implies(i != j, '
                          'select(%s, i) is not select(%s, j) and select(%s, i) is not select(%s, j)))))' % (DALL, DALL, LALL, LALL),
                          'forall(i, 0, n_subsets, fresh(select(%s, i)) and len(select(%s, i)) == 0 and fresh(select(%s, i)) '
                          'and dsize(select(%s, i)) == 0)' % (DALL, DALL, LALL, LALL),
                          'self.decoded_descriptors is select(%s, 0)' % DALL, 'self.bitmap_links is select(%s, 0)' % LALL,
                          'self.decoded_values is select(%s, 0)' % VALL,
                          # the encoder hands in its value lists: they are used as they are, not copied
                          'implies(decoded_values_all_subsets != None, %s is decoded_values_all_subsets)' % VALL,
                          'implies(decoded_values_all_subsets == None, fresh(%s) and forall(i, 0, n_subsets, '
                          'fresh(select(%s, i)) and len(select(%s, i)) == 0 and forall(j, 0, n_subsets, implies(i != j, '
                          'select(%s, i) is not select(%s, j)))))' % (VALL, VALL, VALL, VALL, VALL)],
                 serves=['C06', 'C05'],
                 note='compressed: shared descriptor list / link map; uncompressed: independent per subset (C05, C06)'))
    add(Contract(M + 'CoderState.mark_back_reference_boundary', {'self': S},
                 requires=['self.decoded_descriptors != None'],
                 modifies=['self.back_reference_boundary'],
                 ensures=['self.back_reference_boundary == len(self.decoded_descriptors)'], serves=['C07', 'C06']))
    add(Contract(M + 'CoderState.cancel_bitmap', {'self': S}, modifies=['self.bitmap'],
                 ensures=['self.bitmap is None'], serves=['C07']))
    add(Contract(M + 'CoderState.cancel_all_back_references', {'self': S},
                 modifies=['self.back_referenced_descriptors', 'self.bitmap', 'self.bitmapped_descriptors'],
                 ensures=['self.back_referenced_descriptors is None', 'self.bitmap is None', 'self.bitmapped_descriptors is None'],
                 serves=['C07'], note='235000 cancels back references, bitmap and selection'))
    add(Contract(M + 'CoderState.recall_bitmap', {'self': S}, returns=ListT(VAL),
                 requires=['@input self.bitmapped_descriptors != None'],
                 modifies=['self.next_bitmapped_descriptor'],
                 ensures=['fresh(self.next_bitmapped_descriptor)', 'self.next_bitmapped_descriptor.lst is self.bitmapped_descriptors',
                          'self.next_bitmapped_descriptor.pos == 0', 'result is self.bitmap'],
                 serves=['C07'], note='237000: the selection of the most recent bitmap is restarted from its first zero bit'))
    CUR = 'self.next_bitmapped_descriptor'
    add(Contract(M + 'CoderState.add_bitmap_link', {'self': S},
                 requires=['@input %s != None' % CUR, 'self.bitmap_links != None', 'self.decoded_descriptors != None',
                           '@input %s.pos < len(%s.lst)' % (CUR, CUR)],
                 modifies=['dict(self.bitmap_links)', '%s.pos' % CUR],
                 ensures=['haskey(self.bitmap_links, len(self.decoded_descriptors))',
                          'dval(self.bitmap_links, len(self.decoded_descriptors)) == select(%s.lst, old(%s.pos))[0]' % (CUR, CUR),
                          '%s.pos == old(%s.pos) + 1' % (CUR, CUR),
                          'forall(k, 0, len(self.decoded_descriptors), haskey(self.bitmap_links, k) == old(haskey(self.bitmap_links, k)) '
                          'and dval(self.bitmap_links, k) == old(dval(self.bitmap_links, k)))'],
                 serves=['C07'], note='the next value is linked to the element of the next zero bit; earlier links untouched'))

    # ------------------------------------------------------------------------------------------------------------
    # C07: "the k-th such value belongs to the k-th zero bit, bits being matched to the N element descriptors that precede the operator"
    bb = BitmapSpec('self')
    BR, BD, DD, BND = bb.BR, bb.BD, bb.DD, bb.BND
    add(Contract(M + 'CoderState.build_bitmapped_descriptors', {'self': S, 'bitmap': ListT(VAL)},
                 requires=bb.requires('bitmap'),
                 modifies=bb.modifies(), allocates=['self.next_bitmapped_descriptor.lst', 'self.next_bitmapped_descriptor.pos'],
                 loops={0: Loop(invariants=['%s != None' % BR, 'fresh(%s)' % BR, '-1 <= _i0', '_i0 <= %s - 1' % BND,
                                            'len(%s) == 0 or len(%s) != len(bitmap)' % (BR, BR),
                                            '%s is entry(%s)' % (BR, BR)] + bb.br_facts(BR, '_i0') + [bb.br_complete(BR, '_i0')],
                                modifies=['list(%s)' % BR], locals={'descriptor': DESC, 'idx': INT})},
                 ensures=bb.ensures('bitmap'),
                 raises={'PyBufrKitError': None},
                 must_raise=[('PyBufrKitError', bb.mismatch('bitmap'))],
                 serves=['C07', 'C06'],
                 note='back references = the last N element descriptors (exact type) before the boundary, reused until cancelled; '
                      'selection = those whose bit is 0, in order; a bitmap that does not match its back references is refused'))

    # Coder.define_bitmap: the interface the walker uses (assumed at the call in process_bitmap_definition); Decoder.define_bitmap and
    # Encoder.define_bitmap carry the SAME postcondition text (contracts/decoder.py, contracts/encoder.py) and are verified against it
    add(Contract(M + 'Coder.define_bitmap', {'self': CD, 'state': S, 'reuse': BOOL}, returns=ListT(VAL), trusted=True,
                 requires=define_bitmap_requires(), modifies=define_bitmap_modifies(), ensures=define_bitmap_ensures(None),
                 allocates=['state.next_bitmapped_descriptor.lst', 'state.next_bitmapped_descriptor.pos'],
                 raises={'PyBufrKitError': None}, serves=['C07'],
                 note='interface contract: the bitmap is a fresh list, the back references and the zero-bit selection are rebuilt from it; '
                      'which values form the bitmap is stated by the two overrides (last n_031031 values)'))

    # the bitmap definition automaton (C07): INDICATOR -> (236000: for reuse | 237000: recall, done | other: not for reuse) -> WAITING ->
    # COUNTING (one count per 031031) -> the first other descriptor defines the bitmap from the counted values
    BST, REUSE, N31 = 'state.bitmap_definition_state', 'state.most_recent_bitmap_is_for_reuse', 'state.n_031031'
    AUTO = ['bitmap_definition_state', 'most_recent_bitmap_is_for_reuse', 'n_031031']
    KEEP_BITMAP = ['state.bitmap is old(state.bitmap)', 'state.back_referenced_descriptors is old(state.back_referenced_descriptors)',
                   'state.bitmapped_descriptors is old(state.bitmapped_descriptors)',
                   'state.next_bitmapped_descriptor is old(state.next_bitmapped_descriptor)']

    def auto(*fields):
        return 'unchanged(state, %s)' % ', '.join('"%s"' % f for f in fields)
    add(Contract(M + 'Coder.process_bitmap_definition', {'self': CD, 'state': S, 'bit_operator': BO, 'descriptor': DESC},
                 requires=['descriptor != None'] + define_bitmap_requires(),
                 modifies=['state.bitmap_definition_state', 'state.most_recent_bitmap_is_for_reuse', 'state.n_031031'] + define_bitmap_modifies(),
                 cases=[
                     ('indicator.236000', '%s == 1 and descriptor.id == 236000' % BST,
                      ['%s == 4' % BST, '%s == True' % REUSE, '%s == 0' % N31, auto(*AUTO)] + KEEP_BITMAP),
                     ('indicator.237000', '%s == 1 and descriptor.id == 237000' % BST,
                      ['%s == 0' % BST, auto('bitmap_definition_state')] + KEEP_BITMAP),
                     ('indicator.other', '%s == 1 and descriptor.id != 236000 and descriptor.id != 237000' % BST,
                      ['%s == 4' % BST, '%s == False' % REUSE, '%s == 0' % N31, auto(*AUTO)] + KEEP_BITMAP),
                     ('waiting.031031', '%s == 4 and descriptor.id == 31031' % BST,
                      ['%s == 5' % BST, '%s == old(%s) + 1' % (N31, N31), auto('bitmap_definition_state', 'n_031031')] + KEEP_BITMAP),
                     ('waiting.other', '%s == 4 and descriptor.id != 31031' % BST, ['unchanged(state)'] + KEEP_BITMAP),
                     ('counting.031031', '%s == 5 and descriptor.id == 31031' % BST,
                      ['%s == old(%s) + 1' % (N31, N31), auto('n_031031')] + KEEP_BITMAP),
                     # the first descriptor after the counted bits defines the bitmap (for reuse iff 236000 introduced it)
                     ('counting.define', '%s == 5 and descriptor.id != 31031' % BST,
                      ['%s == 0' % BST, '%s == old(%s)' % (N31, N31), '%s == old(%s)' % (REUSE, REUSE),
                       'unchanged(state, "bitmap_definition_state", "bitmap", "back_referenced_descriptors", "bitmapped_descriptors", "next_bitmapped_descriptor")'] +
                      define_bitmap_ensures(None, reuse='old(%s)' % REUSE, result=False)),
                     ('idle', '%s != 1 and %s != 4 and %s != 5' % (BST, BST, BST), ['unchanged(state)'] + KEEP_BITMAP),
                 ],
                 raises={'PyBufrKitError': '%s == 5 and descriptor.id != 31031' % BST}, serves=['C07'],
                 note='one case per (state, descriptor) cell of the bitmap definition automaton; every other register unchanged'))

    # 203YYY in force: an element descriptor defines its new reference value (YYY bits, sign-magnitude); character elements are refused
    add(Contract(M + 'Coder.process_define_new_refval', {'self': CD, 'state': S, 'bit_operator': BO, 'descriptor': ED},
                 requires=['state.decoded_descriptors != None', 'descriptor != None'],
                 modifies=PRIM_MOD + ['dict(state.new_refvals)'],
                 ensures=['gh(state, "nprims") == %s + 1' % N0, earlier_calls_kept()] +
                         call_is(N0, P_NEWREF, 'descriptor', a='old(state.nbits_of_new_refval)') + appended() +
                         ['haskey(state.new_refvals, descriptor.id)', REGS_KEPT],
                 raises={'PyBufrKitError': None, 'ValueError': None, 'AssertionError': None, 'IndexError': None, 'TypeError': None},
                 must_raise=[('PyBufrKitError', 'descriptor.unit == "CCITT IA5"')],
                 serves=['C01', 'C02'], note='new reference value of YYY bits for this element; a character element cannot have one'))
    # 206YYY: the next descriptor, whatever it is, is skipped as YYY bits labelled S + its id; the register is cleared
    SKD = 'asref(ghat(state, "pdesc", %s), "Descriptor")' % N0
    add(Contract(M + 'Coder.process_skipped_local_descriptor', {'self': CD, 'state': S, 'bit_operator': BO, 'descriptor': DESC},
                 requires=['state.decoded_descriptors != None', 'descriptor != None'],
                 modifies=PRIM_MOD + ['state.nbits_of_skipped_local_descriptor'],
                 ensures=['gh(state, "nprims") == %s + 1' % N0, earlier_calls_kept(),
                          'ghat(state, "prim", %s) == %d' % (N0, P_CODEFLAG), 'ghat(state, "pa", %s) == old(state.nbits_of_skipped_local_descriptor)' % N0,
                          'typeis(%s, "SkippedLocalDescriptor")' % SKD, 'fresh(%s)' % SKD, '%s.id == descriptor.id' % SKD,
                          'asref(ghat(state, "pdesc", %s), "SkippedLocalDescriptor").nbits == old(state.nbits_of_skipped_local_descriptor)' % N0,
                          'len(state.decoded_descriptors) == %s + 1' % L0, 'select(state.decoded_descriptors, %s) is %s' % (L0, SKD),
                          'list_eq_upto(state.decoded_descriptors, %s)' % L0,
                          'state.nbits_of_skipped_local_descriptor == 0', 'unchanged(state, "idx_value", "nbits_of_skipped_local_descriptor")'],
                 raises={'PyBufrKitError': None, 'ValueError': None, 'AssertionError': None, 'IndexError': None, 'TypeError': None},
                 serves=['C01', 'C02'], note='skipped local descriptor: an unsigned field of YYY bits labelled S..., then 206 is spent'))

    # ------------------------------------------------------------------------------------------------------------
    # operator descriptors (C01: "with the width, scale and reference changes of operators 201, 202, 203 and 207 in force")
    CODE, Y = 'descriptor.id // 1000', 'descriptor.id % 1000'
    NOCALL = 'gh(state, "nprims") == %s and same_ghosts(state)' % N0
    NODESC = 'len(state.decoded_descriptors) == %s' % L0
    ASSOC_SAME = 'same_list(state.nbits_of_associated)'

    def only(*fields):
        return 'unchanged(state, %s)' % ', '.join('"%s"' % f for f in fields) if fields else 'unchanged(state)'

    add(Contract(M + 'Coder.process_operator_descriptor',
                 {'self': CD, 'state': S, 'bit_operator': BO, 'descriptor': Ref('OperatorDescriptor')},
                 requires=['state.decoded_descriptors != None', 'descriptor != None',
                           # 204000 closes an open 204YYY; 237000 recalls an existing bitmap (well-formed templates)
                           '@input implies(%s == 204 and %s == 0, len(state.nbits_of_associated) >= 1)' % (CODE, Y),
                           '@input implies(%s == 237 and %s == 0, state.bitmapped_descriptors != None)' % (CODE, Y),
                           # a marker operator needs a current selection with a zero bit left; no 204 scope around markers
                           '@input implies((%s == 222 or %s == 223 or %s == 224 or %s == 225 or %s == 232) and %s != 0, '
                           'state.next_bitmapped_descriptor != None and state.next_bitmapped_descriptor.pos < len(state.next_bitmapped_descriptor.lst) '
                           'and state.bitmap_links != None and len(state.nbits_of_associated) == 0 and '
                           'select(state.next_bitmapped_descriptor.lst, state.next_bitmapped_descriptor.pos)[1] != None and '
                           'typeis(select(state.next_bitmapped_descriptor.lst, state.next_bitmapped_descriptor.pos)[1], "ElementDescriptor") and '
                           '(select(state.next_bitmapped_descriptor.lst, state.next_bitmapped_descriptor.pos)[1].id // 1000) %% 100 != 33)' % (CODE, CODE, CODE, CODE, CODE, Y)],
                 modifies=['state.*', 'list(state.nbits_of_associated)', 'dict(state.bitmap_links)', 'state.next_bitmapped_descriptor.pos'] + PRIM_MOD,
                 cases=[
                     ('201', '%s == 201' % CODE, ['state.nbits_offset == ite(%s != 0, %s - 128, 0)' % (Y, Y), only('nbits_offset'), NOCALL, NODESC, ASSOC_SAME]),
                     ('202', '%s == 202' % CODE, ['state.scale_offset == ite(%s != 0, %s - 128, 0)' % (Y, Y), only('scale_offset'), NOCALL, NODESC, ASSOC_SAME]),
                     ('203.define', '%s == 203 and %s != 255 and %s != 0' % (CODE, Y, Y),
                      ['state.nbits_of_new_refval == %s' % Y, only('nbits_of_new_refval'), 'same_dict(state.new_refvals)', NOCALL, NODESC, ASSOC_SAME]),
                     ('203.conclude', '%s == 203 and %s == 255' % (CODE, Y),
                      ['state.nbits_of_new_refval == 0', only('nbits_of_new_refval'), 'same_dict(state.new_refvals)', NOCALL, NODESC, ASSOC_SAME]),
                     ('203.cancel', '%s == 203 and %s == 0' % (CODE, Y),
                      ['state.nbits_of_new_refval == 0', 'dsize(state.new_refvals) == 0', 'fresh(state.new_refvals)',
                       only('nbits_of_new_refval', 'new_refvals'), NOCALL, NODESC, ASSOC_SAME]),
                     ('204.open', '%s == 204 and %s != 0' % (CODE, Y),
                      ['len(state.nbits_of_associated) == old(len(state.nbits_of_associated)) + 1',
                       'select(state.nbits_of_associated, old(len(state.nbits_of_associated))) == %s' % Y,
                       'sumof(state.nbits_of_associated) == old(sumof(state.nbits_of_associated)) + %s' % Y,
                       'list_eq_upto(state.nbits_of_associated, old(len(state.nbits_of_associated)))', only(), NOCALL, NODESC]),
                     ('204.close', '%s == 204 and %s == 0' % (CODE, Y),
                      ['len(state.nbits_of_associated) == old(len(state.nbits_of_associated)) - 1',
                       'list_eq_upto(state.nbits_of_associated, len(state.nbits_of_associated))', only(), NOCALL, NODESC]),
                     ('205', '%s == 205' % CODE, ['gh(state, "nprims") == %s + 1' % N0] + call_is(N0, P_STRING, 'descriptor', a=Y) + appended() +
                      [only('idx_value'), ASSOC_SAME]),
                     ('206', '%s == 206' % CODE, ['state.nbits_of_skipped_local_descriptor == %s' % Y, only('nbits_of_skipped_local_descriptor'), NOCALL, NODESC, ASSOC_SAME]),
                     ('207', '%s == 207' % CODE,
                      ['state.bsr_modifier[0] == ite(%s != 0, (10 * (%s) + 2) // 3, 0)' % (Y, Y), 'state.bsr_modifier[1] == %s' % Y,
                       'state.bsr_modifier[2] == ite(%s != 0, pow10(%s), 1)' % (Y, Y), only('bsr_modifier'), NOCALL, NODESC, ASSOC_SAME]),
                     ('208', '%s == 208' % CODE, ['state.new_nbytes == %s' % Y, only('new_nbytes'), NOCALL, NODESC, ASSOC_SAME]),
                     ('221', '%s == 221' % CODE, ['state.data_not_present_count == %s' % Y, only('data_not_present_count'), NOCALL, NODESC, ASSOC_SAME]),
                     ('bitmap-operator', '(%s == 222 or %s == 223 or %s == 224 or %s == 225 or %s == 232) and %s == 0' % (CODE, CODE, CODE, CODE, CODE, Y),
                      ['state.bitmap_definition_state == 1', 'state.back_reference_boundary == %s' % L0,
                       'state.status_qa_info_follows == ite(%s == 222, 1, old(state.status_qa_info_follows))' % CODE,
                       'gh(state, "nprims") == %s + 1' % N0] + call_is(N0, P_CONSTANT, 'descriptor', a='0') + appended() +
                      [only('bitmap_definition_state', 'back_reference_boundary', 'status_qa_info_follows', 'idx_value'), ASSOC_SAME]),
                     ('marker', '(%s == 222 or %s == 223 or %s == 224 or %s == 225 or %s == 232) and %s != 0' % (CODE, CODE, CODE, CODE, CODE, Y),
                      ['gh(state, "nprims") == %s + 1' % N0, 'len(state.decoded_descriptors) == %s + 1' % L0,
                       'haskey(state.bitmap_links, %s)' % L0,
                       'dval(state.bitmap_links, %s) == old(select(state.next_bitmapped_descriptor.lst, state.next_bitmapped_descriptor.pos)[0])' % L0,
                       'state.next_bitmapped_descriptor.pos == old(state.next_bitmapped_descriptor.pos) + 1',
                       'typeis(asref(ghat(state, "pdesc", %s), "Descriptor"), "MarkerDescriptor")' % N0,
                       'asref(ghat(state, "pdesc", %s), "MarkerDescriptor").marker_id == descriptor.id' % N0, ASSOC_SAME,
                       'select(state.decoded_descriptors, %s) is asref(ghat(state, "pdesc", %s), "Descriptor")' % (L0, N0),
                       'list_eq_upto(state.decoded_descriptors, %s)' % L0, earlier_calls_kept(),
                       'forall(k, 0, %s, haskey(state.bitmap_links, k) == old(haskey(state.bitmap_links, k)) and '
                       'dval(state.bitmap_links, k) == old(dval(state.bitmap_links, k)))' % L0,
                       'unchanged(state, "idx_value", "status_qa_info_follows")']),
                     ('235', '%s == 235' % CODE,
                      ['state.back_referenced_descriptors is None', 'state.bitmap is None', 'state.bitmapped_descriptors is None',
                       only('back_referenced_descriptors', 'bitmap', 'bitmapped_descriptors'), NOCALL, NODESC, ASSOC_SAME]),
                     ('236', '%s == 236' % CODE, ['gh(state, "nprims") == %s + 1' % N0] + call_is(N0, P_CONSTANT, 'descriptor', a='0') + appended() +
                      [only('idx_value'), ASSOC_SAME]),
                     ('237.recall', '%s == 237 and %s == 0' % (CODE, Y),
                      ['fresh(state.next_bitmapped_descriptor)', 'state.next_bitmapped_descriptor.lst is state.bitmapped_descriptors',
                       'state.next_bitmapped_descriptor.pos == 0', 'gh(state, "nprims") == %s + 1' % N0] +
                      call_is(N0, P_CONSTANT, 'descriptor', a='0') + appended() + [only('next_bitmapped_descriptor', 'idx_value'), ASSOC_SAME]),
                     ('237.cancel', '%s == 237 and %s != 0' % (CODE, Y),
                      ['implies(old(state.most_recent_bitmap_is_for_reuse), state.bitmap is None)',
                       'implies(not old(state.most_recent_bitmap_is_for_reuse), state.bitmap is old(state.bitmap))',
                       'gh(state, "nprims") == %s + 1' % N0] + call_is(N0, P_CONSTANT, 'descriptor', a='0') + appended() +
                      [only('bitmap', 'idx_value'), ASSOC_SAME]),
                 ],
                 raises={'NotImplementedError': 'not (201 <= %s <= 208 or %s == 221 or 222 <= %s <= 225 or %s == 232 or 235 <= %s <= 237)' % (CODE, CODE, CODE, CODE, CODE),
                         'PyBufrKitError': None, 'ValueError': None, 'AssertionError': None, 'IndexError': None, 'TypeError': None},
                 must_raise=[('NotImplementedError', 'not (201 <= %s <= 208 or %s == 221 or 222 <= %s <= 225 or %s == 232 or 235 <= %s <= 237)' % (CODE, CODE, CODE, CODE, CODE))],
                 serves=['C01', 'C02', 'C07'], note='one case per operator of the statement; every other register unchanged'))

    # ------------------------------------------------------------------------------------------------------------
    # element descriptors: which primitive is issued with which width / scale / reference (C01 elem_fields, C02)
    X = '(descriptor.id // 1000) % 100'
    ASSOC = '(old(len(state.nbits_of_associated)) != 0 and %s != 31)' % X
    K1 = '(%s + ite(%s, 1, 0))' % (N0, ASSOC)            # index of the element's own primitive call
    LINKPOS = '(%s + ite(%s, 1, 0))' % (L0, ASSOC)       # flat index the element's value gets
    NBITS = '(descriptor.nbits + old(state.nbits_offset) + old(state.bsr_modifier[0]))'
    SCALE = '(descriptor.scale + old(state.scale_offset) + old(state.bsr_modifier[1]))'
    QA_LINK = '(%s == 33 and (old(state.status_qa_info_follows) == 1 or old(state.status_qa_info_follows) == 2))' % X
    CUR = 'state.next_bitmapped_descriptor'
    ERRS = {'PyBufrKitError': None, 'ValueError': None, 'AssertionError': None, 'IndexError': None, 'TypeError': None}
    elem_requires = ['state.decoded_descriptors != None', 'descriptor != None', 'state.bitmap_links != None',
                     # a class-33 value after 222000 needs a zero bit left in the current selection
                     '@input implies(%s == 33 and (state.status_qa_info_follows == 1 or state.status_qa_info_follows == 2), '
                     '%s != None and %s.pos < len(%s.lst))' % (X, CUR, CUR, CUR)]
    NUMERIC_UNIT = 'descriptor.unit != "CCITT IA5" and descriptor.unit != "FLAG TABLE" and descriptor.unit != "CODE TABLE"'
    add(Contract(M + 'Coder.process_element_descriptor', {'self': CD, 'state': S, 'bit_operator': BO, 'descriptor': ED},
                 requires=elem_requires,
                 modifies=PRIM_MOD + ['state.status_qa_info_follows', 'dict(state.bitmap_links)', '%s.pos' % CUR],
                 ensures=['gh(state, "nprims") == %s + 1' % K1, earlier_calls_kept(),
                          # the associated field of sum(204YYY) bits comes first, labelled A..., iff 204 is open and the class is not 31
                          'implies(%s, ghat(state, "prim", %s) == %d and ghat(state, "pa", %s) == old(sumof(state.nbits_of_associated)) '
                          'and typeis(asref(ghat(state, "pdesc", %s), "Descriptor"), "AssociatedDescriptor") '
                          'and asref(ghat(state, "pdesc", %s), "Descriptor").id == descriptor.id '
                          'and asref(ghat(state, "pdesc", %s), "AssociatedDescriptor").nbits == old(sumof(state.nbits_of_associated)))'
                          % (ASSOC, N0, P_CODEFLAG, N0, N0, N0, N0),
                          'asref(ghat(state, "pdesc", %s), "Descriptor") is descriptor' % K1,
                          'len(state.decoded_descriptors) == %s + 1' % LINKPOS,
                          'select(state.decoded_descriptors, %s) is descriptor' % LINKPOS,
                          'list_eq_upto(state.decoded_descriptors, %s)' % L0,
                          # class 33 after 222000: the value is linked to the element of the next zero bit
                          'implies(%s, haskey(state.bitmap_links, %s) and dval(state.bitmap_links, %s) == old(select(%s.lst, %s.pos)[0]) '
                          'and %s.pos == old(%s.pos) + 1 and state.status_qa_info_follows == 2)' % (QA_LINK, LINKPOS, LINKPOS, CUR, CUR, CUR, CUR),
                          'implies(not %s, same_dict(state.bitmap_links) and %s.pos == old(%s.pos))' % (QA_LINK, CUR, CUR),
                          'forall(k, 0, %s, haskey(state.bitmap_links, k) == old(haskey(state.bitmap_links, k)) and '
                          'dval(state.bitmap_links, k) == old(dval(state.bitmap_links, k)))' % LINKPOS,
                          'implies(%s != 33, state.status_qa_info_follows == ite(old(state.status_qa_info_follows) == 2, 0, old(state.status_qa_info_follows)))' % X,
                          'unchanged(state, "idx_value", "status_qa_info_follows")', 'same_list(state.nbits_of_associated)'],
                 cases=[
                     ('string', 'descriptor.unit == "CCITT IA5"',
                      ['ghat(state, "prim", %s) == %d' % (K1, P_STRING),
                       'ghat(state, "pa", %s) == ite(old(state.new_nbytes) != 0, old(state.new_nbytes), descriptor.nbits // 8)' % K1]),
                     ('codeflag', 'descriptor.unit == "FLAG TABLE" or descriptor.unit == "CODE TABLE"',
                      ['ghat(state, "prim", %s) == %d' % (K1, P_CODEFLAG), 'ghat(state, "pa", %s) == descriptor.nbits' % K1]),
                     ('numeric', NUMERIC_UNIT + ' and not haskey(state.new_refvals, descriptor.id)',
                      ['ghat(state, "prim", %s) == %d' % (K1, P_NUMERIC), 'ghat(state, "pa", %s) == %s' % (K1, NBITS),
                       'Eq(ghat(state, "pf", %s), 1.0 * 10 ** %s)' % (K1, SCALE),
                       'ghat(state, "pc", %s) == descriptor.refval * old(state.bsr_modifier[2])' % K1]),
                     ('numeric.newref', NUMERIC_UNIT + ' and haskey(state.new_refvals, descriptor.id)',
                      ['ghat(state, "prim", %s) == %d' % (K1, P_NUMERIC_NEWREF), 'ghat(state, "pa", %s) == %s' % (K1, NBITS),
                       'Eq(ghat(state, "pf", %s), 1.0 * 10 ** %s)' % (K1, SCALE),
                       'ghat(state, "pc", %s) == old(state.bsr_modifier[2])' % K1]),
                 ],
                 raises=ERRS, serves=['C01', 'C02', 'C07'],
                 note='strings take new_nbytes or nbits // 8; code / flag take nbits untouched by 201 / 202 / 207; numerics take '
                      'nbits + 201 + 207, scale + 202 + 207, reference (new or table) * 207 factor'))
    add(Contract(M + 'Coder.process_associated_field', {'self': CD, 'state': S, 'bit_operator': BO, 'descriptor': Ref('Descriptor')},
                 requires=['state.decoded_descriptors != None', 'descriptor != None'],
                 modifies=PRIM_MOD,
                 ensures=['gh(state, "nprims") == %s + 1' % N0, earlier_calls_kept(),
                          'ghat(state, "prim", %s) == %d' % (N0, P_CODEFLAG), 'ghat(state, "pa", %s) == sumof(state.nbits_of_associated)' % N0,
                          'typeis(asref(ghat(state, "pdesc", %s), "Descriptor"), "AssociatedDescriptor")' % N0,
                          'asref(ghat(state, "pdesc", %s), "Descriptor").id == descriptor.id' % N0,
                          'asref(ghat(state, "pdesc", %s), "AssociatedDescriptor").nbits == sumof(state.nbits_of_associated)' % N0,
                          'len(state.decoded_descriptors) == %s + 1' % L0, 'list_eq_upto(state.decoded_descriptors, %s)' % L0,
                          'unchanged(state, "idx_value")', 'same_list(state.nbits_of_associated)'],
                 raises=ERRS, serves=['C01', 'C07'],
                 note='an associated field of sum(204YYY) bits, labelled A + id of the element it precedes'))

    # ------------------------------------------------------------------------------------------------------------
    # marker operators 223255 / 224255 / 225255 / 232255 (C07): the value belongs to the element of the next zero bit and is
    # coded as that element -- difference statistics with width + 1 and reference -2**width
    BD = 'old(select(%s.lst, %s.pos)[1])' % (CUR, CUR)
    MD = 'asref(ghat(state, "pdesc", %s), "MarkerDescriptor")' % N0
    marker_requires = ['state.decoded_descriptors != None', 'descriptor != None', 'state.bitmap_links != None',
                       '@input %s != None and %s.pos < len(%s.lst)' % (CUR, CUR, CUR), '@input len(state.nbits_of_associated) == 0',
                       '@input select(%s.lst, %s.pos)[1] != None' % (CUR, CUR),
                       '@input typeis(select(%s.lst, %s.pos)[1], "ElementDescriptor")' % (CUR, CUR),
                       '@input (select(%s.lst, %s.pos)[1].id // 1000) %% 100 != 33' % (CUR, CUR)]
    marker_ensures = [
        'gh(state, "nprims") == %s + 1' % N0, earlier_calls_kept(),
        'haskey(state.bitmap_links, %s)' % L0, 'dval(state.bitmap_links, %s) == old(select(%s.lst, %s.pos)[0])' % (L0, CUR, CUR),
        '%s.pos == old(%s.pos) + 1' % (CUR, CUR),
        'forall(k, 0, %s, haskey(state.bitmap_links, k) == old(haskey(state.bitmap_links, k)) and dval(state.bitmap_links, k) == old(dval(state.bitmap_links, k)))' % L0,
        'typeis(%s, "MarkerDescriptor")' % MD, 'fresh(%s)' % MD, '%s.marker_id == descriptor.id' % MD,
        '%s.id == %s.id' % (MD, BD), '%s.unit == %s.unit' % (MD, BD), '%s.scale == %s.scale' % (MD, BD),
        '%s.nbits == ite(descriptor.id == 225255, %s.nbits + 1, %s.nbits)' % (MD, BD, BD),
        '%s.refval == ite(descriptor.id == 225255, npow2(%s.nbits), %s.refval)' % (MD, BD, BD),
        'len(state.decoded_descriptors) == %s + 1' % L0, 'select(state.decoded_descriptors, %s) is %s' % (L0, MD),
        'list_eq_upto(state.decoded_descriptors, %s)' % L0,
        'unchanged(state, "idx_value", "status_qa_info_follows")', 'same_list(state.nbits_of_associated)']
    marker_cases = [
        ('string', '%s.unit == "CCITT IA5"' % BD,
         ['ghat(state, "prim", %s) == %d' % (N0, P_STRING),
          'ghat(state, "pa", %s) == ite(old(state.new_nbytes) != 0, old(state.new_nbytes), %s.nbits // 8)' % (N0, MD)]),
        ('codeflag', '%s.unit == "FLAG TABLE" or %s.unit == "CODE TABLE"' % (BD, BD),
         ['ghat(state, "prim", %s) == %d' % (N0, P_CODEFLAG), 'ghat(state, "pa", %s) == %s.nbits' % (N0, MD)]),
        ('numeric', '%s.unit != "CCITT IA5" and %s.unit != "FLAG TABLE" and %s.unit != "CODE TABLE" and not haskey(state.new_refvals, %s.id)' % (BD, BD, BD, BD),
         ['ghat(state, "prim", %s) == %d' % (N0, P_NUMERIC),
          'ghat(state, "pa", %s) == %s.nbits + old(state.nbits_offset) + old(state.bsr_modifier[0])' % (N0, MD),
          'ghat(state, "pc", %s) == %s.refval * old(state.bsr_modifier[2])' % (N0, MD)]),
    ]
    for fname, serves in (('process_bitmapped_descriptor', ['C07', 'C01']), ('process_marker_operator_descriptor', ['C07'])):
        add(Contract(M + 'Coder.' + fname, {'self': CD, 'state': S, 'bit_operator': BO, 'descriptor': Ref('OperatorDescriptor')},
                     requires=marker_requires,
                     modifies=PRIM_MOD + ['state.status_qa_info_follows', 'dict(state.bitmap_links)', '%s.pos' % CUR],
                     ensures=marker_ensures, cases=marker_cases, raises=ERRS, serves=serves,
                     note='k-th bitmapped value -> element of the k-th zero bit; 225255: width + 1, reference -2**width'))

    # ------------------------------------------------------------------------------------------------------------
    # the template walk (C01, C12, C14): one iteration of Coder.process_members == one step of the FM-94 walk
    register_walk(reg, dict(X=X, ASSOC=ASSOC, K1=K1, NBITS=NBITS, SCALE=SCALE, NUMERIC_UNIT=NUMERIC_UNIT))

    # ------------------------------------------------------------------------------------------------------------
    def v(j):
        return 'select(values, %s)' % j

    def mm_inv(k):
        return ['is_none(mn) == forall(j, 0, %s, is_none(%s))' % (k, v('j')), 'is_none(mx) == is_none(mn)',
                'implies(not is_none(mn), is_int(mn) and is_int(mx))',
                'implies(not is_none(mn), forall(j, 0, %s, implies(not is_none(%s), ival(mn) <= ival(%s) and ival(%s) <= ival(mx))))' % (k, v('j'), v('j'), v('j')),
                'implies(not is_none(mn), exists(j, 0, %s, val_eq(%s, mn)) and exists(j, 0, %s, val_eq(%s, mx)))' % (k, v('j'), k, v('j'))]
    add(Contract(M + 'CoderState.minmax', {'values': ListT(VAL)}, returns=TupleT(VAL, VAL),
                 requires=['values != None', 'forall(j, 0, len(values), is_none(%s) or is_int(%s))' % (v('j'), v('j'))],
                 locals={'mn': VAL, 'mx': VAL},
                 loops={0: Loop(invariants=mm_inv('_i0'), locals={'v': VAL})},
                 ensures=[x.replace('mn', 'result[0]').replace('mx', 'result[1]') for x in mm_inv('len(values)')],
                 serves=['C02', 'C05'], pure=True,
                 note='minimum and maximum of the entries that are not None; (None, None) when all are'))


def register_walk(reg, E):
    """Coder.process_members and the composite descriptors.  The summary contract (what a caller of a nested walk may rely on) says
    that a walk only appends: descriptors, primitive calls, stream bits, links of new positions; the step contract of the loop pins
    the dispatch order of the FM-94 walk for one arbitrary member."""
    add = reg.add
    DD, VALL = 'state.decoded_descriptors', 'state.decoded_values_all_subsets'
    bbs = BitmapSpec('state')
    WF = (['state != None', 'bit_operator != None', '%s != None' % DD, 'state.bitmap_links != None', '%s != None' % VALL, 'len(%s) >= 1' % VALL,
           'implies(not state.is_compressed, state.decoded_values != None)'] + bbs.wf())
    STREAM = ['bit_operator.bit_stream.pos', 'bit_operator.bit_stream.bits', 'bit_operator.bit_stream.len']
    MOD = ['state.*', 'list(state.nbits_of_associated)', 'dict(state.new_refvals)', 'dict(state.bitmap_links)',
           'state.next_bitmapped_descriptor.pos'] + PRIM_MOD + STREAM
    # what survives a walk (old = entry of the function / of the loop iteration)
    KEPT = ['gh(state, "nprims") >= old(gh(state, "nprims"))', earlier_calls_kept('old(gh(state, "nprims"))'),
            'len(%s) >= old(len(%s))' % (DD, DD), 'list_eq_upto(%s, old(len(%s)))' % (DD, DD),
            '%s is old(%s)' % (DD, DD), 'state.bitmap_links is old(state.bitmap_links)', 'state.decoded_values is old(state.decoded_values)',
            '%s is old(%s)' % (VALL, VALL), 'same_list(%s)' % VALL,
            'state.decoded_descriptors_all_subsets is old(state.decoded_descriptors_all_subsets)',
            'state.bitmap_links_all_subsets is old(state.bitmap_links_all_subsets)',
            'state.is_compressed == old(state.is_compressed)', 'state.n_subsets == old(state.n_subsets)', 'state.idx_subset == old(state.idx_subset)',
            # the 204 stack is one object for the whole walk; the new-reference map and the bitmap cursor are the old ones or newer objects
            'state.nbits_of_associated is old(state.nbits_of_associated)',
            'state.new_refvals is old(state.new_refvals) or fresh(state.new_refvals)',
            'state.next_bitmapped_descriptor == None or state.next_bitmapped_descriptor is old(state.next_bitmapped_descriptor) or '
            'fresh(state.next_bitmapped_descriptor)',
            'forall(k, 0, old(len(%s)), haskey(state.bitmap_links, k) == old(haskey(state.bitmap_links, k)) and '
            'dval(state.bitmap_links, k) == old(dval(state.bitmap_links, k)))' % DD,
            'bit_operator.bit_stream.pos >= old(bit_operator.bit_stream.pos)', 'bit_operator.bit_stream.len >= old(bit_operator.bit_stream.len)',
            'prefix_same(bit_operator.bit_stream.bits, old(bit_operator.bit_stream.bits), old(bit_operator.bit_stream.len))']
    # the same identity facts relative to the entry of a loop (what the loop's own frame check needs)
    LOOP_ID = ['state.nbits_of_associated is entry(state.nbits_of_associated)',
               'state.new_refvals is entry(state.new_refvals) or newer(state.new_refvals)',
               'state.next_bitmapped_descriptor == None or state.next_bitmapped_descriptor is entry(state.next_bitmapped_descriptor) or '
               'newer(state.next_bitmapped_descriptor)',
               'gh(state, "nprims") >= entry(gh(state, "nprims"))', 'len(%s) >= entry(len(%s))' % (DD, DD),
               'forall(k, 0, entry(gh(state, "nprims")), ghat(state, "pdesc", k) == entry(ghat(state, "pdesc", k)))']
    ERR = {k: None for k in ('PyBufrKitError', 'AssertionError', 'NotImplementedError', 'ValueError', 'StopIteration', 'IndexError', 'TypeError',
                             'KeyError', 'AttributeError')}
    X, ASSOC, K1, NBITS, SCALE, NUMERIC_UNIT = [E[k].replace('descriptor', 'member') for k in ('X', 'ASSOC', 'K1', 'NBITS', 'SCALE', 'NUMERIC_UNIT')]
    N0_ = 'old(gh(state, "nprims"))'
    L0_ = 'old(len(%s))' % DD
    DNP = 'state.data_not_present_count'
    IS_ELEM = 'typeis(member, "ElementDescriptor")'
    SKIP = '(old(%s) != 0 and %s and not ((1 <= %s and %s <= 9) or %s == 31))' % (DNP, IS_ELEM, X, X, X)
    NEWREF = '(not %s and old(state.nbits_of_new_refval) != 0 and %s)' % (SKIP, IS_ELEM)
    SKIPLOC = '(not %s and not %s and old(state.nbits_of_skipped_local_descriptor) != 0)' % (SKIP, NEWREF)
    DISPATCH = '(not %s and not %s and not %s)' % (SKIP, NEWREF, SKIPLOC)
    DNP_AFTER = 'ite(old(%s) != 0, old(%s) - 1, 0)' % (DNP, DNP)
    KNOWN = ('(%s or typeis(member, "FixedReplicationDescriptor") or typeis(member, "DelayedReplicationDescriptor") or '
             'typeis(member, "OperatorDescriptor") or typeis(member, "SequenceDescriptor"))' % IS_ELEM)
    RECURSES = '(typeis(member, "FixedReplicationDescriptor") or typeis(member, "DelayedReplicationDescriptor") or typeis(member, "SequenceDescriptor"))'
    OP = '(%s and typeis(member, "OperatorDescriptor"))' % DISPATCH
    CODE, Y = 'member.id // 1000', 'member.id % 1000'
    EL = '(%s and %s)' % (DISPATCH, IS_ELEM)
    SK = 'asref(ghat(state, "pdesc", %s), "Descriptor")' % N0_
    steps = [
        # 221YYY countdown: an element outside classes 1-9 and 31 is passed over -- no value, no descriptor, no bits, no register but the count
        'implies(%s, %s == old(%s) - 1 and unchanged(state, "data_not_present_count") and gh(state, "nprims") == %s and same_ghosts(state) '
        'and len(%s) == %s and bit_operator.bit_stream.pos == old(bit_operator.bit_stream.pos) and '
        'bit_operator.bit_stream.len == old(bit_operator.bit_stream.len))' % (SKIP, DNP, DNP, N0_, DD, L0_),
        # 203YYY in force: an element descriptor defines its new reference value of YYY bits
        'implies(%s, gh(state, "nprims") == %s + 1 and ghat(state, "prim", %s) == %d and asref(ghat(state, "pdesc", %s), "Descriptor") is member '
        'and ghat(state, "pa", %s) == old(state.nbits_of_new_refval) and len(%s) == %s + 1 and select(%s, %s) is member and %s == %s)'
        % (NEWREF, N0_, N0_, P_NEWREF, N0_, N0_, DD, L0_, DD, L0_, DNP, DNP_AFTER),
        # 206YYY: the next descriptor of whatever kind is a YYY-bit unsigned field labelled S + its id, and 206 is spent
        'implies(%s, gh(state, "nprims") == %s + 1 and ghat(state, "prim", %s) == %d and ghat(state, "pa", %s) == old(state.nbits_of_skipped_local_descriptor) '
        'and typeis(%s, "SkippedLocalDescriptor") and %s.id == member.id and state.nbits_of_skipped_local_descriptor == 0 and '
        'len(%s) == %s + 1 and select(%s, %s) is %s and %s == %s)'
        % (SKIPLOC, N0_, N0_, P_CODEFLAG, N0_, SK, SK, DD, L0_, DD, L0_, SK, DNP, DNP_AFTER),
        # otherwise dispatch on the exact class; an element is coded by the element rules (widths / scale / reference of the registers)
        'implies(%s, gh(state, "nprims") == %s + 1 and asref(ghat(state, "pdesc", %s), "Descriptor") is member and %s == %s and '
        'len(%s) == %s + 1 + ite(%s, 1, 0) and select(%s, len(%s) - 1) is member)' % (EL, K1, K1, DNP, DNP_AFTER, DD, L0_, ASSOC, DD, DD),
        'implies(%s and %s, ghat(state, "prim", %s) == %d and ghat(state, "pa", %s) == old(sumof(state.nbits_of_associated)) and '
        'typeis(asref(ghat(state, "pdesc", %s), "Descriptor"), "AssociatedDescriptor") and asref(ghat(state, "pdesc", %s), "Descriptor").id == member.id)'
        % (EL, ASSOC, N0_, P_CODEFLAG, N0_, N0_, N0_),
        'implies(%s and member.unit == "CCITT IA5", ghat(state, "prim", %s) == %d and '
        'ghat(state, "pa", %s) == ite(old(state.new_nbytes) != 0, old(state.new_nbytes), member.nbits // 8))' % (EL, K1, P_STRING, K1),
        'implies(%s and (member.unit == "FLAG TABLE" or member.unit == "CODE TABLE"), ghat(state, "prim", %s) == %d and ghat(state, "pa", %s) == member.nbits)'
        % (EL, K1, P_CODEFLAG, K1),
        'implies(%s and %s and not old(haskey(state.new_refvals, member.id)), ghat(state, "prim", %s) == %d and ghat(state, "pa", %s) == %s and '
        'Eq(ghat(state, "pf", %s), 1.0 * 10 ** %s) and ghat(state, "pc", %s) == member.refval * old(state.bsr_modifier[2]))'
        % (EL, NUMERIC_UNIT, K1, P_NUMERIC, K1, NBITS, K1, SCALE, K1),
        'implies(%s and %s and old(haskey(state.new_refvals, member.id)), ghat(state, "prim", %s) == %d and ghat(state, "pa", %s) == %s and '
        'ghat(state, "pc", %s) == old(state.bsr_modifier[2]))' % (EL, NUMERIC_UNIT, K1, P_NUMERIC_NEWREF, K1, NBITS, K1),
        # a descriptor of no known class cannot be passed over: the iteration does not complete normally
        'not (%s and not %s)' % (DISPATCH, KNOWN),
        # operators update their register and nothing else (the cases that do not involve the bitmap machinery)
        'implies(%s and %s == 201, state.nbits_offset == ite(%s != 0, %s - 128, 0) and gh(state, "nprims") == %s and len(%s) == %s)' % (OP, CODE, Y, Y, N0_, DD, L0_),
        'implies(%s and %s == 202, state.scale_offset == ite(%s != 0, %s - 128, 0) and gh(state, "nprims") == %s and len(%s) == %s)' % (OP, CODE, Y, Y, N0_, DD, L0_),
        'implies(%s and %s == 203, state.nbits_of_new_refval == ite(%s == 255, 0, %s) and gh(state, "nprims") == %s)' % (OP, CODE, Y, Y, N0_),
        'implies(%s and %s == 203 and %s == 0, dsize(state.new_refvals) == 0)' % (OP, CODE, Y),
        'implies(%s and %s == 204 and %s != 0, len(state.nbits_of_associated) == old(len(state.nbits_of_associated)) + 1 and '
        'sumof(state.nbits_of_associated) == old(sumof(state.nbits_of_associated)) + %s)' % (OP, CODE, Y, Y),
        'implies(%s and %s == 204 and %s == 0, len(state.nbits_of_associated) == old(len(state.nbits_of_associated)) - 1)' % (OP, CODE, Y),
        'implies(%s and %s == 205, gh(state, "nprims") == %s + 1 and ghat(state, "prim", %s) == %d and ghat(state, "pa", %s) == %s and '
        'asref(ghat(state, "pdesc", %s), "Descriptor") is member)' % (OP, CODE, N0_, N0_, P_STRING, N0_, Y, N0_),
        'implies(%s and %s == 206, state.nbits_of_skipped_local_descriptor == %s and gh(state, "nprims") == %s)' % (OP, CODE, Y, N0_),
        'implies(%s and %s == 207, state.bsr_modifier[0] == ite(%s != 0, (10 * (%s) + 2) // 3, 0) and state.bsr_modifier[1] == %s and '
        'state.bsr_modifier[2] == ite(%s != 0, pow10(%s), 1))' % (OP, CODE, Y, Y, Y, Y, Y),
        'implies(%s and %s == 208, state.new_nbytes == %s and gh(state, "nprims") == %s)' % (OP, CODE, Y, N0_),
        'implies(%s and %s == 221, %s == %s and gh(state, "nprims") == %s)' % (OP, CODE, DNP, Y, N0_),
        'implies(%s and %s != 221, %s == %s)' % (OP, CODE, DNP, DNP_AFTER),
    ]
    add(Contract(M + 'Coder.process_members', {'self': CD, 'state': S, 'bit_operator': BO, 'members': ListT(DESC)},
                 requires=WF + ['@input members != None', '@input members is not state.decoded_descriptors'], modifies=MOD, assume_input=True,
                 # NOT YET DISCHARGED: the body generates ~3000 obligations (about 30 paths x 40 invariants / 24 step clauses), 70 of which are
                 # still open and one run takes > 20 minutes; until that is fixed the SUMMARY below is an assumed interface for the composite
                 # descriptors (listed as such in the evidence) and the step contract is not claimed
                 trusted=True,
                 loops={0: Loop(invariants=WF + KEPT + LOOP_ID, modifies=MOD, steps=steps, locals={'member': DESC, 'X': INT},
                                raise_steps={'UnknownDescriptor': ['implies(not %s, %s and not %s)' % (RECURSES, DISPATCH, KNOWN)]})},
                 ensures=WF + KEPT, raises=dict(ERR), serves=['C01', 'C02', 'C12', 'C14'],
                 note='summary: a walk only appends (descriptors, primitive calls, stream, links of new positions) and keeps the state well formed; '
                      'step contract: 221 countdown, then 203 definition, then 206 skip, then the bitmap definition pre-step and dispatch on '
                      'the exact class; a descriptor of no known class raises UnknownDescriptor (never skipped)'))
    for fname, dty in (('process_fixed_replication_descriptor', Ref('FixedReplicationDescriptor')), ('process_sequence_descriptor', Ref('SequenceDescriptor'))):
        loops = {0: Loop(invariants=WF + KEPT + LOOP_ID + ['descriptor.members != None', 'descriptor.members is not state.decoded_descriptors'], modifies=MOD)} if 'fixed' in fname else {}
        add(Contract(M + 'Coder.' + fname, {'self': CD, 'state': S, 'bit_operator': BO, 'descriptor': dty},
                     requires=WF + ['descriptor != None', '@input descriptor.members != None', '@input descriptor.members is not state.decoded_descriptors'],
                     modifies=MOD, assume_input=True, loops=loops,
                     ensures=WF + KEPT, raises=dict(ERR), serves=['C01', 'C02', 'C14'],
                     note='composite descriptor: its members are walked (YYY times for a fixed replication); summary as for process_members'))
    # the value of the delayed replication factor just processed: a non-negative integer taken from the data (interface, assumed at the
    # call in process_delayed_replication_descriptor; CoderState.get_value_for_delayed_replication_factor and the two overrides are verified)
    add(Contract(M + 'Coder.get_value_for_delayed_replication_factor', {'self': CD, 'state': S}, returns=INT, trusted=True, pure=True,
                 requires=['state != None'], ensures=['result >= 0'],
                 raises={'PyBufrKitError': None, 'AssertionError': None, 'IndexError': None, 'TypeError': None}, serves=['C01', 'C02'],
                 note='interface contract: the factor value is >= 0 (a missing or negative factor is refused)'))
    FACTOR = 'descriptor.factor'
    add(Contract(M + 'Coder.process_delayed_replication_descriptor',
                 {'self': CD, 'state': S, 'bit_operator': BO, 'descriptor': Ref('DelayedReplicationDescriptor')},
                 requires=WF + ['descriptor != None', '@input descriptor.members != None', '@input descriptor.members is not state.decoded_descriptors',
                                '@input %s != None' % FACTOR], modifies=MOD, assume_input=True,
                 loops={0: Loop(invariants=WF + KEPT + LOOP_ID + ['descriptor.members != None', 'descriptor.members is not state.decoded_descriptors'], modifies=MOD)},
                 ensures=WF + KEPT + [
                     # the class-31 factor is read first, by the element rules, and is part of the data
                     'gh(state, "nprims") >= %s + 1' % N0_, 'len(%s) >= %s + 1' % (DD, L0_),
                     'exists(k, %s, %s + 2, asref(ghat(state, "pdesc", k), "Descriptor") is %s)' % (N0_, N0_, FACTOR)],
                 raises=dict(ERR),
                 must_raise=[('UnknownDescriptor', 'not typeis(%s, "ElementDescriptor") and descriptor.id != 31011 and descriptor.id != 31012' % FACTOR),
                             ('NotImplementedError', 'descriptor.id == 31011 or descriptor.id == 31012')],
                 serves=['C01', 'C02', 'C12', 'C14'],
                 note='delayed replication: the factor element is coded first (and kept as data), then the members are walked factor times; a factor '
                      'that is not an element descriptor (undefined in the tables) is refused with UnknownDescriptor'))
