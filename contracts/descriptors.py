"""Contracts for pybufrkit/descriptors.py (C01): the documented descriptor labels."""
from pyvc.ty import *
from pyvc.contract import Contract

M = 'pybufrkit.descriptors.'


def register(reg):
    add = reg.add
    add(Contract(M + 'Descriptor.__str__', {'self': Ref('Descriptor')}, returns=STR, requires=['self != None', '0 <= self.id', 'self.id <= 999999'],
                 ensures=['result == zpad(self.id, 6)', 'len(result) == 6'], pure=True, serves=['C01'],
                 note='plain label: the id as six digits 0XXYYY'))
    for cls, letter in (('AssociatedDescriptor', 'A'), ('SkippedLocalDescriptor', 'S')):
        add(Contract(M + cls + '.__str__', {'self': Ref(cls)}, returns=STR, requires=['self != None', '0 <= self.id', 'self.id <= 99999'],
                     ensures=['result == "%s" + zpad(self.id, 5)' % letter, 'len(result) == 6'], pure=True, serves=['C01'],
                     note='%s + the five digits XXYYY of the element it belongs to' % letter))
    add(Contract('lemma.C02.fxy', {'d': INT}, lemma=True, requires=['0 <= d', 'd <= 399999'],
                 ensures=['(d // 100000) * 100000 + (d // 1000 % 100) * 1000 + d % 1000 == d', '0 <= d // 100000', 'd // 100000 < 4',
                          'd // 1000 % 100 < 100', 'd % 1000 < 1000'],
                 serves=['C02'], note='F X Y recompose the id: the decoder rule f * 100000 + x * 1000 + y inverts the encoder packing'))
