"""Contracts for pybufrkit/dataquery.py (C15): the path-expression parser against the register automaton of the documented
grammar (docs/internals.rst, "Query the Template Data"):

    <query_expr>  = [<subset_spec>] <path_spec>+        <subset_spec> = '@'<slice>
    <path_spec>   = <separator> <descriptor_id> [<slice>]    <separator> = '/' | '.' | '>'
    whitespace ignored; the leading separator may be omitted (defaults to '>') when the expression begins with a path spec

The loop of NodePathParser.parse gets a *step contract*: one clause per (automaton state, character class) written from the
grammar -- what an arbitrary iteration must do to the registers (state, pending token, slice elements, separator, id,
components, subset selector) -- plus *raise-step* clauses: an iteration may leave by PathExprParsingError only from a
(state, character) pair for which the grammar has no successor, or on a slice element that is not an integer.  The end of
input is a two-state relation between the registers when the loop is left and the returned path.  The handlers are cut in
by their own contracts (derived from the code, strong enough to carry the clauses).

ID characters: the statement leaves the alphabet of <descriptor_id> open; the clauses follow the *lenient* reading (any
character other than @ [ ] : / . > and whitespace), exactly as the bounded layer's reference does, plus the fail-fast test
on the first character which the repository's own tests pin down.
"""
from pyvc.ty import *
from pyvc.contract import Contract, Loop

M = 'pybufrkit.dataquery.'
P = Ref('NodePathParser')
NP = Ref('NodePath')
PC = TupleT(VAL, VAL, VAL)
PC.names = ('separator', 'id', 'slice')

ST, TOK, ELS, SEP, CID = 'self.current_state', 'self.current_token', 'self.current_slice_elements', 'self.current_separator', 'self.current_id'
COMPS = 'self.node_path.components'
ERR = 'PathExprParsingError'
STATES = ['', '@', '@[', '@:', '@]', 'i', '[', ':', ']']


def q(s):
    return repr(s)


def st_in(expr, names):
    return '(' + ' or '.join('Eq(%s, %s)' % (expr, q(n)) for n in names) + ')'


def slice_is(res, els, n, bare='self.bare_id_matches_all'):
    """`res` is the Python object the grammar assigns to the slice elements `els` (a list expression in the state the
    clause is evaluated in) of length `n`: none -> [::] (or 0 when bare IDs match the first occurrence only); one
    non-negative int -> that int; one negative k -> slice(k, k + 1 or None); two or three -> slice(*)"""
    e0, e1, e2 = ['select(%s, %d)' % (els, k) for k in range(3)]
    none3 = lambda r: 'is_slice(%s) and is_none(slice_part(%s, "start")) and is_none(slice_part(%s, "stop")) and is_none(slice_part(%s, "step"))' % (r, r, r, r)
    return ' and '.join([
        'implies(%s == 0 and %s, %s)' % (n, bare, none3(res)),
        'implies(%s == 0 and not %s, is_int(%s) and ival(%s) == 0)' % (n, bare, res, res),
        'implies(%s == 1 and ival(%s) >= 0, val_eq(%s, %s))' % (n, e0, res, e0),
        'implies(%s == 1 and ival(%s) < 0, is_slice(%s) and val_eq(slice_part(%s, "start"), %s) and is_none(slice_part(%s, "step")) and '
        'ite(ival(%s) == -1, is_none(slice_part(%s, "stop")), is_int(slice_part(%s, "stop")) and ival(slice_part(%s, "stop")) == ival(%s) + 1))'
        % (n, e0, res, res, e0, res, e0, res, res, res, e0),
        'implies(%s == 2, is_slice(%s) and val_eq(slice_part(%s, "start"), %s) and val_eq(slice_part(%s, "stop"), %s) and is_none(slice_part(%s, "step")))'
        % (n, res, res, e0, res, e1, res),
        'implies(%s == 3, is_slice(%s) and val_eq(slice_part(%s, "start"), %s) and val_eq(slice_part(%s, "stop"), %s) and val_eq(slice_part(%s, "step"), %s))'
        % (n, res, res, e0, res, e1, res, e2)])


# well-formedness of the parser registers (class invariant while a parse is running)
def regs_wf(s='self'):
    els = '%s.current_slice_elements' % s
    return ['%s.node_path != None' % s, '%s.node_path.components != None' % s, '%s != None' % els,
            'is_txt(%s.current_state)' % s, st_in('%s.current_state' % s, STATES), 'is_txt(%s.current_token)' % s,
            'forall(k, 0, len(%s), is_none(select(%s, k)) or is_int(select(%s, k)))' % (els, els, els),
            # which registers are live in which state
            'implies(%s, len(%s) == 0)' % (st_in('%s.current_state' % s, ['', '@', '@[', 'i', '[']), els),
            'implies(%s, len(%s) >= 1)' % (st_in('%s.current_state' % s, ['@:', ':', '@]', ']']), els),
            'implies(%s and len(%s) == 1, is_int(select(%s, 0)))' % (st_in('%s.current_state' % s, ['@]', ']']), els, els),
            'implies(%s, Eq(%s.current_token, ""))' % (st_in('%s.current_state' % s, ['', '@', '@]', ']']), s),
            'implies(%s, is_txt(%s.current_id))' % (st_in('%s.current_state' % s, ['[', ':', ']']), s),
            'implies(%s, is_txt(%s.current_separator))' % (st_in('%s.current_state' % s, ['i', '[', ':', ']']), s),
            '%s is not %s.node_path.components' % (els, s)]


WF = regs_wf()
MOD_REGS = ['self.current_state', 'self.current_token', 'self.current_id', 'self.current_separator', 'self.current_slice_elements',
            'list(self.current_slice_elements)']
MOD_PATH = ['list(self.node_path.components)', 'self.node_path.subset_slice']

OST, OTOK, OELS, OSEP, OCID = ['old(%s)' % x for x in (ST, TOK, ELS, SEP, CID)]
ON = 'old(len(%s))' % ELS
OC = 'old(len(%s))' % COMPS
SAME_COMPS = 'len(%s) == %s and list_eq_upto(%s, %s)' % (COMPS, OC, COMPS, OC)
SAME_ELS = '%s is %s and same_list(%s)' % (ELS, OELS, ELS)
LASTC = 'select(%s, %s)' % (COMPS, OC)


def appended_component(sep, ident, els, n):
    """exactly one component (sep, ident, slice of els) is appended; earlier components untouched; slice elements consumed"""
    return ('len(%s) == %s + 1 and list_eq_upto(%s, %s) and val_eq(%s[0], %s) and val_eq(%s[1], %s) and %s and len(%s) == 0'
            % (COMPS, OC, COMPS, OC, LASTC, sep, LASTC, ident, slice_is('%s[2]' % LASTC, els, n), ELS))


def register(reg):
    add = reg.add
    add(Contract(M + 'NodePathParser.convert_id', {'self': P}, returns=VAL,
                 requires=['is_txt(%s)' % TOK], modifies=['self.current_token'],
                 must_raise=[(ERR, 'Eq(%s, "")' % TOK)], raises={ERR: 'Eq(%s, "")' % TOK},
                 ensures=['val_eq(result, %s)' % OTOK, 'Eq(%s, "")' % TOK],
                 serves=['C15'], note='an empty ID is rejected; the pending token becomes the ID'))
    add(Contract(M + 'NodePathParser.convert_slice_element', {'self': P}, returns=VAL,
                 requires=['is_txt(%s)' % TOK], modifies=['self.current_token'],
                 must_raise=[(ERR, 'not Eq(%s, "") and not isintlit(tval(%s))' % (TOK, TOK))],
                 raises={ERR: 'not Eq(%s, "") and not isintlit(tval(%s))' % (TOK, TOK)},
                 ensures=['Eq(%s, "")' % TOK, 'implies(Eq(%s, ""), is_none(result))' % OTOK,
                          'implies(not Eq(%s, ""), is_int(result) and ival(result) == intlit(tval(%s)))' % (OTOK, OTOK)],
                 serves=['C15'], note='slice element: empty -> None, else the integer; a non-integer is the path-parsing error, no other class'))
    add(Contract(M + 'NodePathParser.create_slice_object', {'self': P}, returns=VAL,
                 requires=['%s != None' % ELS, 'forall(k, 0, len(%s), is_none(select(%s, k)) or is_int(select(%s, k)))' % (ELS, ELS, ELS),
                           'implies(len(%s) == 1, is_int(select(%s, 0)))' % (ELS, ELS)],
                 modifies=['self.current_slice_elements'],
                 must_raise=[(ERR, 'len(%s) > 3' % ELS)], raises={ERR: 'len(%s) > 3' % ELS},
                 ensures=[slice_is('result', OELS, ON), 'len(%s) == 0' % ELS, 'fresh(%s)' % ELS, 'same_list(%s)' % OELS,
                          'implies(is_ref(result), isfresh(asref(refof(result), "PySlice")))'],
                 serves=['C15'], note='Python-style slice object from 0..3 elements; more than three is rejected'))
    add(Contract(M + 'NodePathParser.add_new_path_component', {'self': P},
                 requires=['self.node_path != None', '%s != None' % COMPS, '%s != None' % ELS,
                           'forall(k, 0, len(%s), is_none(select(%s, k)) or is_int(select(%s, k)))' % (ELS, ELS, ELS),
                           'implies(len(%s) == 1, is_int(select(%s, 0)))' % (ELS, ELS), '%s is not %s' % (ELS, COMPS)],
                 modifies=['self.current_slice_elements', 'list(self.node_path.components)'],
                 must_raise=[(ERR, 'len(%s) > 3' % ELS)], raises={ERR: 'len(%s) > 3' % ELS},
                 ensures=[appended_component(OSEP, OCID, OELS, ON), 'fresh(%s)' % ELS, 'same_list(%s)' % OELS],
                 serves=['C15'], note='appends (separator, id, slice) -- nothing is dropped'))
    add(Contract(M + 'NodePathParser.handle_left_bracket', {'self': P},
                 requires=WF, modifies=['self.current_state', 'self.current_token', 'self.current_id'],
                 must_raise=[(ERR, 'not (Eq(%s, "@") or (Eq(%s, "i") and not Eq(%s, "")))' % (ST, ST, TOK))],
                 raises={ERR: 'not (Eq(%s, "@") or (Eq(%s, "i") and not Eq(%s, "")))' % (ST, ST, TOK)},
                 cases=[('subset', 'Eq(%s, "@")' % ST, ['Eq(%s, "@[")' % ST, 'val_eq(%s, %s)' % (TOK, OTOK), 'val_eq(%s, %s)' % (CID, OCID)]),
                        ('id', 'Eq(%s, "i")' % ST, ['Eq(%s, "[")' % ST, 'val_eq(%s, %s)' % (CID, OTOK), 'Eq(%s, "")' % TOK])],
                 serves=['C15'], note="'[' opens a slice only after '@' or after a non-empty ID"))
    CB = 'handle_colon_and_right_bracket'
    open_states = ['[', ':', '@[', '@:']
    bad_cb = ('not %s or (c == "]" and Eq(%s, "") and %s) or (not Eq(%s, "") and not isintlit(tval(%s)))'
              % (st_in(ST, open_states), TOK, st_in(ST, ['[', '@[']), TOK, TOK))
    NEWEL = 'select(%s, %s)' % (ELS, ON)
    add(Contract(M + 'NodePathParser.' + CB, {'self': P, 'c': STR},
                 requires=WF + ['c == ":" or c == "]"'], modifies=['self.current_state', 'self.current_token', 'list(self.current_slice_elements)'],
                 must_raise=[(ERR, bad_cb)], raises={ERR: bad_cb},
                 ensures=['%s is %s' % (ELS, OELS), 'len(%s) == %s + 1' % (ELS, ON), 'list_eq_upto(%s, %s)' % (ELS, ON), 'Eq(%s, "")' % TOK,
                          'implies(Eq(%s, ""), is_none(%s))' % (OTOK, NEWEL),
                          'implies(not Eq(%s, ""), is_int(%s) and ival(%s) == intlit(tval(%s)))' % (OTOK, NEWEL, NEWEL, OTOK),
                          'implies(c == ":", Eq(%s, ite(%s, "@:", ":")))' % (ST, st_in(OST, ['@[', '@:'])),
                          'implies(c == "]", Eq(%s, ite(%s, "@]", "]")))' % (ST, st_in(OST, ['@[', '@:']))],
                 serves=['C15'], note="':' and ']' end a slice element; '[]' is rejected; ']' closes the slice"))
    # separators
    bad_sep = ('(Eq(%s, "") and c == ".") or (Eq(%s, "i") and Eq(%s, "")) or (Eq(%s, "@]") and c == ".") or %s or '
               '(%s and len(%s) > 3)' % (ST, ST, TOK, ST, st_in(ST, ['@', '@[', '@:', '[', ':']), st_in(ST, ['@]', ']']), ELS))
    add(Contract(M + 'NodePathParser.handle_separator', {'self': P, 'c': STR},
                 requires=WF + ['c == "/" or c == "." or c == ">"'], modifies=MOD_REGS + MOD_PATH,
                 must_raise=[(ERR, bad_sep)], raises={ERR: bad_sep},
                 ensures=['Eq(%s, "i")' % ST, 'Eq(%s, c)' % SEP, 'Eq(%s, "")' % TOK, 'len(%s) == 0' % ELS, 'self.node_path is old(self.node_path)',
                          '%s is old(%s)' % (COMPS, COMPS), '%s is not %s' % (ELS, COMPS), '%s != None' % ELS, 'fresh(%s)' % ELS],
                 cases=[('start', 'Eq(%s, "")' % ST, [SAME_COMPS, slice_is('self.node_path.subset_slice', OELS, ON)]),
                        ('subset', 'Eq(%s, "@]")' % ST, [SAME_COMPS, slice_is('self.node_path.subset_slice', OELS, ON)]),
                        ('id', 'Eq(%s, "i")' % ST, [appended_component(OSEP, OTOK, OELS, ON),
                                                    'val_eq(self.node_path.subset_slice, old(self.node_path.subset_slice))']),
                        ('slice', 'Eq(%s, "]")' % ST, [appended_component(OSEP, OCID, OELS, ON),
                                                       'val_eq(self.node_path.subset_slice, old(self.node_path.subset_slice))'])],
                 serves=['C15'], note='a separator closes the subset selector or the pending component and opens the next ID'))

    # ---- canonical printing of a slice (C15: print / parse round trip, element level) ----------------------------------------
    def part(f):
        return 'ite(is_none(slice_part(slc, "%s")), "", int2str(ival(slice_part(slc, "%s"))))' % (f, f)
    add(Contract(M + 'NodePath.slice_to_str', {'self': NP, 'slc': VAL}, returns=STR,
                 requires=['is_int(slc) or is_slice(slc)',
                           'implies(is_slice(slc), ' + ' and '.join('(is_none(slice_part(slc, "%s")) or is_int(slice_part(slc, "%s")))' % (f, f)
                                                                    for f in ('start', 'stop', 'step')) + ')'],
                 ensures=['implies(is_int(slc), result == "[" + int2str(ival(slc)) + "]")',
                          'implies(is_slice(slc), result == "[" + %s + ":" + %s + ":" + %s + "]")' % (part('start'), part('stop'), part('step'))],
                 serves=['C15'], note='an index prints as [k]; a slice as [start:stop:step] with absent parts empty -- 0 is a present part'))

    # ---- the parser loop ---------------------------------------------------------------------------------------------
    C = 'str_at(path_expr, old(self.pos))'
    WSP = 'str_contains(" \\t\\n\\r\\x0b\\x0c", %s)' % C
    ADV = 'self.pos == old(self.pos) + 1'
    IDCH = '(not %s and not str_contains("@[]:/.>", %s))' % (WSP, C)
    SEPCH = '(%s == "/" or %s == "." or %s == ">")' % (C, C, C)
    KEEP_PATH = '%s and val_eq(self.node_path.subset_slice, old(self.node_path.subset_slice))' % SAME_COMPS
    KEEP_ELS = SAME_ELS
    KEEP_IDSEP = 'val_eq(%s, %s) and val_eq(%s, %s)' % (CID, OCID, SEP, OSEP)
    NEWEL = 'select(%s, %s)' % (ELS, ON)
    ELEM = ('%s is %s and len(%s) == %s + 1 and list_eq_upto(%s, %s) and Eq(%s, "") and ite(Eq(%s, ""), is_none(%s), is_int(%s) and ival(%s) == intlit(tval(%s)))'
            % (ELS, OELS, ELS, ON, ELS, ON, TOK, OTOK, NEWEL, NEWEL, NEWEL, OTOK))
    steps = [
        ADV, 'self.node_path is old(self.node_path)', '%s is old(%s)' % (COMPS, COMPS),
        # whitespace is ignored everywhere: no register changes
        'implies(%s, val_eq(%s, %s) and val_eq(%s, %s) and %s and %s and %s)' % (WSP, ST, OST, TOK, OTOK, KEEP_ELS, KEEP_IDSEP, KEEP_PATH),
        # '@' opens the subset selector, at the very beginning only
        'implies(%s == "@", Eq(%s, "") and Eq(%s, "@") and val_eq(%s, %s) and %s and %s and %s)' % (C, OST, ST, TOK, OTOK, KEEP_ELS, KEEP_IDSEP, KEEP_PATH),
        # '[' after '@' or after a non-empty ID
        'implies(%s == "[", (Eq(%s, "@") or (Eq(%s, "i") and not Eq(%s, ""))) and %s and %s and val_eq(%s, %s))' % (C, OST, OST, OTOK, KEEP_ELS, KEEP_PATH, SEP, OSEP),
        'implies(%s == "[" and Eq(%s, "@"), Eq(%s, "@[") and val_eq(%s, %s))' % (C, OST, ST, TOK, OTOK),
        'implies(%s == "[" and Eq(%s, "i"), Eq(%s, "[") and val_eq(%s, %s) and Eq(%s, ""))' % (C, OST, ST, CID, OTOK, TOK),
        # ':' and ']' end a slice element inside an open slice; '[]' is not a slice
        'implies(%s == ":" or %s == "]", %s and %s and %s and %s)' % (C, C, st_in(OST, open_states), ELEM, KEEP_IDSEP, KEEP_PATH),
        'implies(%s == "]", not (Eq(%s, "") and %s))' % (C, OTOK, st_in(OST, ['[', '@['])),
        'implies(%s == ":", Eq(%s, ite(%s, "@:", ":")))' % (C, ST, st_in(OST, ['@[', '@:'])),
        'implies(%s == "]", Eq(%s, ite(%s, "@]", "]")))' % (C, ST, st_in(OST, ['@[', '@:'])),
        # separators: legal at the start ('/' and '>' only), after a non-empty ID, after a closed slice, after the subset
        # selector ('/' and '>' only); each closes what is pending -- nothing is dropped
        'implies(%s, Eq(%s, "i") and Eq(%s, %s) and Eq(%s, "") and len(%s) == 0)' % (SEPCH, ST, SEP, C, TOK, ELS),
        'implies(%s, (%s and %s != ".") or (Eq(%s, "i") and not Eq(%s, "")) or (Eq(%s, "]") and %s <= 3))'
        % (SEPCH, st_in(OST, ['', '@]']), C, OST, OTOK, OST, ON),
        'implies(%s and %s, %s and %s)' % (SEPCH, st_in(OST, ['', '@]']), SAME_COMPS, slice_is('self.node_path.subset_slice', OELS, ON)),
        'implies(%s and Eq(%s, "i"), %s and val_eq(self.node_path.subset_slice, old(self.node_path.subset_slice)))' % (SEPCH, OST, appended_component(OSEP, OTOK, OELS, ON)),
        'implies(%s and Eq(%s, "]"), %s and val_eq(self.node_path.subset_slice, old(self.node_path.subset_slice)))' % (SEPCH, OST, appended_component(OSEP, OCID, OELS, ON)),
        # ID / slice-element characters accumulate; at the very beginning they open an ID with the default separator '>'
        'implies(%s, %s)' % (IDCH, st_in(OST, ['', 'i', '@[', '@:', '[', ':'])),
        'implies(%s and not Eq(%s, ""), val_eq(%s, %s) and Eq(%s, tval(%s) + %s) and %s and %s and %s)' % (IDCH, OST, ST, OST, TOK, OTOK, C, KEEP_ELS, KEEP_IDSEP, KEEP_PATH),
        'implies(%s and Eq(%s, ""), Eq(%s, "i") and Eq(%s, ">") and Eq(%s, %s) and len(%s) == 0 and %s and %s)'
        % (IDCH, OST, ST, SEP, TOK, C, ELS, SAME_COMPS, slice_is('self.node_path.subset_slice', OELS, ON)),
    ]
    # an iteration may reject only where the grammar has no successor (or a slice element is not an integer)
    NOT_INT = '(not Eq(%s, "") and not isintlit(tval(%s)))' % (OTOK, OTOK)
    may_reject = ' or '.join([
        '(%s == "@" and not Eq(%s, ""))' % (C, OST),
        '(%s == "[" and not (Eq(%s, "@") or (Eq(%s, "i") and not Eq(%s, ""))))' % (C, OST, OST, OTOK),
        '((%s == ":" or %s == "]") and (not %s or %s))' % (C, C, st_in(OST, open_states), NOT_INT),
        '(%s == "]" and Eq(%s, "") and %s)' % (C, OTOK, st_in(OST, ['[', '@['])),
        '(%s and not ((%s and %s != ".") or (Eq(%s, "i") and not Eq(%s, "")) or (Eq(%s, "]") and %s <= 3) or (Eq(%s, "@]") and %s <= 3 and %s != ".")))'
        % (SEPCH, 'Eq(%s, "")' % OST, C, OST, OTOK, OST, ON, OST, ON, C),
        '(%s and not %s)' % (IDCH, st_in(OST, ['', 'i', '@[', '@:', '[', ':'])),
    ])
    # (a subset selector with more than three elements is rejected at the separator that closes it)
    steps[13] = ('implies(%s, (Eq(%s, "") and %s != ".") or (Eq(%s, "@]") and %s != "." and %s <= 3) or (Eq(%s, "i") and not Eq(%s, "")) or (Eq(%s, "]") and %s <= 3))'
                 % (SEPCH, OST, C, OST, C, ON, OST, OTOK, OST, ON))

    XST, XTOK, XN = 'at_exit(0, %s)' % ST, 'at_exit(0, %s)' % TOK, 'at_exit(0, len(%s))' % ELS
    XC = 'at_exit(0, len(%s))' % COMPS
    ACCEPT = '((Eq(%s, "i") and not Eq(%s, "")) or (Eq(%s, "]") and %s <= 3))' % (XST, XTOK, XST, XN)
    RLAST = 'select(result.components, %s)' % XC
    FIRST = 'str_at(pystrip(path_expr), 0)'
    FAILFAST = '(pystrip(path_expr) == "" or not str_contains("@/>0123456789ABCDEFGHIJKLMNOPQRSTUVWXYZ", %s))' % FIRST
    add(Contract(M + 'NodePathParser.parse', {'self': P, 'path_expr': STR}, returns=NP,
                 modifies=['self.*'],
                 raises={ERR: None}, must_raise=[(ERR, FAILFAST)],
                 loops={0: Loop(invariants=WF + ['0 <= self.pos', 'fresh(self.node_path)', 'fresh(%s)' % COMPS, 'fresh(%s)' % ELS,
                                                 'implies(Eq(%s, ""), len(%s) == 0)' % (ST, COMPS)],
                                modifies=['self.*', 'list(self.current_slice_elements)', 'list(self.node_path.components)', 'self.node_path.subset_slice'],
                                steps=steps, raise_steps={ERR: [may_reject]},
                                locals={'c': STR})},
                 ensures=['result != None', 'fresh(result)', 'has_exit(0)',
                          # end of input: accepted only in "inside a non-empty ID" or "after a closed slice"
                          ACCEPT,
                          # ... and the pending component is appended -- nothing is dropped, earlier ones untouched
                          'result is at_exit(0, self.node_path)', 'len(result.components) == %s + 1' % XC,
                          'forall(k, 0, %s, select(result.components, k) == at_exit(0, select(%s, k)))' % (XC, COMPS),
                          'val_eq(%s[0], at_exit(0, %s))' % (RLAST, SEP),
                          'val_eq(%s[1], ite(Eq(%s, "i"), at_exit(0, %s), at_exit(0, %s)))' % (RLAST, XST, TOK, CID),
                          'implies(Eq(%s, "i"), %s)' % (XST, slice_is('%s[2]' % RLAST, 'at_exit(0, %s)' % ELS, '0')),
                          'implies(Eq(%s, "]"), %s)' % (XST, slice_is('%s[2]' % RLAST, 'at_exit(0, %s)' % ELS, XN)),
                          'val_eq(result.subset_slice, at_exit(0, self.node_path.subset_slice))'],
                 exc_ensures={ERR: ['implies(has_exit(0), not %s)' % ACCEPT]},
                 serves=['C15'], harness='pathparse',
                 note='step contract of the character loop against the grammar automaton; end of input accepts exactly "in ID" / "after slice"'))
