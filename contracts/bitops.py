"""Contracts for pybufrkit/bitops.py against the bit-stream model L7 (spec/bitmodel.py).

rpos/rlen/rbits and wlen/wbits (spec/bits.py) abstract a reader / writer to the model state.
U(bits, p, n) is the unsigned big-endian value of the n bits starting at bit p.
Closed-world assumption: BitStringBitReader / BitStringBitWriter are the only implementations of
BitReader / BitWriter in the tree, so methods defined on the base classes are verified with `self`
typed as the concrete class.
"""
from pyvc.ty import *
from pyvc.engine import BITS
from pyvc.contract import Contract, Loop

R = Ref('BitStringBitReader')
W = Ref('BitStringBitWriter')
M = 'pybufrkit.bitops.'


def register(reg):
    add = reg.add
    # ------------------------------------------------------------------ reader
    add(Contract(M + 'BitStringBitReader.__init__', {'self': R, 's': BYTES},
                 modifies=['self.bit_stream'],
                 ensures=['rpos(self) == 0', 'rlen(self) == 8 * len(s)', 'Bst(rbits(self), 0, len(s)) == s',
                          'fresh(self.bit_stream)'],
                 serves=['C19', 'C12']))
    add(Contract(M + 'BitStringBitReader.get_pos', {'self': R}, returns=INT,
                 ensures=['result == rpos(self)'], serves=['C19', 'C04'], pure=True))
    # The wrapper that turns library failures into the library's own error type.  Verified with an
    # opaque format string, i.e. for every library outcome the model knows (ReadError, ValueError).
    add(Contract(M + 'BitStringBitReader._bit_stream_read', {'self': R, 'fmt_string': STR}, returns=VAL,
                 modifies=['self.bit_stream.pos'],
                 raises={'BitReadError': None},
                 inline=True, serves=['C19', 'C12'],
                 note='every failure of bit_stream.read leaves as BitReadError (D-2)'))
    read_fail = 'rpos(self) + %s > rlen(self)'
    add(Contract(M + 'BitStringBitReader.read_uint', {'self': R, 'nbits': INT}, returns=INT,
                 modifies=['self.bit_stream.pos'],
                 ensures=['result == U(rbits(self), old(rpos(self)), nbits)',
                          'rpos(self) == old(rpos(self)) + nbits',
                          '0 <= result', 'implies(nbits <= 64, result < pow2(nbits))'],
                 raises={'BitReadError': 'nbits <= 0 or ' + read_fail % 'nbits'},
                 must_raise=[('BitReadError', 'nbits <= 0 or ' + read_fail % 'nbits')],
                 serves=['C19', 'C01', 'C12']))
    add(Contract(M + 'BitStringBitReader.read_bool', {'self': R}, returns=BOOL,
                 modifies=['self.bit_stream.pos'],
                 ensures=['result == (U(rbits(self), old(rpos(self)), 1) == 1)',
                          'rpos(self) == old(rpos(self)) + 1'],
                 raises={'BitReadError': read_fail % '1'},
                 must_raise=[('BitReadError', read_fail % '1')],
                 serves=['C19', 'C12']))
    add(Contract(M + 'BitStringBitReader.read_bytes', {'self': R, 'nbytes': INT}, returns=BYTES,
                 modifies=['self.bit_stream.pos'],
                 ensures=['result == Bst(rbits(self), old(rpos(self)), nbytes)', 'len(result) == nbytes',
                          'rpos(self) == old(rpos(self)) + 8 * nbytes'],
                 raises={'BitReadError': 'nbytes < 0 or ' + read_fail % '8 * nbytes'},
                 must_raise=[('BitReadError', 'nbytes < 0 or ' + read_fail % '8 * nbytes')],
                 serves=['C19', 'C01', 'C12']))
    add(Contract(M + 'BitStringBitReader.read_bin', {'self': R, 'nbits': INT}, returns=STR,
                 modifies=['self.bit_stream.pos'],
                 ensures=['result == Bin(rbits(self), old(rpos(self)), nbits)', 'len(result) == nbits',
                          'rpos(self) == old(rpos(self)) + nbits'],
                 raises={'BitReadError': 'nbits < 0 or ' + read_fail % 'nbits'},
                 must_raise=[('BitReadError', 'nbits < 0 or ' + read_fail % 'nbits')],
                 note='a negative width (section declared shorter than its fixed part, D-8) is a BitReadError, not a ValueError',
                 serves=['C19', 'C04', 'C12']))
    add(Contract(M + 'BitStringBitReader.read_int', {'self': R, 'nbits': INT}, returns=INT,
                 modifies=['self.bit_stream.pos'],
                 ensures=['result == (-1 if U(rbits(self), old(rpos(self)), 1) == 1 else 1) * '
                          'U(rbits(self), old(rpos(self)) + 1, nbits - 1)',
                          'rpos(self) == old(rpos(self)) + nbits'],
                 raises={'BitReadError': 'nbits < 2 or ' + read_fail % 'nbits'},
                 must_raise=[('BitReadError', 'nbits < 2 or ' + read_fail % 'nbits')],
                 serves=['C19', 'C01']))
    add(Contract(M + 'BitReader.read_uint_or_none', {'self': R, 'nbits': INT}, returns=VAL,
                 requires=['1 <= nbits <= 64'],
                 modifies=['self.bit_stream.pos'],
                 ensures=['rpos(self) == old(rpos(self)) + nbits',
                          'is_none(result) == (nbits > 1 and U(rbits(self), old(rpos(self)), nbits) == pow2(nbits) - 1)',
                          'implies(not is_none(result), is_int(result) and ival(result) == U(rbits(self), old(rpos(self)), nbits))'],
                 raises={'BitReadError': read_fail % 'nbits'},
                 must_raise=[('BitReadError', read_fail % 'nbits')],
                 serves=['C19', 'C01']))
    add(Contract(M + 'BitReader.read', {'self': R, 'data_type': STR, 'nbits': INT}, returns=VAL,
                 requires=["data_type == 'uint' or data_type == 'bytes' or data_type == 'bool' or data_type == 'bin' "
                           "or data_type == 'int'"],
                 modifies=['self.bit_stream.pos'],
                 cases=[('uint', "data_type == 'uint'",
                         ['is_int(result) and ival(result) == U(rbits(self), old(rpos(self)), nbits)',
                          'rpos(self) == old(rpos(self)) + nbits']),
                        ('bytes', "data_type == 'bytes'",
                         ['is_byt(result) and bval(result) == Bst(rbits(self), old(rpos(self)), nbits // 8)',
                          'rpos(self) == old(rpos(self)) + 8 * (nbits // 8)']),
                        ('bool', "data_type == 'bool'",
                         ['rpos(self) == old(rpos(self)) + 1']),
                        ('bin', "data_type == 'bin'",
                         ['is_txt(result) and tval(result) == Bin(rbits(self), old(rpos(self)), nbits)',
                          'rpos(self) == old(rpos(self)) + nbits']),
                        ('int', "data_type == 'int'", ['rpos(self) == old(rpos(self)) + nbits'])],
                 ensures=['rpos(self) >= old(rpos(self))'],
                 raises={'BitReadError': None},
                 serves=['C19', 'C04']))
    # ------------------------------------------------------------------ writer
    add(Contract(M + 'BitStringBitWriter.__init__', {'self': W},
                 modifies=['self.bit_stream'],
                 ensures=['wlen(self) == 0', 'fresh(self.bit_stream)'], serves=['C19']))
    add(Contract(M + 'BitStringBitWriter.get_pos', {'self': W}, returns=INT,
                 ensures=['result == wlen(self)'], serves=['C19', 'C04'], pure=True))
    add(Contract(M + 'BitStringBitWriter.to_bytes', {'self': W}, returns=BYTES,
                 requires=['wlen(self) % 8 == 0'],
                 ensures=['result == Bst(wbits(self), 0, wlen(self) // 8)'], serves=['C19', 'C04'], pure=True))
    wmod = ['self.bit_stream.bits', 'self.bit_stream.len']
    add(Contract(M + 'BitStringBitWriter.skip', {'self': W, 'nbits': INT},
                 requires=['nbits >= 1'], modifies=wmod,
                 ensures=['wlen(self) == old(wlen(self)) + nbits',
                          'U(wbits(self), old(wlen(self)), nbits) == 0',
                          'prefix_same(wbits(self), old(wbits(self)), old(wlen(self)))'],
                 serves=['C19', 'C04']))
    unfit = 'value < 0 or value >= pow2(nbits)'
    add(Contract(M + 'BitStringBitWriter.write_uint', {'self': W, 'value': INT, 'nbits': INT}, returns=INT,
                 requires=['1 <= nbits <= 64'], modifies=wmod,
                 ensures=['result == value', 'wlen(self) == old(wlen(self)) + nbits',
                          'U(wbits(self), old(wlen(self)), nbits) == value',
                          'prefix_same(wbits(self), old(wbits(self)), old(wlen(self)))'],
                 raises={'ValueError': unfit}, must_raise=[('ValueError', unfit)],
                 exc_ensures={'ValueError': ['wlen(self) == old(wlen(self))']},
                 serves=['C19', 'C02', 'C03']))
    unfit_i = 'abs(value) >= pow2(nbits - 1)'
    add(Contract(M + 'BitStringBitWriter.write_int', {'self': W, 'value': INT, 'nbits': INT}, returns=INT,
                 requires=['2 <= nbits <= 64'], modifies=wmod,
                 ensures=['result == value', 'wlen(self) == old(wlen(self)) + nbits',
                          'U(wbits(self), old(wlen(self)), 1) == (1 if value < 0 else 0)',
                          'U(wbits(self), old(wlen(self)) + 1, nbits - 1) == abs(value)',
                          'prefix_same(wbits(self), old(wbits(self)), old(wlen(self)))'],
                 raises={'ValueError': unfit_i}, must_raise=[('ValueError', unfit_i)],
                 serves=['C19', 'C02']))
    add(Contract(M + 'BitStringBitWriter.write_bool', {'self': W, 'value': BOOL}, returns=BOOL,
                 modifies=wmod,
                 ensures=['result == value', 'wlen(self) == old(wlen(self)) + 1',
                          'U(wbits(self), old(wlen(self)), 1) == (1 if value else 0)',
                          'prefix_same(wbits(self), old(wbits(self)), old(wlen(self)))'],
                 serves=['C19']))
    add(Contract(M + 'BitStringBitWriter.write_bin', {'self': W, 'value': STR}, returns=STR,
                 requires=['is_binstr(value)'], modifies=wmod,
                 ensures=['result == value', 'wlen(self) == old(wlen(self)) + len(value)',
                          'Bin(wbits(self), old(wlen(self)), len(value)) == value',
                          "implies(allchar(value, '0'), U(wbits(self), old(wlen(self)), len(value)) == 0)",
                          'prefix_same(wbits(self), old(wbits(self)), old(wlen(self)))'],
                 serves=['C19', 'C04']))
    pad = ['len(result) == nbytes',
           'implies(len(value) >= nbytes, chars_eq(result, substr(value, 0, nbytes)))',
           'implies(len(value) < nbytes, str_prefixof(value, result) and '
           'allspaces(substr(result, len(value), nbytes - len(value))))',
           'wlen(self) == old(wlen(self)) + 8 * nbytes',
           'Bst(wbits(self), old(wlen(self)), nbytes) == result',
           'prefix_same(wbits(self), old(wbits(self)), old(wlen(self)))']
    add(Contract(M + 'BitStringBitWriter.write_bytes', {'self': W, 'value': BYTES, 'nbytes': INT}, returns=BYTES,
                 requires=['nbytes >= 0'], modifies=wmod, ensures=pad,
                 serves=['C19', 'C02']))
    add(Contract(M + 'BitStringBitWriter.write_bytes', {'self': W, 'value': STR, 'nbytes': INT}, returns=BYTES,
                 requires=['nbytes >= 0'], modifies=wmod, ensures=pad, variant='text',
                 note='text input is encoded as latin-1 (identity on code points < 256, L5)',
                 serves=['C19', 'C02']))
    add(Contract(M + 'BitStringBitWriter.set_uint', {'self': W, 'value': INT, 'nbits': INT, 'bitpos': INT},
                 requires=['1 <= nbits <= 64', '0 <= bitpos', 'bitpos + nbits <= wlen(self)'],
                 modifies=wmod,
                 ensures=['wlen(self) == old(wlen(self))',
                          'U(wbits(self), bitpos, nbits) == value',
                          'outside_same(wbits(self), old(wbits(self)), bitpos, bitpos + nbits)'],
                 # a value that does not fit the field is refused and the stream is left as it was
                 raises={'ValueError': 'value < 0 or value >= pow2(nbits)'}, must_raise=[('ValueError', 'value < 0 or value >= pow2(nbits)')],
                 exc_ensures={'ValueError': ['wlen(self) == old(wlen(self))']},
                 serves=['C19', 'C04'],
                 note='in-place overwrite changes exactly those bits, for every width (D-1)'))
    add(Contract(M + 'BitWriter.write', {'self': W, 'value': VAL, 'data_type': STR, 'nbits': INT}, returns=VAL,
                 requires=["data_type == 'uint' or data_type == 'bytes' or data_type == 'bool' or data_type == 'bin' "
                           "or data_type == 'int'",
                           "implies(data_type == 'uint', 1 <= nbits <= 64 and is_int(value))",
                           "implies(data_type == 'int', 2 <= nbits <= 64 and is_int(value))",
                           "implies(data_type == 'bytes', nbits >= 0 and (is_byt(value) or is_txt(value)))",
                           "implies(data_type == 'bool', is_bool(value))",
                           "implies(data_type == 'bin', is_txt(value) and is_binstr(tval(value)))"],
                 modifies=wmod,
                 # whatever the type: the stream only grows, what was written before stays (unconditional, so that callers need no case split)
                 ensures=['wlen(self) >= old(wlen(self))', 'prefix_same(wbits(self), old(wbits(self)), old(wlen(self)))'],
                 cases=[('uint', "data_type == 'uint'",
                         ['wlen(self) == old(wlen(self)) + nbits', 'U(wbits(self), old(wlen(self)), nbits) == ival(value)',
                          'prefix_same(wbits(self), old(wbits(self)), old(wlen(self)))']),
                        ('bytes', "data_type == 'bytes'",
                         ['wlen(self) == old(wlen(self)) + 8 * (nbits // 8)',
                          'prefix_same(wbits(self), old(wbits(self)), old(wlen(self)))']),
                        ('bool', "data_type == 'bool'",
                         ['wlen(self) == old(wlen(self)) + 1',
                          'U(wbits(self), old(wlen(self)), 1) == (1 if oval(value) else 0)',
                          'prefix_same(wbits(self), old(wbits(self)), old(wlen(self)))']),
                        ('bin', "data_type == 'bin'",
                         ['wlen(self) == old(wlen(self)) + len(tval(value))',
                          'Bin(wbits(self), old(wlen(self)), len(tval(value))) == tval(value)',
                          'prefix_same(wbits(self), old(wbits(self)), old(wlen(self)))']),
                        ('int', "data_type == 'int'", ['wlen(self) == old(wlen(self)) + nbits',
                                                       'prefix_same(wbits(self), old(wbits(self)), old(wlen(self)))'])],
                 raises={'ValueError': None},
                 serves=['C19', 'C04']))
