"""Contracts for pybufrkit/decoder.py: the decoding primitives against the FM-94 value rules (C01, C05) over the bit-stream model."""
from pyvc.ty import *
from pyvc.contract import Contract, Loop
from contracts.classes import DESC

M = 'pybufrkit.decoder.'
DEC = Ref('Decoder')
S = Ref('CoderState')
R = Ref('BitStringBitReader')

P0 = 'old(rpos(bit_reader))'
BITS = 'rbits(bit_reader)'
L0 = 'old(len(state.decoded_descriptors))'
V0 = 'old(len(state.decoded_values))'
ERRS = {'BitReadError': None, 'AssertionError': None}


def missing(n, raw):
    return '(%s > 1 and %s == pow2(%s) - 1)' % (n, raw, n)


def numeric_value(v, raw, ref='refval', sp='scale_powered'):
    """the decoded numeric value v of a present raw field: (raw + reference) / 10**scale, an int when the scale factor is 1"""
    return ('ite(Eq(%s, 1), is_int(%s) and ival(%s) == %s + %s, is_flt(%s) and Eq(fval(%s), fdiv(%s + %s, %s)))'
            % (sp, v, v, raw, ref, v, v, raw, ref, sp))


def appended_desc():
    return ['len(state.decoded_descriptors) == %s + 1' % L0, 'select(state.decoded_descriptors, %s) is descriptor' % L0,
            'list_eq_upto(state.decoded_descriptors, %s)' % L0]


def one_value():
    return ['len(state.decoded_values) == %s + 1' % V0, 'list_eq_upto(state.decoded_values, %s)' % V0]


UNCOMP_REQ = ['state.decoded_descriptors != None', 'state.decoded_values != None', 'bit_reader != None']
UNCOMP_MOD = ['list(state.decoded_descriptors)', 'list(state.decoded_values)', 'bit_reader.bit_stream.pos']
LAST = 'select(state.decoded_values, %s)' % V0


def register(reg):
    add = reg.add
    RAW = 'U(%s, %s, nbits)' % (BITS, P0)
    add(Contract(M + 'Decoder.process_numeric_uncompressed',
                 {'self': DEC, 'state': S, 'bit_reader': R, 'descriptor': DESC, 'nbits': INT, 'scale_powered': FLOAT, 'refval': INT},
                 requires=UNCOMP_REQ + ['1 <= nbits <= 64'], modifies=UNCOMP_MOD,
                 ensures=appended_desc() + one_value() + [
                     'rpos(bit_reader) == %s + nbits' % P0,
                     'is_none(%s) == %s' % (LAST, missing('nbits', RAW)),
                     'implies(not %s, %s)' % (missing('nbits', RAW), numeric_value(LAST, RAW)),
                     'unchanged(state)'],
                 raises=ERRS, serves=['C01', 'C03'],
                 note='value = (raw + reference) / 10**scale; all ones (width > 1) is missing'))
    add(Contract(M + 'Decoder.process_codeflag_uncompressed',
                 {'self': DEC, 'state': S, 'bit_reader': R, 'descriptor': DESC, 'nbits': INT},
                 requires=UNCOMP_REQ + ['1 <= nbits <= 64'], modifies=UNCOMP_MOD,
                 ensures=appended_desc() + one_value() + [
                     'rpos(bit_reader) == %s + nbits' % P0,
                     'is_none(%s) == %s' % (LAST, missing('nbits', RAW)),
                     'implies(not %s, is_int(%s) and ival(%s) == %s)' % (missing('nbits', RAW), LAST, LAST, RAW),
                     'unchanged(state)'],
                 raises=ERRS, serves=['C01'], note='code / flag / associated / skipped fields are unsigned integers; all ones (width > 1) is missing'))
    add(Contract(M + 'Decoder.process_string_uncompressed',
                 {'self': DEC, 'state': S, 'bit_reader': R, 'descriptor': DESC, 'nbytes': INT},
                 requires=UNCOMP_REQ + ['nbytes >= 0'], modifies=UNCOMP_MOD,
                 ensures=appended_desc() + one_value() + [
                     'rpos(bit_reader) == %s + 8 * nbytes' % P0,
                     'is_byt(%s) and bval(%s) == Bst(%s, %s, nbytes)' % (LAST, LAST, BITS, P0), 'unchanged(state)'],
                 raises=ERRS, serves=['C01'], note='character fields are returned as their bytes'))
    add(Contract(M + 'Decoder.process_new_refval_uncompressed',
                 {'self': DEC, 'state': S, 'bit_reader': R, 'descriptor': DESC, 'nbits': INT},
                 requires=UNCOMP_REQ + ['2 <= nbits <= 64', 'state.new_refvals != None'], modifies=UNCOMP_MOD + ['dict(state.new_refvals)'],
                 ensures=appended_desc() + one_value() + [
                     'rpos(bit_reader) == %s + nbits' % P0,
                     'is_int(%s) and ival(%s) == ite(U(%s, %s, 1) == 1, -1, 1) * U(%s, %s + 1, nbits - 1)' % (LAST, LAST, BITS, P0, BITS, P0),
                     'haskey(state.new_refvals, descriptor.id) and val_eq(dval(state.new_refvals, descriptor.id), %s)' % LAST,
                     'unchanged(state)'],
                 raises=ERRS, serves=['C01'], note='new reference values are sign-magnitude integers of YYY bits'))
    add(Contract(M + 'Decoder.process_constant_uncompressed',
                 {'self': DEC, 'state': S, 'bit_reader': R, 'descriptor': DESC, 'value': INT},
                 requires=UNCOMP_REQ, modifies=UNCOMP_MOD,
                 ensures=appended_desc() + one_value() + ['rpos(bit_reader) == %s' % P0, 'is_int(%s) and ival(%s) == value' % (LAST, LAST),
                                                          'unchanged(state)'],
                 raises={}, serves=['C01'], note='operator slots carry their constant and read no bits'))

    # ------------------------------------------------------------------------------------------------------------
    # compressed columns (C01, C05): minimum, 6-bit difference width, one difference per subset
    ALL = 'state.decoded_values_all_subsets'
    N = 'len(%s)' % ALL

    def lst(j):
        return 'select(%s, %s)' % (ALL, j)

    def olen(j):
        return 'old(len(%s))' % lst(j)

    def newval(j):
        return 'select(%s, %s)' % (lst(j), olen(j))
    COMP_REQ = ['state.decoded_descriptors != None', 'bit_reader != None', '%s != None' % ALL, '%s >= 1' % N,
                # the value lists of the subsets are pairwise distinct objects (CoderState.__init__), none is the descriptor list
                'forall(i, 0, %s, forall(j, 0, %s, implies(i != j, %s is not %s)))' % (N, N, lst('i'), lst('j'))]
    COMP_MOD = ['list(state.decoded_descriptors)', 'lists(%s)' % ALL, 'bit_reader.bit_stream.pos']

    def col_invariants(k, rule):
        """loop invariants of `for decoded_values in all_subsets: ... decoded_values.append(v)`; rule(j) = what the appended value is"""
        return ['forall(j, 0, %s, len(%s) == %s + 1)' % (k, lst('j'), olen('j')),
                'forall(j, %s, %s, len(%s) == %s)' % (k, N, lst('j'), olen('j')),
                'forall(j, 0, %s, forall(m, 0, %s, select(%s, m) == old(select(%s, m))))' % (N, olen('j'), lst('j'), lst('j')),
                'forall(j, 0, %s, %s)' % (k, rule('j')),
                '%s is old(%s)' % (ALL, ALL), 'len(%s) == old(len(%s))' % (ALL, ALL),
                'forall(j, 0, %s, %s is old(%s))' % (N, lst('j'), lst('j'))]

    def col_post(rule):
        return ['forall(j, 0, %s, len(%s) == %s + 1)' % (N, lst('j'), olen('j')),
                'forall(j, 0, %s, forall(m, 0, %s, select(%s, m) == old(select(%s, m))))' % (N, olen('j'), lst('j'), lst('j')),
                'forall(j, 0, %s, %s)' % (N, rule('j'))]

    MN = 'U(%s, %s, nbits_min_value)' % (BITS, P0)
    W = 'U(%s, %s + nbits_min_value, 6)' % (BITS, P0)
    P1 = '(%s + nbits_min_value + 6)' % P0
    MN_MISSING = missing('nbits_min_value', MN)

    def inc(j):
        return 'U(%s, %s + (%s) * %s, %s)' % (BITS, P1, j, W, W)

    def rule_codeflag(j):
        v = newval(j)
        present = 'is_int(%s) and ival(%s) == %s + %s' % (v, v, MN, inc(j))
        return ('ite(%s or (%s == 0 and False), is_none(%s), ite(%s == 0, is_int(%s) and ival(%s) == %s, '
                'ite(%s == pow2(%s) - 1 or (descriptor.nbits > 1 and %s + %s == pow2(descriptor.nbits) - 1), is_none(%s), %s)))'
                % (MN_MISSING, W, v, W, v, v, MN, inc(j), W, MN, inc(j), v, present))
    add(Contract(M + 'Decoder.process_codeflag_compressed',
                 {'self': DEC, 'state': S, 'bit_reader': R, 'descriptor': Ref('ElementDescriptor'), 'nbits_min_value': INT},
                 requires=COMP_REQ + ['1 <= nbits_min_value <= 64', 'descriptor != None', '0 <= descriptor.nbits <= 64'], modifies=COMP_MOD,
                 locals={'value': VAL, 'diff': VAL, 'min_value': VAL},
                 loops={0: Loop(invariants=col_invariants('_i0', lambda j: 'val_eq(%s, min_value)' % newval(j)) +
                                ['rpos(bit_reader) == %s' % P1],
                                modifies=['lists(%s)' % ALL], locals={'decoded_values': ListT(VAL)}),
                        1: Loop(invariants=col_invariants('_i1', rule_codeflag) + ['rpos(bit_reader) == %s + _i1 * nbits_diff' % P1],
                                modifies=['lists(%s)' % ALL, 'bit_reader.bit_stream.pos'],
                                locals={'decoded_values': ListT(VAL), 'diff': VAL, 'value': VAL})},
                 ensures=appended_desc() + col_post(rule_codeflag) +
                         ['rpos(bit_reader) == %s + ite(%s or %s == 0, 0, %s * %s)' % (P1, MN_MISSING, W, N, W), 'unchanged(state)'],
                 raises=ERRS, serves=['C01', 'C05'],
                 note='element i: missing if the minimum is missing; the minimum if the width is 0; missing if its difference is all ones '
                      '(this covers the 1-bit rule); else minimum + difference (all ones of the field width is missing)'))

    def rule_numeric(j):
        v = newval(j)
        return ('ite(%s, is_none(%s), ite(%s == 0, %s, ite(%s == pow2(%s) - 1, is_none(%s), %s)))'
                % (MN_MISSING, v, W, numeric_value(v, MN), inc(j), W, v, numeric_value(v, '(%s + %s)' % (MN, inc(j)))))
    add(Contract(M + 'Decoder.process_numeric_compressed',
                 {'self': DEC, 'state': S, 'bit_reader': R, 'descriptor': DESC, 'nbits_min_value': INT, 'scale_powered': FLOAT, 'refval': INT},
                 requires=COMP_REQ + ['1 <= nbits_min_value <= 64'], modifies=COMP_MOD,
                 locals={'value': VAL, 'diff': VAL, 'min_value': VAL},
                 loops={0: Loop(invariants=col_invariants('_i0', lambda j: 'is_none(%s)' % newval(j)) + ['rpos(bit_reader) == %s' % P1],
                                modifies=['lists(%s)' % ALL], locals={'decoded_values': ListT(VAL)}),
                        1: Loop(invariants=col_invariants('_i1', lambda j: 'val_eq(%s, value)' % newval(j)) + ['rpos(bit_reader) == %s' % P1],
                                modifies=['lists(%s)' % ALL], locals={'decoded_values': ListT(VAL)}),
                        2: Loop(invariants=col_invariants('_i2', rule_numeric) + ['rpos(bit_reader) == %s + _i2 * nbits_diff' % P1],
                                modifies=['lists(%s)' % ALL, 'bit_reader.bit_stream.pos'],
                                locals={'decoded_values': ListT(VAL), 'diff': VAL, 'value': VAL})},
                 ensures=appended_desc() + col_post(rule_numeric) +
                         ['rpos(bit_reader) == %s + ite(%s or %s == 0, 0, %s * %s)' % (P1, MN_MISSING, W, N, W), 'unchanged(state)'],
                 raises=ERRS, serves=['C01', 'C05'],
                 note='numeric column: missing minimum -> all missing; width 0 -> all equal the minimum; all-ones difference -> missing '
                      '(incl. 1-bit differences of value 1); else (minimum + difference + reference) / 10**scale'))

    ZERO = 'Eq(Bst(%s, %s, nbytes_min_value), b"\\0" * nbytes_min_value)' % (BITS, P0)        # the base field is all zero bits
    BASE = 'ite(%s, b"", Bst(%s, %s, nbytes_min_value))' % (ZERO, BITS, P0)

    def rule_string_with(base):
        def rule(j):
            v = newval(j)
            p1s = '(%s + 8 * nbytes_min_value + 6)' % P0
            ws = 'U(%s, %s + 8 * nbytes_min_value, 6)' % (BITS, P0)
            return ('is_byt(%s) and ite(%s == 0, chars_eq(bval(%s), %s), chars_eq(bval(%s), %s + Bst(%s, %s + (%s) * 8 * %s, %s)))'
                    % (v, ws, v, base, v, base, BITS, p1s, j, ws, ws))
        return rule
    rule_string = rule_string_with(BASE)
    rule_string_local = rule_string_with('min_value')      # inside the loops: in terms of the local, tied to the spec by one ground fact
    WS = 'U(%s, %s + 8 * nbytes_min_value, 6)' % (BITS, P0)
    P1S = '(%s + 8 * nbytes_min_value + 6)' % P0
    add(Contract(M + 'Decoder.process_string_compressed',
                 {'self': DEC, 'state': S, 'bit_reader': R, 'descriptor': DESC, 'nbytes_min_value': INT},
                 requires=COMP_REQ + ['0 <= nbytes_min_value'], modifies=COMP_MOD,
                 locals={'min_value': BYTES, 'diff_value': BYTES},
                 loops={0: Loop(invariants=['chars_eq(min_value, %s)' % BASE] +
                                col_invariants('_i0', lambda j: 'is_byt(%s) and chars_eq(bval(%s), min_value)' % (newval(j), newval(j))) +
                                ['rpos(bit_reader) == %s' % P1S],
                                modifies=['lists(%s)' % ALL], locals={'decoded_values': ListT(VAL)}),
                        1: Loop(invariants=['chars_eq(min_value, %s)' % BASE] + col_invariants('_i1', rule_string_local) +
                                ['rpos(bit_reader) == %s + _i1 * 8 * nbits_diff' % P1S, 'nbits_diff == %s' % WS],
                                modifies=['lists(%s)' % ALL, 'bit_reader.bit_stream.pos'],
                                locals={'decoded_values': ListT(VAL), 'diff_value': BYTES})},
                 ensures=appended_desc() + col_post(rule_string) +
                         ['rpos(bit_reader) == %s + %s * 8 * %s' % (P1S, N, WS), 'unchanged(state)'],
                 raises=ERRS, serves=['C01', 'C05'],
                 note='string column: width 0 -> every subset carries the base field as it is (an all-ones base stays all ones = missing); '
                      'else an all-zero base is dropped and every subset carries its own full-width increment'))

    # ------------------------------------------------------------------------------------------------------------
    # the per-message driver (C01, C05, C06): one walk for compressed data, one walk per subset -- each from the initial
    # register state and on that subset's own containers -- for uncompressed data
    DALL, VALL, LALL = 'state.decoded_descriptors_all_subsets', 'state.decoded_values_all_subsets', 'state.bitmap_links_all_subsets'
    WALK_REQ = ['state != None', 'registers_initial(state)', 'state.idx_value == 0',
                '0 <= state.idx_subset', 'state.idx_subset < len(%s)' % DALL,
                'state.decoded_descriptors is select(%s, state.idx_subset)' % DALL,
                'state.decoded_values is select(%s, state.idx_subset)' % VALL,
                'state.bitmap_links is select(%s, state.idx_subset)' % LALL]
    WALK_MOD = ['state.*', 'elems_of(%s)' % DALL, 'elems_of(%s)' % VALL, 'elems_of(%s)' % LALL]
    # a walk moves the bit operator only forwards: a reader's position advances over an unchanged stream, a writer's stream grows by
    # appending (every primitive under contract does exactly one of the two)
    STREAM_MOD = ['bit_operator.bit_stream.pos', 'bit_operator.bit_stream.bits', 'bit_operator.bit_stream.len']
    STREAM_ENS = ['bit_operator.bit_stream.pos >= old(bit_operator.bit_stream.pos)', 'bit_operator.bit_stream.len >= old(bit_operator.bit_stream.len)',
                  'prefix_same(bit_operator.bit_stream.bits, old(bit_operator.bit_stream.bits), old(bit_operator.bit_stream.len))']
    WALK_ENS = ['gh(state, "walks") == old(gh(state, "walks")) + 1',
                '%s is old(%s)' % (DALL, DALL), '%s is old(%s)' % (VALL, VALL), '%s is old(%s)' % (LALL, LALL),
                'same_list(%s)' % DALL, 'same_list(%s)' % VALL, 'same_list(%s)' % LALL,
                'state.is_compressed == old(state.is_compressed)', 'state.n_subsets == old(state.n_subsets)',
                'state.idx_subset == old(state.idx_subset)']
    WALK_ERR = {'PyBufrKitError': None, 'AssertionError': None, 'NotImplementedError': None, 'ValueError': None, 'StopIteration': None,
                'IndexError': None, 'TypeError': None, 'KeyError': None, 'AttributeError': None}
    add(Contract('pybufrkit.coder.Coder.process_template', {'self': Ref('Coder'), 'state': S, 'bit_operator': Ref('BitOperator'), 'template': Ref('BufrTemplate')},
                 trusted=True, requires=WALK_REQ + ['bit_operator != None'], modifies=WALK_MOD + STREAM_MOD, ensures=WALK_ENS + STREAM_ENS, raises=WALK_ERR, serves=['C01', 'C02', 'C06'],
                 note='interface of one template walk: must start from the initial registers on the containers of the current subset'))
    add(Contract('pybufrkit.templatecompiler.process_compiled_template',
                 {'coder': Ref('Coder'), 'state': S, 'bit_operator': Ref('BitOperator'), 'compiled_template': Ref('CompiledTemplate')},
                 trusted=True, requires=WALK_REQ + ['bit_operator != None'], modifies=WALK_MOD + STREAM_MOD, ensures=WALK_ENS + STREAM_ENS, raises=WALK_ERR, serves=['C01', 'C02', 'C06', 'C08'],
                 note='interface of one walk of a compiled template (same obligations as the direct walk)'))
    add(Contract('pybufrkit.bufr.BufrMessage.build_template', {'self': Ref('BufrMessage'), 'tables_root_dir': STR, 'normalize': INT},
                 returns=TupleT(Ref('BufrTemplate'), Ref('BufrTableGroup')), trusted=True,
                 modifies=['self.table_group_key'], ensures=['result[0] != None', 'result[1] != None'],
                 raises={'PyBufrKitError': None, 'IOError': None, 'OSError': None, 'KeyError': None, 'ValueError': None},
                 serves=['C01', 'C02', 'C06'], note='template construction is C14; here only: a template and its table group are returned'))
    add(Contract('pybufrkit.templatecompiler.CompiledTemplateManager.get_or_compile',
                 {'self': Ref('CompiledTemplateManager'), 'template': Ref('BufrTemplate'), 'table_group': Ref('BufrTableGroup')},
                 returns=Ref('CompiledTemplate'), trusted=True, ensures=['result != None'], raises=WALK_ERR, serves=['C01', 'C02', 'C06', 'C08']))
    add(Contract('pybufrkit.templatedata.TemplateData.__init__',
                 {'self': Ref('TemplateData'), 'template': Ref('BufrTemplate'), 'is_compressed': BOOL,
                  'decoded_descriptors_all_subsets': ListT(ListT(DESC)), 'decoded_values_all_subsets': ListT(ListT(VAL)),
                  'bitmap_links_all_subsets': ListT(DictT(INT, INT))},
                 trusted=True, modifies=['self.*'],
                 ensures=['self.template is template', 'self.is_compressed == is_compressed',
                          'self.decoded_descriptors_all_subsets is decoded_descriptors_all_subsets',
                          'self.decoded_values_all_subsets is decoded_values_all_subsets',
                          'self.bitmap_links_all_subsets is bitmap_links_all_subsets'],
                 serves=['C01', 'C02', 'C06']))
    MSG_C = 'oval(bufr_message._is_compressed.value)'
    MSG_N = 'ival(bufr_message._n_subsets.value)'
    add(Contract(M + 'Decoder.process_template_data', {'self': DEC, 'bufr_message': Ref('BufrMessage'), 'bit_reader': R},
                 returns=Ref('TemplateData'),
                 requires=['bufr_message != None', 'bufr_message._is_compressed != None', 'bufr_message._n_subsets != None',
                           'is_bool(bufr_message._is_compressed.value)', 'is_int(bufr_message._n_subsets.value)', '%s >= 1' % MSG_N],
                 modifies=['bufr_message.table_group_key', 'ghost(bufr_message, "td_entered")',
                           'bit_reader.bit_stream.pos', 'bit_reader.bit_stream.bits', 'bit_reader.bit_stream.len'], counts=[('bufr_message', 'td_entered')],
                 loops={0: Loop(invariants=['state != None', 'state is entry(state)', 'gh(state, "walks") == entry(gh(state, "walks")) + _i0',
                                            'not state.is_compressed', 'state.n_subsets == %s' % MSG_N,
                                            'len(%s) == %s' % (DALL, MSG_N), 'len(%s) == %s' % (VALL, MSG_N), 'len(%s) == %s' % (LALL, MSG_N),
                                            '%s is entry(%s)' % (DALL, DALL), '%s is entry(%s)' % (VALL, VALL), '%s is entry(%s)' % (LALL, LALL),
                                            'rpos(bit_reader) >= entry(rpos(bit_reader))'],
                                modifies=WALK_MOD + ['bit_reader.bit_stream.pos', 'bit_reader.bit_stream.bits', 'bit_reader.bit_stream.len'])},
                 ensures=['gh(bufr_message, "td_entered") == old(gh(bufr_message, "td_entered")) + 1',
                          # the walk only moves the reader forwards
                          'rpos(bit_reader) >= old(rpos(bit_reader))',
                          'result != None', 'fresh(result)', 'result.is_compressed == %s' % MSG_C,
                          'len(result.decoded_descriptors_all_subsets) == %s' % MSG_N, 'len(result.decoded_values_all_subsets) == %s' % MSG_N],
                 raises=dict(WALK_ERR, IOError=None, OSError=None), serves=['C01', 'C05', 'C06'],
                 note='the coder state is created with the message\'s own compression flag and subset count; compressed: ONE walk; '
                      'uncompressed: per subset a context switch (fresh registers) and one walk'))
    # C07: the bitmap is the list of the last n_031031 decoded values (of subset 0 when compressed: all subsets carry the same bitmap)
    from contracts.coder import define_bitmap_requires, define_bitmap_modifies, define_bitmap_ensures
    VL = 'ite(state.is_compressed, select(state.decoded_values_all_subsets, 0), state.decoded_values)'
    NB = 'old(state.n_031031)'
    # Python: l[-n:] is the whole list for n == 0 or n > len, the last n entries for 0 < n <= len (and l[|n|:] for a negative n)
    COUNT = 'ite(%s == 0 or %s > len(%s), len(%s), ite(%s > 0, %s, max(0, len(%s) + %s)))' % (NB, NB, VL, VL, NB, NB, VL, NB)
    add(Contract(M + 'Decoder.define_bitmap', {'self': DEC, 'state': S, 'reuse': BOOL}, returns=ListT(VAL),
                 requires=define_bitmap_requires() + ['select(state.decoded_values_all_subsets, 0) != None'],
                 modifies=define_bitmap_modifies(), allocates=['state.next_bitmapped_descriptor.lst', 'state.next_bitmapped_descriptor.pos'],
                 ensures=define_bitmap_ensures((VL, 'len(%s) - len(result)' % VL, COUNT)),
                 raises={'PyBufrKitError': None}, serves=['C07'],
                 note='decoder: bitmap = the last n_031031 values decoded; kept in state.bitmap iff it is defined for reuse'))
    register_sections(reg)
    register_process(reg)


def register_sections(reg):
    """Decoder.process_section / process_unexpanded_descriptors / process (C04, C12, C17, C11)"""
    from contracts.bufr import layout
    add = reg.add
    SEC = Ref('BufrSection')
    MSG = Ref('BufrMessage')
    PS = 'section._params'
    P0 = 'old(rpos(bit_reader))'
    HAS_LEN = '(len(%s) >= 1 and select(%s, 0).name == "section_length")' % (PS, PS)
    SLEN = 'ival(select(%s, 0).value)' % PS
    HAS_TD = 'exists(q, 0, len(%s), select(%s, q).type == "template_data")' % (PS, PS)

    add(Contract(M + 'Decoder.process_unexpanded_descriptors', {'self': DEC, 'bit_reader': R, 'section': SEC}, returns=ListT(INT),
                 requires=layout() + ['bit_reader != None', HAS_LEN, 'is_int(select(%s, 0).value)' % PS],
                 modifies=['bit_reader.bit_stream.pos'],
                 locals={'unexpanded_descriptors': ListT(INT)},
                 loops={0: Loop(invariants=['unexpanded_descriptors != None', 'fresh(unexpanded_descriptors)', 'len(unexpanded_descriptors) == _i0',
                                            'rpos(bit_reader) == %s + 16 * _i0' % P0,
                                            'forall(k, 0, _i0, select(unexpanded_descriptors, k) == U(rbits(bit_reader), %s + 16 * k, 2) * 100000 + '
                                            'U(rbits(bit_reader), %s + 16 * k + 2, 6) * 1000 + U(rbits(bit_reader), %s + 16 * k + 8, 8))' % (P0, P0, P0)],
                                modifies=['list(unexpanded_descriptors)', 'bit_reader.bit_stream.pos'])},
                 ensures=['result != None', 'fresh(result)',
                          # as many descriptors as fit in the rest of the declared section: (length - octets read) // 2, each F:2 X:6 Y:8
                          'len(result) == max(0, (%s - (%s - section.bitpos_start) // 8) // 2)' % (SLEN, P0),
                          'rpos(bit_reader) == %s + 16 * len(result)' % P0,
                          'forall(k, 0, len(result), select(result, k) == U(rbits(bit_reader), %s + 16 * k, 2) * 100000 + '
                          'U(rbits(bit_reader), %s + 16 * k + 2, 6) * 1000 + U(rbits(bit_reader), %s + 16 * k + 8, 8))' % (P0, P0, P0)],
                 raises={'BitReadError': None}, serves=['C04', 'C12', 'C01'],
                 note='the descriptor list fills the declared section: 16 bits each, F X Y as 2 + 6 + 8 bits'))

    # what may escape: the library error; anything else only out of the template walk (C01 / C12 cover the walk itself)
    WALK_ONLY = {k: HAS_TD for k in ('AssertionError', 'NotImplementedError', 'ValueError', 'StopIteration', 'IndexError', 'TypeError',
                                     'KeyError', 'AttributeError', 'IOError', 'OSError')}

    def par(q):
        return 'select(%s, %s)' % (PS, q)
    TD_READY = ('bufr_message._is_compressed != None and bufr_message._n_subsets != None and '
                'is_bool(bufr_message._is_compressed.value) and is_int(bufr_message._n_subsets.value) and '
                'ival(bufr_message._n_subsets.value) >= 1')
    add(Contract(M + 'Decoder.process_section', {'self': DEC, 'bufr_message': MSG, 'bit_reader': R, 'section': SEC}, returns=INT,
                 requires=layout() + ['bufr_message != None', 'bit_reader != None',
                                      # the data section needs the subset count and compression flag decoded from section 3 (layout of the
                                      # definition files: section 3 precedes the data section and carries both as message properties; an
                                      # empty message (no subset) is refused by the coder state)
                                      '@input implies(%s, %s)' % (HAS_TD, TD_READY),
                                      # ... which are parameters of an earlier section, and no parameter of the data section shadows them
                                      '@input implies(%s, forall(q, 0, len(%s), %s.name != "is_compressed" and %s.name != "n_subsets" and '
                                      '%s is not bufr_message._is_compressed and %s is not bufr_message._n_subsets))'
                                      % (HAS_TD, PS, par('q'), par('q'), par('q'), par('q'))],
                 modifies=['section.bitpos_start', 'fields_of(section._params, "value")', 'bufr_message.*', 'bit_reader.bit_stream.pos',
                           'bit_reader.bit_stream.bits', 'bit_reader.bit_stream.len'],
                 loops={0: Loop(invariants=['section.bitpos_start == %s' % P0, 'rpos(bit_reader) >= %s' % P0,
                                            'bufr_message.sections is old(bufr_message.sections)',
                                            'implies(%s, %s)' % (HAS_TD, TD_READY),
                                            'implies(%s, bufr_message._is_compressed is old(bufr_message._is_compressed) and '
                                            'bufr_message._n_subsets is old(bufr_message._n_subsets))' % HAS_TD,
                                            # every value decoded so far has the Python type of its parameter type and meets its expectation
                                            'forall(q, 0, _i0, implies(%s.type == "uint", is_int(%s.value)))' % (par('q'), par('q')),
                                            'forall(q, 0, _i0, is_none(%s.expected) or Eq(%s.value, %s.expected))' % (par('q'), par('q'), par('q')),
                                            'gh(bufr_message, "td_entered") == entry(gh(bufr_message, "td_entered")) + '
                                            'ite(exists(q, 0, _i0, %s.type == "template_data"), 1, 0)' % par('q')],
                                modifies=['fields_of(section._params, "value")', 'bufr_message.*', 'bit_reader.bit_stream.pos',
                                          'bit_reader.bit_stream.bits', 'bit_reader.bit_stream.len'],
                                locals={'parameter': Ref('SectionParameter')})},
                 ensures=['result == rpos(bit_reader) - %s' % P0, 'result >= 0', 'section.bitpos_start == %s' % P0,
                          'bufr_message.sections is old(bufr_message.sections)',
                          # the declared length is honoured: surplus octets are skipped, an overrun is refused (raises)
                          'implies(%s, result == 8 * %s)' % (HAS_LEN, SLEN),
                          # no parameter with an expected value is accepted with another value (D-7: refused with the library error)
                          'forall(q, 0, len(%s), is_none(%s.expected) or Eq(%s.value, %s.expected))' % (PS, par('q'), par('q'), par('q')),
                          'forall(q, 0, len(%s), implies(%s.type == "uint", is_int(%s.value)))' % (PS, par('q'), par('q')),
                          # the template data is entered iff the section has a parameter of that type (C17: metadata-only decoding)
                          'gh(bufr_message, "td_entered") == old(gh(bufr_message, "td_entered")) + ite(%s, 1, 0)' % HAS_TD],
                 raises=dict(WALK_ONLY, PyBufrKitError=None), serves=['C04', 'C12', 'C17'],
                 note='on return exactly the declared number of octets has been consumed; a value differing from its expectation or a section '
                      'declared shorter than its content is refused with PyBufrKitError; no other exception class escapes from a section '
                      'without template data'))


def register_process(reg):
    """Decoder.process (C04, C11, C12, C17): the section loop against the interface of SectionConfigurer.configure_section"""
    from contracts.bufr import layout
    add = reg.add
    MSG = Ref('BufrMessage')
    SECS = 'bufr_message.sections'
    HAS_TD_R = 'exists(q, 0, len(result._params), select(result._params, q).type == "template_data")'
    INFO = 'has_transformer(configuration_transformers, "info_configuration")'
    # ---- assumed interface of the section configuration (bufr.py reads the JSON definition files; the facts about the layouts are
    # the ground obligations `definitions#layout`) ------------------------------------------------------------------------------
    add(Contract('pybufrkit.bufr.SectionConfigurer.configure_section',
                 {'self': Ref('SectionConfigurer'), 'bufr_message': MSG, 'section_index': INT, 'configuration_transformers': ANYFUNC},
                 returns=Ref('BufrSection'), trusted=True, nullable=[],
                 requires=['bufr_message != None'], modifies=['list(%s)' % SECS],
                 allocates=['result._params', 'result.end_of_message', 'result.optional', 'result.index', 'list(result._params)'],
                 ensures=['implies(result != None, %s)' % ' and '.join('(%s)' % x for x in layout('result')),
                          'implies(result != None, fresh(result) and fresh(result._params) and forall(q, 0, len(result._params), fresh(select(result._params, q))))',
                          'implies(result != None, len(%s) == old(len(%s)) + 1 and select(%s, old(len(%s))) is result)' % (SECS, SECS, SECS, SECS),
                          'implies(result == None, len(%s) == old(len(%s)))' % (SECS, SECS),
                          'list_eq_upto(%s, old(len(%s)))' % (SECS, SECS),
                          # metadata-only configuration: the parameter list stops before the template data
                          'implies(result != None and %s, not %s)' % (INFO, HAS_TD_R)],
                 raises={'KeyError': None, 'AttributeError': None, 'AssertionError': None}, serves=['C04', 'C17', 'C11', 'C12'],
                 note='interface contract (assumed): a configured section satisfies the layout facts of the definition files, is appended to the '
                      'message, and -- with the info_configuration transformer -- has no template-data parameter'))
    add(Contract('pybufrkit.bufr.BufrMessage.wire', {'self': MSG}, trusted=True, modifies=[],
                 raises={k: None for k in ('PyBufrKitError', 'AssertionError', 'NotImplementedError', 'ValueError', 'StopIteration', 'IndexError',
                                           'TypeError', 'KeyError', 'AttributeError')},
                 serves=['C04', 'C17'], note='interface contract (assumed): wiring builds the hierarchical view inside the TemplateData object (C09) and '
                                             'touches nothing the section contracts speak about'))
    IDX = 'str_indexof(s, start_signature, 0)'
    ERRS = {k: None for k in ('PyBufrKitError', 'AssertionError', 'NotImplementedError', 'ValueError', 'StopIteration', 'IndexError', 'TypeError',
                              'KeyError', 'AttributeError', 'IOError', 'OSError')}
    add(Contract(M + 'Decoder.process',
                 {'self': DEC, 's': BYTES, 'file_path': STR, 'start_signature': BYTES, 'info_only': BOOL, 'ignore_value_expectation': BOOL,
                  'wire_template_data': BOOL}, returns=MSG, assume_input=True,
                 requires=['self != None'], modifies=[],
                 loops={0: Loop(invariants=['bufr_message != None', 'bit_reader != None', 'bufr_message is entry(bufr_message)', 'bit_reader is entry(bit_reader)',
                                            'bit_reader.bit_stream is entry(bit_reader.bit_stream)',
                                            '%s != None' % SECS, '%s is entry(%s)' % (SECS, SECS),
                                            'nbits_decoded == rpos(bit_reader)', 'nbits_decoded >= 0',
                                            'implies(info_only, gh(bufr_message, "td_entered") == 0)',
                                            'gh(bufr_message, "td_entered") >= 0'],
                                modifies=['bufr_message.*', 'list(%s)' % SECS, 'bit_reader.bit_stream.pos', 'bit_reader.bit_stream.bits', 'bit_reader.bit_stream.len',
                                          'ghost(bufr_message, "td_entered")'],
                                locals={'section': Ref('BufrSection')})},
                 ensures=['result != None', 'fresh(result)', 'has_exit(0)',
                          # the message's bytes: exactly the span from the start signature over the bits the sections consumed
                          'is_byt(result.serialized_bytes)',
                          'bval(result.serialized_bytes) == substr(substr(s, %s, len(s) - %s), 0, at_exit(0, rpos(bit_reader)) // 8)' % (IDX, IDX),
                          # metadata only: the template data is never entered
                          'implies(info_only, gh(result, "td_entered") == 0)'],
                 raises=dict(ERRS), must_raise=[('PyBufrKitError', '%s < 0' % IDX)],
                 serves=['C04', 'C11', 'C12', 'C17'],
                 note='decoding starts at the first start signature (none: PyBufrKitError), walks the configured sections until the one flagged '
                      'end_of_message, and reports as the message bytes exactly the span the sections consumed; metadata-only decoding never enters '
                      'the template data'))
