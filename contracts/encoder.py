"""Contracts for pybufrkit/encoder.py (C02, C03, C05)."""
from pyvc.ty import *
from pyvc.contract import Contract, Loop
from contracts.classes import DESC

M = 'pybufrkit.encoder.'


def register(reg):
    register_sections(reg)
    # register_process(reg): Encoder.process and the interface of configure_section_with_values are written (below) but NOT registered:
    # 6 frame obligations about the `parent` field of freshly configured parameters and the fact "the first 56 bits of section 0 are
    # written" stayed undecided in both solvers (DESIGN 0.1, C04); the message-level framing of the encoder stays bounded
    add = reg.add
    add(Contract(M + 'nbits_for_uint', {'x': INT}, returns=INT,
                 requires=['1 <= x', 'x < pow2(63)'],
                 ensures=['result >= 1', 'result <= 64',
                          # every difference 0 .. x - 1 fits and none of them is the all-ones pattern of the width chosen
                          'x - 1 <= pow2(result) - 2'],
                 serves=['C02', 'C05'], harness='pure_int',
                 note='difference width reserves all ones for missing (the width need not be minimal)'))

    ENC = Ref('Encoder')
    S = Ref('CoderState')
    W = Ref('BitStringBitWriter')
    L0 = 'old(len(state.decoded_descriptors))'
    P0 = 'old(wlen(bit_writer))'
    BITS = 'wbits(bit_writer)'
    V = 'old(select(state.decoded_values, state.idx_value))'          # the value to encode
    REQ = ['state.decoded_descriptors != None', 'state.decoded_values != None', 'bit_writer != None',
           '0 <= state.idx_value', 'state.idx_value < len(state.decoded_values)', 'state.decoded_descriptors is not state.decoded_values']
    MOD = ['list(state.decoded_descriptors)', 'state.idx_value', 'bit_writer.bit_stream.bits', 'bit_writer.bit_stream.len']
    COMMON = ['len(state.decoded_descriptors) == %s + 1' % L0, 'select(state.decoded_descriptors, %s) is descriptor' % L0,
              'list_eq_upto(state.decoded_descriptors, %s)' % L0, 'state.idx_value == old(state.idx_value) + 1',
              'same_list(state.decoded_values)', 'unchanged(state, "idx_value")',
              'prefix_same(%s, old(%s), %s)' % (BITS, BITS, P0)]
    # raw integer of a present numeric value: the scaled value (rounded to the nearest integer unless the factor is 1) minus the reference
    RAW = '(ite(Eq(scale_powered, 1), ival(%s), fround(fmul(%s, scale_powered))) - refval)' % (V, 'ite(is_int(%s), i2f(ival(%s)), fval(%s))' % (V, V, V))
    UNFIT = '(not is_none(%s) and (%s < 0 or %s >= pow2(nbits)))' % (V, RAW, RAW)
    add(Contract(M + 'Encoder.process_numeric_uncompressed',
                 {'self': ENC, 'state': S, 'bit_writer': W, 'descriptor': DESC, 'nbits': INT, 'scale_powered': FLOAT, 'refval': INT},
                 requires=REQ + ['1 <= nbits <= 64', 'is_none(%s) or is_int(%s) or is_flt(%s)' % (('select(state.decoded_values, state.idx_value)',) * 3),
                                 'implies(Eq(scale_powered, 1), not is_flt(select(state.decoded_values, state.idx_value)))'],
                 modifies=MOD,
                 ensures=COMMON + ['wlen(bit_writer) == %s + nbits' % P0,
                                   'U(%s, %s, nbits) == ite(is_none(%s), pow2(nbits) - 1, %s)' % (BITS, P0, V, RAW)],
                 raises={'ValueError': UNFIT}, must_raise=[('ValueError', UNFIT)],
                 serves=['C02', 'C03'],
                 note='exactly one field of nbits bits: all ones for missing, else round(value * 10**scale) - reference; a value whose '
                      'scaled integer does not fit is refused (never wrapped or clipped)'))
    CV = 'ite(is_none(%s), pow2(nbits) - 1, ival(%s))' % (V, V)
    CUNFIT = '(not is_none(%s) and (ival(%s) < 0 or ival(%s) >= pow2(nbits)))' % (V, V, V)
    add(Contract(M + 'Encoder.process_codeflag_uncompressed',
                 {'self': ENC, 'state': S, 'bit_writer': W, 'descriptor': DESC, 'nbits': INT},
                 requires=REQ + ['1 <= nbits <= 64', 'is_none(select(state.decoded_values, state.idx_value)) or is_int(select(state.decoded_values, state.idx_value))'],
                 modifies=MOD,
                 ensures=COMMON + ['wlen(bit_writer) == %s + nbits' % P0, 'U(%s, %s, nbits) == %s' % (BITS, P0, CV)],
                 raises={'ValueError': CUNFIT}, must_raise=[('ValueError', CUNFIT)],
                 serves=['C02'], note='code / flag: the unsigned value, all ones for missing'))

    SV_ = 'select(state.decoded_values, state.idx_value)'
    FIELD = 'Bst(%s, %s, nbytes)' % (BITS, P0)
    TXT = 'chars(%s)' % V
    add(Contract(M + 'Encoder.process_string_uncompressed',
                 {'self': ENC, 'state': S, 'bit_writer': W, 'descriptor': DESC, 'nbytes': INT},
                 requires=REQ + ['nbytes >= 0', 'is_none(%s) or is_byt(%s) or is_txt(%s)' % (SV_, SV_, SV_)],
                 modifies=MOD,
                 ensures=COMMON + ['wlen(bit_writer) == %s + 8 * nbytes' % P0, 'len(%s) == nbytes' % FIELD,
                                   # missing: every bit set; present: the bytes cut to the width or padded with blanks
                                   'implies(is_none(%s), chars_eq(%s, "\\xff" * nbytes))' % (V, FIELD),
                                   'implies(not is_none(%s) and len(%s) >= nbytes, chars_eq(%s, substr(%s, 0, nbytes)))' % (V, TXT, FIELD, TXT),
                                   'implies(not is_none(%s) and len(%s) < nbytes, str_prefixof(%s, %s) and '
                                   'allspaces(substr(%s, len(%s), nbytes - len(%s))))' % (V, TXT, TXT, FIELD, FIELD, TXT, TXT)],
                 serves=['C02'], note='strings: latin-1, cut to the field width or padded with blanks; missing = all ones'))
    add(Contract(M + 'Encoder.process_constant_uncompressed',
                 {'self': ENC, 'state': S, 'bit_writer': W, 'descriptor': DESC, 'value': INT},
                 requires=REQ, modifies=['list(state.decoded_descriptors)', 'state.idx_value'],
                 ensures=['len(state.decoded_descriptors) == %s + 1' % L0, 'select(state.decoded_descriptors, %s) is descriptor' % L0,
                          'list_eq_upto(state.decoded_descriptors, %s)' % L0, 'state.idx_value == old(state.idx_value) + 1',
                          'same_list(state.decoded_values)', 'unchanged(state, "idx_value")', 'wlen(bit_writer) == %s' % P0],
                 raises={'AssertionError': 'not Eq(%s, value)' % V}, must_raise=[('AssertionError', 'not Eq(%s, value)' % V)],
                 serves=['C02'], note='operator slots occupy a value position and no bits'))
    NV = 'ival(%s)' % V
    NUNFIT = '(is_int(%s) and abs(%s) >= pow2(nbits - 1))' % (V, NV)
    add(Contract(M + 'Encoder.process_new_refval_uncompressed',
                 {'self': ENC, 'state': S, 'bit_writer': W, 'descriptor': DESC, 'nbits': INT},
                 requires=REQ + ['2 <= nbits <= 64', 'state.new_refvals != None', 'is_none(%s) or is_int(%s)' % (SV_, SV_)],
                 modifies=MOD + ['dict(state.new_refvals)'],
                 ensures=COMMON + ['wlen(bit_writer) == %s + nbits' % P0,
                                   'U(%s, %s, 1) == ite(%s < 0, 1, 0)' % (BITS, P0, NV), 'U(%s, %s + 1, nbits - 1) == abs(%s)' % (BITS, P0, NV),
                                   'haskey(state.new_refvals, descriptor.id) and val_eq(dval(state.new_refvals, descriptor.id), %s)' % V],
                 raises={'ValueError': NUNFIT, 'AssertionError': 'is_none(%s)' % V},
                 must_raise=[('AssertionError', 'is_none(%s)' % V)],
                 serves=['C02'], note='new reference values are written sign-magnitude; a missing one is refused'))

    # ------------------------------------------------------------------------------------------------------------
    # compressed columns
    ALL = 'state.decoded_values_all_subsets'
    N = 'len(%s)' % ALL
    K0 = 'old(state.idx_value)'

    def colval(j):
        return 'select(select(%s, %s), %s)' % (ALL, j, K0)
    add(Contract(M + 'Encoder._next_compressed_values_and_status_from_all_subsets',
                 {'self': ENC, 'state': S, 'descriptor': DESC}, returns=TupleT(ListT(VAL), BOOL, BOOL),
                 requires=['state.decoded_descriptors != None', '%s != None' % ALL, '%s >= 1' % N, 'state.n_subsets == %s' % N,
                           '0 <= state.idx_value', 'forall(j, 0, %s, state.idx_value < len(select(%s, j)))' % (N, ALL)],
                 modifies=['list(state.decoded_descriptors)', 'state.idx_value'],
                 ensures=['len(state.decoded_descriptors) == %s + 1' % L0, 'select(state.decoded_descriptors, %s) is descriptor' % L0,
                          'list_eq_upto(state.decoded_descriptors, %s)' % L0, 'state.idx_value == %s + 1' % K0, 'unchanged(state, "idx_value")',
                          'fresh(result[0])', 'len(result[0]) == %s' % N,
                          # the column: one value per subset, in subset order
                          'forall(j, 0, %s, val_eq(select(result[0], j), %s))' % (N, colval('j')),
                          # all_equal exactly when every subset carries the same value (None counts as a value); all_missing: all None
                          'result[1] == forall(j, 0, %s, Eq(%s, %s))' % (N, colval('j'), colval('0')),
                          'result[2] == forall(j, 0, %s, is_none(%s))' % (N, colval('j'))],
                 serves=['C02', 'C05'],
                 note='width 0 is used exactly when all subsets agree: all_equal must not ignore missing entries'))

    COLREQ = ['state.decoded_descriptors != None', '%s != None' % ALL, '%s >= 1' % N, 'state.n_subsets == %s' % N, 'bit_writer != None',
              '0 <= state.idx_value', 'forall(j, 0, %s, state.idx_value < len(select(%s, j)))' % (N, ALL),
              'forall(j, 0, %s, is_none(%s) or (is_int(%s) and 0 <= ival(%s) and ival(%s) < pow2(62)))'
              % (N, 'select(select(%s, j), state.idx_value)' % ALL, 'select(select(%s, j), state.idx_value)' % ALL,
                 'select(select(%s, j), state.idx_value)' % ALL, 'select(select(%s, j), state.idx_value)' % ALL)]
    COLMOD = ['list(state.decoded_descriptors)', 'state.idx_value', 'bit_writer.bit_stream.bits', 'bit_writer.bit_stream.len']
    AGREE = 'forall(j, 0, %s, Eq(%s, %s))' % (N, colval('j'), colval('0'))
    ALLMISS = 'forall(j, 0, %s, is_none(%s))' % (N, colval('j'))
    F_MIN = 'U(%s, %s, nbits_min_value)' % (BITS, P0)
    F_W = 'U(%s, %s + nbits_min_value, 6)' % (BITS, P0)
    P1 = '(%s + nbits_min_value + 6)' % P0

    def f_inc(j, w=F_W):
        return 'U(%s, %s + (%s) * %s, %s)' % (BITS, P1, j, w, w)
    col_ensures = [
        'len(state.decoded_descriptors) == %s + 1' % L0, 'select(state.decoded_descriptors, %s) is descriptor' % L0,
        'state.idx_value == %s + 1' % K0, 'unchanged(state, "idx_value")',
        'prefix_same(%s, old(%s), %s)' % (BITS, BITS, P0),
        # width 0 exactly when all subsets agree
        '(%s == 0) == %s' % (F_W, AGREE),
        'wlen(bit_writer) == %s + %s * %s' % (P1, N, F_W),
        # minimum: all ones when every entry is missing, else the smallest entry that is present
        'implies(%s, %s == pow2(nbits_min_value) - 1)' % (ALLMISS, F_MIN),
        'implies(not %s, forall(j, 0, %s, implies(not is_none(%s), %s <= ival(%s))))' % (ALLMISS, N, colval('j'), F_MIN, colval('j')),
        'implies(%s and not %s, %s == ival(%s))' % (AGREE, ALLMISS, F_MIN, colval('0')),
        # differences reconstruct the raw values exactly; all ones (and only that) marks a missing entry
        'implies(%s != 0, forall(j, 0, %s, ite(is_none(%s), %s == pow2(%s) - 1, %s + %s == ival(%s) and %s != pow2(%s) - 1)))'
        % (F_W, N, colval('j'), f_inc('j'), F_W, F_MIN, f_inc('j'), colval('j'), f_inc('j'), F_W)]

    def enc_loop_invs(k):
        """after the value-rewriting loop position k: rewritten differences before k, original column from k on"""
        return ['len(values) == %s' % N, 'fresh(values)',
                'forall(j, 0, %s, is_int(select(values, j)) and ival(select(values, j)) == ite(is_none(%s), pow2(nbits_diff) - 1, ival(%s) - ival(min_value)))'
                % (k, colval('j'), colval('j')),
                'forall(j, %s, %s, val_eq(select(values, j), %s))' % (k, N, colval('j'))]
    add(Contract(M + 'Encoder.process_codeflag_compressed',
                 {'self': ENC, 'state': S, 'bit_writer': W, 'descriptor': DESC, 'nbits_min_value': INT},
                 requires=COLREQ + ['1 <= nbits_min_value <= 64'], modifies=COLMOD,
                 locals={'values': ListT(VAL), 'min_value': VAL, 'max_value': VAL, 'value': VAL},
                 loops={0: Loop(invariants=enc_loop_invs('_i0') + ['1 <= nbits_diff <= 64', 'is_int(min_value)', 'is_int(max_value)',
                                                                  'ival(max_value) - ival(min_value) <= pow2(nbits_diff) - 2',
                                                                  'forall(j, 0, %s, implies(not is_none(%s), ival(min_value) <= ival(%s) and ival(%s) <= ival(max_value)))'
                                                                  % (N, colval('j'), colval('j'), colval('j'))],
                                modifies=['list(values)'], locals={'value': VAL, 'idx': INT}),
                        1: Loop(invariants=['wlen(bit_writer) == %s + _i1 * nbits_diff' % P1, '1 <= nbits_diff <= 64',
                                            '%s == nbits_diff' % F_W, '%s == ival(min_value)' % F_MIN,
                                            'prefix_same(%s, old(%s), %s)' % (BITS, BITS, P0),
                                            'forall(j, 0, _i1, %s == ival(select(values, j)))' % f_inc('j', 'nbits_diff')],
                                modifies=['bit_writer.bit_stream.bits', 'bit_writer.bit_stream.len'], locals={'value': VAL})},
                 ensures=col_ensures, raises={'ValueError': None}, serves=['C02', 'C05'],
                 note='compressed code / flag column: minimum, 6-bit width, differences; all ones marks exactly the missing entries'))

    def raw(j):
        c = colval(j)
        return ('(ite(Eq(scale_powered, 1), ival(%s), fround(fmul(ite(is_int(%s), i2f(ival(%s)), fval(%s)), scale_powered))) - refval)' % (c, c, c, c))
    NCOLREQ = ['state.decoded_descriptors != None', '%s != None' % ALL, '%s >= 1' % N, 'state.n_subsets == %s' % N, 'bit_writer != None',
               '0 <= state.idx_value', 'forall(j, 0, %s, state.idx_value < len(select(%s, j)))' % (N, ALL),
               # values conform to the field: None, or a number whose raw integer is representable (0 .. 2**62)
               'forall(j, 0, %s, is_none(%s) or ((is_int(%s) or is_flt(%s)) and implies(Eq(scale_powered, 1), is_int(%s))))'
               % ((N,) + ('select(select(%s, j), state.idx_value)' % ALL,) * 4),
               'forall(j, 0, %s, implies(not is_none(%s), 0 <= %s and %s < pow2(62)))'
               % (N, 'select(select(%s, j), state.idx_value)' % ALL, raw('j').replace(K0, 'state.idx_value'), raw('j').replace(K0, 'state.idx_value'))]
    ncol_ensures = [
        'len(state.decoded_descriptors) == %s + 1' % L0, 'select(state.decoded_descriptors, %s) is descriptor' % L0,
        'state.idx_value == %s + 1' % K0, 'unchanged(state, "idx_value")',
        'prefix_same(%s, old(%s), %s)' % (BITS, BITS, P0),
        '(%s == 0) == %s' % (F_W, AGREE),
        'wlen(bit_writer) == %s + %s * %s' % (P1, N, F_W),
        'implies(%s, %s == pow2(nbits_min_value) - 1)' % (ALLMISS, F_MIN),
        'implies(not %s, forall(j, 0, %s, implies(not is_none(%s), %s <= %s)))' % (ALLMISS, N, colval('j'), F_MIN, raw('j')),
        'implies(%s and not %s, %s == %s)' % (AGREE, ALLMISS, F_MIN, raw('0')),
        'implies(%s != 0, forall(j, 0, %s, ite(is_none(%s), %s == pow2(%s) - 1, %s + %s == %s and %s != pow2(%s) - 1)))'
        % (F_W, N, colval('j'), f_inc('j'), F_W, F_MIN, f_inc('j'), raw('j'), f_inc('j'), F_W)]

    def scaled_invs(k):
        return ['len(values) == %s' % N, 'fresh(values)',
                'forall(j, 0, %s, ite(is_none(%s), is_none(select(values, j)), is_int(select(values, j)) and ival(select(values, j)) == %s))'
                % (k, colval('j'), raw('j')),
                'forall(j, %s, %s, val_eq(select(values, j), %s))' % (k, N, colval('j'))]

    def diff_invs(k):
        return ['len(values) == %s' % N, 'fresh(values)',
                'forall(j, 0, %s, is_int(select(values, j)) and ival(select(values, j)) == ite(is_none(%s), pow2(nbits_diff) - 1, %s - ival(min_value)))'
                % (k, colval('j'), raw('j')),
                'forall(j, %s, %s, ite(is_none(%s), is_none(select(values, j)), is_int(select(values, j)) and ival(select(values, j)) == %s))'
                % (k, N, colval('j'), raw('j'))]
    add(Contract(M + 'Encoder.process_numeric_compressed',
                 {'self': ENC, 'state': S, 'bit_writer': W, 'descriptor': DESC, 'nbits_min_value': INT, 'scale_powered': FLOAT, 'refval': INT},
                 requires=NCOLREQ + ['1 <= nbits_min_value <= 64'], modifies=COLMOD,
                 locals={'values': ListT(VAL), 'min_value': VAL, 'max_value': VAL, 'value': VAL},
                 loops={0: Loop(invariants=scaled_invs('_i0'), modifies=['list(values)'], locals={'value': VAL, 'idx': INT}),
                        1: Loop(invariants=diff_invs('_i1') + ['1 <= nbits_diff <= 64', 'is_int(min_value)', 'is_int(max_value)',
                                                               'ival(max_value) - ival(min_value) <= pow2(nbits_diff) - 2',
                                                               'forall(j, 0, %s, implies(not is_none(%s), ival(min_value) <= %s and %s <= ival(max_value)))'
                                                               % (N, colval('j'), raw('j'), raw('j'))],
                                modifies=['list(values)'], locals={'value': VAL, 'idx': INT}),
                        2: Loop(invariants=['wlen(bit_writer) == %s + _i2 * nbits_diff' % P1, '1 <= nbits_diff <= 64',
                                            '%s == nbits_diff' % F_W, '%s == ival(min_value)' % F_MIN,
                                            'prefix_same(%s, old(%s), %s)' % (BITS, BITS, P0),
                                            'forall(j, 0, _i2, %s == ival(select(values, j)))' % f_inc('j', 'nbits_diff')],
                                modifies=['bit_writer.bit_stream.bits', 'bit_writer.bit_stream.len'], locals={'value': VAL})},
                 ensures=ncol_ensures, raises={'ValueError': None}, serves=['C02', 'C03', 'C05'],
                 note='compressed numeric column: scaled raws, minimum, 6-bit width, differences; all ones marks exactly the missing entries; '
                      'width 0 exactly when all subsets agree'))

    # compressed new reference value (203YYY): ONE sign-magnitude field of YYY bits shared by all subsets, difference width 0
    C0 = colval('0')
    NRC_UNFIT = '(is_int(%s) and abs(ival(%s)) >= pow2(nbits_min_value - 1))' % (C0.replace(K0, 'state.idx_value'), C0.replace(K0, 'state.idx_value'))
    add(Contract(M + 'Encoder.process_new_refval_compressed',
                 {'self': ENC, 'state': S, 'bit_writer': W, 'descriptor': DESC, 'nbits_min_value': INT},
                 requires=['state.decoded_descriptors != None', '%s != None' % ALL, '%s >= 1' % N, 'state.n_subsets == %s' % N, 'bit_writer != None',
                           '0 <= state.idx_value', 'forall(j, 0, %s, state.idx_value < len(select(%s, j)))' % (N, ALL),
                           'forall(j, 0, %s, is_none(%s) or is_int(%s))' % (N, 'select(select(%s, j), state.idx_value)' % ALL, 'select(select(%s, j), state.idx_value)' % ALL),
                           '2 <= nbits_min_value <= 64', 'state.new_refvals != None', 'descriptor != None'],
                 modifies=COLMOD + ['dict(state.new_refvals)'],
                 ensures=['len(state.decoded_descriptors) == %s + 1' % L0, 'select(state.decoded_descriptors, %s) is descriptor' % L0,
                          'state.idx_value == %s + 1' % K0, 'unchanged(state, "idx_value")',
                          'prefix_same(%s, old(%s), %s)' % (BITS, BITS, P0),
                          'wlen(bit_writer) == %s + nbits_min_value + 6' % P0,
                          # sign bit, then the magnitude in YYY - 1 bits; then a zero difference width
                          'U(%s, %s, 1) == ite(ival(%s) < 0, 1, 0)' % (BITS, P0, C0), 'U(%s, %s + 1, nbits_min_value - 1) == abs(ival(%s))' % (BITS, P0, C0),
                          'U(%s, %s + nbits_min_value, 6) == 0' % (BITS, P0),
                          'haskey(state.new_refvals, descriptor.id) and val_eq(dval(state.new_refvals, descriptor.id), %s)' % C0],
                 raises={'ValueError': NRC_UNFIT, 'AssertionError': None},
                 must_raise=[('AssertionError', 'not (%s) or (%s)' % (AGREE.replace(K0, 'state.idx_value'), ALLMISS.replace(K0, 'state.idx_value')))],
                 serves=['C02', 'C05', 'C10'],
                 note='compressed new reference value: sign-magnitude like the uncompressed one (a negative value is legal), identical in all '
                      'subsets and never missing (refused otherwise)'))

    # ------------------------------------------------------------------------------------------------------------
    DALL, VALL, LALL = 'state.decoded_descriptors_all_subsets', 'state.decoded_values_all_subsets', 'state.bitmap_links_all_subsets'
    MSG_C = 'oval(bufr_message._is_compressed.value)'
    MSG_N = 'ival(bufr_message._n_subsets.value)'
    WALK_MOD = ['state.*', 'elems_of(%s)' % DALL, 'elems_of(%s)' % VALL, 'elems_of(%s)' % LALL]
    WALK_ERR = {'PyBufrKitError': None, 'AssertionError': None, 'NotImplementedError': None, 'ValueError': None, 'StopIteration': None,
                'IndexError': None, 'TypeError': None, 'KeyError': None, 'AttributeError': None, 'IOError': None, 'OSError': None}
    add(Contract(M + 'Encoder.process_template_data',
                 {'self': ENC, 'bufr_message': Ref('BufrMessage'), 'bit_writer': W, 'section_parameter': Ref('SectionParameter')},
                 requires=['bufr_message != None', 'section_parameter != None', 'bufr_message._is_compressed != None', 'bufr_message._n_subsets != None',
                           'is_bool(bufr_message._is_compressed.value)', 'is_int(bufr_message._n_subsets.value)', '%s >= 1' % MSG_N,
                           'is_ref(section_parameter.value)', 'refof(section_parameter.value) > 0',
                           'len(aslist_vv(section_parameter.value)) == %s' % MSG_N],
                 modifies=['bufr_message.table_group_key', 'section_parameter.value', 'elems_of(aslist_vv(section_parameter.value))',
                           'bit_writer.bit_stream.pos', 'bit_writer.bit_stream.bits', 'bit_writer.bit_stream.len'],
                 loops={0: Loop(invariants=['state != None', 'state is entry(state)', 'gh(state, "walks") == entry(gh(state, "walks")) + _i0',
                                            'not state.is_compressed', 'state.n_subsets == %s' % MSG_N,
                                            'len(%s) == %s' % (DALL, MSG_N), 'len(%s) == %s' % (VALL, MSG_N), 'len(%s) == %s' % (LALL, MSG_N),
                                            '%s is entry(%s)' % (DALL, DALL), '%s is entry(%s)' % (VALL, VALL), '%s is entry(%s)' % (LALL, LALL),
                                            'wlen(bit_writer) >= entry(wlen(bit_writer))',
                                            'prefix_same(wbits(bit_writer), entry(wbits(bit_writer)), entry(wlen(bit_writer)))'],
                                modifies=WALK_MOD + ['bit_writer.bit_stream.pos', 'bit_writer.bit_stream.bits', 'bit_writer.bit_stream.len'])},
                 ensures=['is_ref(section_parameter.value)',
                          # the walk only appends to the stream: what was written before it is still there
                          'wlen(bit_writer) >= old(wlen(bit_writer))', 'prefix_same(wbits(bit_writer), old(wbits(bit_writer)), old(wlen(bit_writer)))', 'asref(refof(section_parameter.value), "TemplateData").is_compressed == %s' % MSG_C,
                          # the value lists handed in are the ones the template data carries: used as they are
                          'asref(refof(section_parameter.value), "TemplateData").decoded_values_all_subsets is old(aslist_vv(section_parameter.value))'],
                 raises=WALK_ERR, serves=['C02', 'C06'],
                 note='encoder driver: state built from the message\'s flag / count and the given value lists; per subset a context switch, '
                      'the value cursor at 0, and one walk'))

    # C07: the bitmap is the n_031031 values that end at the value cursor (of subset 0 when compressed)
    from contracts.coder import define_bitmap_requires, define_bitmap_modifies, define_bitmap_ensures
    VL = 'ite(state.is_compressed, select(state.decoded_values_all_subsets, 0), state.decoded_values)'
    add(Contract(M + 'Encoder.define_bitmap', {'self': ENC, 'state': S, 'reuse': BOOL}, returns=ListT(VAL),
                 requires=define_bitmap_requires() + ['select(state.decoded_values_all_subsets, 0) != None',
                                                      # the counted bits were taken from the value list: the cursor has passed them
                                                      '0 <= state.n_031031', 'state.n_031031 <= state.idx_value', 'state.idx_value <= len(%s)' % VL],
                 modifies=define_bitmap_modifies(), allocates=['state.next_bitmapped_descriptor.lst', 'state.next_bitmapped_descriptor.pos'],
                 ensures=define_bitmap_ensures((VL, '(state.idx_value - old(state.n_031031))', 'old(state.n_031031)')),
                 raises={'PyBufrKitError': None}, serves=['C07'],
                 note='encoder: bitmap = the n_031031 given values that end at the value cursor; kept in state.bitmap iff defined for reuse'))


def register_sections(reg):
    """Encoder.process_unexpanded_descriptors / process_section (C02, C04): F X Y packing, padding, length back-patch, honour mode"""
    from contracts.bufr import layout
    add = reg.add
    ENC = Ref('Encoder')
    W = Ref('BitStringBitWriter')
    SEC = Ref('BufrSection')
    MSG = Ref('BufrMessage')
    P0 = 'old(wlen(bit_writer))'
    BITS = 'wbits(bit_writer)'
    IDS = 'aslist_i(section_parameter.value)'
    FITS = ('(0 <= select(%s, k) and select(%s, k) // 100000 < 4 and select(%s, k) // 1000 %% 100 < 64 and select(%s, k) %% 1000 < 256)'
            % (IDS, IDS, IDS, IDS))
    UNFIT = 'exists(k, 0, len(%s), not %s)' % (IDS, FITS)

    def fxy(ids, k, base):
        return ('U(%s, %s + 16 * %s, 2) == select(%s, %s) // 100000 and U(%s, %s + 16 * %s + 2, 6) == select(%s, %s) // 1000 %% 100 and '
                'U(%s, %s + 16 * %s + 8, 8) == select(%s, %s) %% 1000' % (BITS, base, k, ids, k, BITS, base, k, ids, k, BITS, base, k, ids, k))
    add(Contract(M + 'Encoder.process_unexpanded_descriptors', {'self': ENC, 'bit_writer': W, 'section_parameter': Ref('SectionParameter')},
                 requires=['bit_writer != None', 'section_parameter != None', 'is_ref(section_parameter.value)', 'refof(section_parameter.value) > 0'],
                 modifies=['bit_writer.bit_stream.bits', 'bit_writer.bit_stream.len'],
                 locals={'@iter:section_parameter.value': ListT(INT), 'descriptor': Ref('Descriptor')},
                 loops={0: Loop(invariants=['wlen(bit_writer) == %s + 16 * _i0' % P0, 'prefix_same(%s, old(%s), %s)' % (BITS, BITS, P0),
                                            'forall(k, 0, _i0, %s)' % FITS,
                                            'forall(k, 0, _i0, %s)' % fxy(IDS, 'k', P0)],
                                modifies=['bit_writer.bit_stream.bits', 'bit_writer.bit_stream.len'],
                                locals={'descriptor': Ref('Descriptor'), 'descriptor_id': INT})},
                 ensures=['wlen(bit_writer) == %s + 16 * len(%s)' % (P0, IDS), 'prefix_same(%s, old(%s), %s)' % (BITS, BITS, P0),
                          'forall(k, 0, len(%s), %s)' % (IDS, fxy(IDS, 'k', P0))],
                 raises={'ValueError': UNFIT}, must_raise=[('ValueError', UNFIT)],
                 serves=['C02', 'C04'],
                 note='each descriptor id is packed as F:2 X:6 Y:8 bits, in list order; an id whose F / X / Y does not fit 2 / 6 / 8 bits is refused'))

    PS = 'section._params'

    def par(q):
        return 'select(%s, %s)' % (PS, q)
    HAS_LEN = '(len(%s) >= 1 and select(%s, 0).name == "section_length")' % (PS, PS)
    HAS_TD = 'exists(q, 0, len(%s), select(%s, q).type == "template_data")' % (PS, PS)
    TD_READY = ('bufr_message._is_compressed != None and bufr_message._n_subsets != None and '
                'is_bool(bufr_message._is_compressed.value) and is_int(bufr_message._n_subsets.value) and '
                'ival(bufr_message._n_subsets.value) >= 1')
    DECL = 'old(ival(select(%s, 0).value))' % PS
    RECOMP = '(self.ignore_declared_length or %s == 0)' % DECL
    EDV = 'ival(bufr_message._edition.value)'
    CONTENT = '(at_exit(0, wlen(bit_writer)) - %s)' % P0
    PADDED = 'ite(%s <= 3, (%s + 15) // 16 * 16, (%s + 7) // 8 * 8)' % (EDV, CONTENT, CONTENT)

    def typed(q):
        v = '%s.value' % par(q)
        return ('implies(%s.type == "uint" or %s.type == "int", is_int(%s)) and implies(%s.type == "bool", is_bool(%s)) and '
                'implies(%s.type == "bytes", is_byt(%s) or is_txt(%s)) and implies(%s.type == "bin", is_txt(%s) and is_binstr(tval(%s))) and '
                'implies(%s.type == "unexpanded_descriptors", is_ref(%s) and refof(%s) > 0) and '
                'implies(%s.type == "template_data", is_ref(%s) and refof(%s) > 0 and len(aslist_vv(%s)) == ival(bufr_message._n_subsets.value))'
                % (par(q), par(q), v, par(q), v, par(q), v, v, par(q), v, v, par(q), v, v, par(q), v, v, v))
    NO_ED = 'not phas(section, "edition")'
    WALK_ONLY = {k: HAS_TD for k in ('AssertionError', 'NotImplementedError', 'StopIteration', 'IndexError', 'TypeError',
                                     'KeyError', 'AttributeError', 'IOError', 'OSError')}
    add(Contract(M + 'Encoder.process_section', {'self': ENC, 'bufr_message': MSG, 'bit_writer': W, 'section': SEC}, returns=INT,
                 requires=layout() + ['bufr_message != None', 'bit_writer != None',
                                      'forall(q, 0, len(%s), %s)' % (PS, typed('q')),
                                      'implies(%s, %s)' % (HAS_TD, TD_READY),
                                      'implies(%s, forall(q, 0, len(%s), %s.name != "is_compressed" and %s.name != "n_subsets" and '
                                      '%s is not bufr_message._is_compressed and %s is not bufr_message._n_subsets))'
                                      % (HAS_TD, PS, par('q'), par('q'), par('q'), par('q')),
                                      # the edition decides the padding rule: it was set by section 0, or this section carries it
                                      'implies(%s, bufr_message._edition != None and is_int(bufr_message._edition.value) and '
                                      'bufr_message._edition.name == "edition")' % NO_ED,
                                      'forall(q, 0, len(%s), implies(%s.name == "edition", %s.type == "uint" and %s.as_property))' % (PS, par('q'), par('q'), par('q')),
                                      'implies(%s, is_int(select(%s, 0).value) and 0 <= ival(select(%s, 0).value) and ival(select(%s, 0).value) < pow2(24))' % (HAS_LEN, PS, PS, PS)],
                 modifies=['section.bitpos_start', 'fields_of(section._params, "value")', 'bufr_message.*',
                           'bit_writer.bit_stream.bits', 'bit_writer.bit_stream.len', 'bit_writer.bit_stream.pos',
                           'lists(aslist_vv(select(%s, 0).value))' % PS],
                 loops={0: Loop(invariants=['section.bitpos_start == %s' % P0, 'wlen(bit_writer) >= %s' % P0, 'implies(_i0 == 0, wlen(bit_writer) == %s)' % P0,
                                            'bufr_message.sections is old(bufr_message.sections)',
                                            'uprefix_same(%s, old(%s), %s)' % (BITS, BITS, P0),
                                            'implies(%s, %s)' % (HAS_TD, TD_READY),
                                            'implies(%s, bufr_message._is_compressed is old(bufr_message._is_compressed) and '
                                            'bufr_message._n_subsets is old(bufr_message._n_subsets))' % HAS_TD,
                                            'implies(%s, bufr_message._edition is old(bufr_message._edition))' % NO_ED,
                                            'implies(phas(section, "edition") and _i0 > pindex(section, "edition"), '
                                            'bufr_message._edition is %s)' % par('pindex(section, "edition")'),
                                            'implies(phas(section, "length") and _i0 > pindex(section, "length") and %s.as_property, '
                                            'bufr_message._length is %s)' % (par('pindex(section, "length")'), par('pindex(section, "length")')),
                                            'implies(not phas(section, "length") or _i0 <= pindex(section, "length"), bufr_message._length is old(bufr_message._length))',

                                            # only the template-data slot is rewritten (it becomes the TemplateData object)
                                            'forall(q, 0, len(%s), implies(%s.type != "template_data", val_eq(%s.value, old(%s.value))))' % (PS, par('q'), par('q'), par('q')),
                                            'forall(q, _i0, len(%s), val_eq(%s.value, old(%s.value)))' % (PS, par('q'), par('q')),
                                            # the length field, written first, holds the declared value
                                            'implies(%s and _i0 >= 1, wlen(bit_writer) >= %s + 24 and U(%s, %s, 24) == %s)' % (HAS_LEN, P0, BITS, P0, DECL)],
                                modifies=['fields_of(section._params, "value")', 'bufr_message.*',
                                          'bit_writer.bit_stream.bits', 'bit_writer.bit_stream.len', 'bit_writer.bit_stream.pos',
                                          'lists(aslist_vv(select(%s, 0).value))' % PS],
                                locals={'parameter': Ref('SectionParameter')})},
                 ensures=['result == wlen(bit_writer) - %s' % P0, 'result >= 0', 'section.bitpos_start == %s' % P0, 'has_exit(0)',
                          'bufr_message.sections is old(bufr_message.sections)',
                          # the total-length field becomes (or stays) the message's `length` proxy; its section is where it was written
                          'implies(phas(section, "length") and %s.as_property, bufr_message._length is %s)' % (par('pindex(section, "length")'), par('pindex(section, "length")')),
                          'implies(not phas(section, "length"), bufr_message._length is old(bufr_message._length))',

                          # only the template-data slot and (when recomputed) the length field are rewritten
                          'forall(q, 0, len(%s), implies(%s.type != "template_data" and %s.name != "section_length", val_eq(%s.value, old(%s.value))))'
                          % (PS, par('q'), par('q'), par('q'), par('q')),
                          # the edition is known from here on (set by this section or an earlier one)
                          'bufr_message._edition != None and is_int(bufr_message._edition.value) and bufr_message._edition.name == "edition"',
                          'uprefix_same(%s, old(%s), %s)' % (BITS, BITS, P0),
                          # whole octets; an even number of them for editions up to 3
                          'result % 8 == 0', 'implies(%s <= 3 and (not %s or %s), (result // 8) %% 2 == 0)' % (EDV, HAS_LEN, RECOMP),
                          # only zero bits as padding, and no more of them than needed
                          'result >= %s' % PADDED, 'U(%s, %s + %s, %s - %s) == 0' % (BITS, P0, CONTENT, PADDED, CONTENT),
                          'implies(not %s or %s, result == %s)' % (HAS_LEN, RECOMP, PADDED),
                          # lengths recomputed: the declared length is the real extent, in the object and in the stream
                          'implies(%s and %s, ival(select(%s, 0).value) == result // 8 and U(%s, %s, 24) == result // 8)' % (HAS_LEN, RECOMP, PS, BITS, P0),
                          # lengths honoured: a longer declared section is zero-filled, a shorter one never returns normally
                          'implies(%s and not %s, result == 8 * %s and U(%s, %s, 24) == %s and U(%s, %s + %s, result - %s) == 0)'
                          % (HAS_LEN, RECOMP, DECL, BITS, P0, DECL, BITS, P0, PADDED, PADDED)],
                 raises=dict(WALK_ONLY, PyBufrKitError=None, ValueError=None), serves=['C04'],
                 note='on return the section occupies whole octets (an even number for editions <= 3) with only zero bits as padding; recompute '
                      'mode back-patches the real extent into the 24-bit length field, honour mode zero-fills up to the declared length and '
                      'refuses a shorter one'))


def register_process(reg):
    """Encoder.process (C04): message-level framing -- the total length of section 0 is the number of octets produced"""
    from contracts.bufr import layout
    add = reg.add
    ENC = Ref('Encoder')
    MSG = Ref('BufrMessage')
    SECS = 'bufr_message.sections'
    RP = 'result._params'

    def rp(q):
        return 'select(%s, %s)' % (RP, q)
    TYPED = ('forall(q, 0, len(%s), implies(%s.type == "uint" or %s.type == "int", is_int(%s.value)) and implies(%s.type == "bool", is_bool(%s.value)) and '
             'implies(%s.type == "bytes", is_byt(%s.value) or is_txt(%s.value)) and implies(%s.type == "bin", is_txt(%s.value) and is_binstr(tval(%s.value))) and '
             'implies(%s.type == "unexpanded_descriptors", is_ref(%s.value) and refof(%s.value) > 0))'
             % ((RP,) + (rp('q'),) * 14))
    add(Contract('pybufrkit.bufr.SectionConfigurer.configure_section_with_values',
                 {'self': Ref('SectionConfigurer'), 'bufr_message': MSG, 'section_index': INT, 'values': ListT(VAL), 'overrides': DictT(STR, VAL)},
                 returns=Ref('BufrSection'), trusted=True, requires=['bufr_message != None'], modifies=['list(%s)' % SECS],
                 allocates=['result._params', 'result.end_of_message', 'result.optional', 'result.index', 'result.bitpos_start', 'list(result._params)',
                            'fields_of(result._params, "parent")'],
                 ensures=['implies(result != None, %s)' % ' and '.join('(%s)' % x for x in layout('result')),
                          'implies(result != None, fresh(result) and fresh(result._params) and forall(q, 0, len(%s), fresh(%s) and %s.parent is result))' % (RP, rp('q'), rp('q')),
                          'implies(result != None, len(%s) == old(len(%s)) + 1 and select(%s, old(len(%s))) is result)' % (SECS, SECS, SECS, SECS),
                          'implies(result == None, len(%s) == old(len(%s)))' % (SECS, SECS), 'list_eq_upto(%s, old(len(%s)))' % (SECS, SECS),
                          # the indicator section (ground fact `definitions#layout`): BUFR signature of 4 octets, then the 24-bit total length, then the edition
                          'implies(section_index == 0, result != None and len(%s) == 3 and %s.type == "bytes" and %s.nbits == 32 and %s.name == "length" and '
                          '%s.type == "uint" and %s.nbits == 24 and %s.as_property and %s.name == "edition" and %s.type == "uint" and %s.as_property)'
                          % (RP, rp('0'), rp('0'), rp('1'), rp('1'), rp('1'), rp('1'), rp('2'), rp('2'), rp('2')),
                          'implies(section_index == 0, pindex(result, "length") == 1 and poff(result, 1) == 32)',
                          'implies(section_index != 0 and result != None, not phas(result, "length") and not phas(result, "edition"))',
                          # the values given for the section conform to its layout (the quantifier of C02 / C04: value lists that conform)
                          'implies(result != None, %s)' % TYPED,
                          'implies(result != None and len(%s) >= 1 and %s.name == "section_length", 0 <= ival(%s.value) and ival(%s.value) < pow2(24))'
                          % (RP, rp('0'), rp('0'), rp('0')),
                          'implies(section_index == 0, 0 <= ival(%s.value) and ival(%s.value) < pow2(24))' % (rp('1'), rp('1'))],
                 raises={'KeyError': None, 'AttributeError': None, 'AssertionError': None, 'IndexError': None, 'TypeError': None},
                 serves=['C04', 'C02'],
                 note='interface contract (assumed): a configured section satisfies the layout facts of the definition files and carries one value of '
                      'the right Python type per parameter; section 0 is signature / 24-bit total length / edition'))
    LEN = 'bufr_message._length'
    L_OK = ('%s != None and %s.parent != None and %s.parent._params != None and len(%s.parent._params) == 3 and select(%s.parent._params, 1) is %s and '
            'select(%s.parent._params, 0).nbits == 32 and %s.nbits == 24 and %s.name == "length" and is_int(%s.value) and %s.parent.bitpos_start == 0 and '
            'select(%s.parent._params, 0).name != "length" and select(%s.parent._params, 2).name == "edition" and select(%s.parent._params, 0).name != "edition" and '
            'pindex(%s.parent, "length") == 1 and poff(%s.parent, 1) == 32 and fresh(%s) and fresh(%s.parent) and phas(%s.parent, "length")'
            % ((LEN,) * 19))
    ED_OK = 'bufr_message._edition != None and is_int(bufr_message._edition.value) and bufr_message._edition.name == "edition"'
    ERRS = {k: None for k in ('PyBufrKitError', 'AssertionError', 'NotImplementedError', 'ValueError', 'StopIteration', 'IndexError', 'TypeError',
                              'KeyError', 'AttributeError', 'IOError', 'OSError')}
    RLEN = 'ival(result._length.value)'
    add(Contract(M + 'Encoder.process', {'self': ENC, 's': ListT(ListT(VAL)), 'file_path': STR, 'wire_template_data': BOOL}, returns=MSG,
                 assume_input=True, requires=['self != None', 's != None'], modifies=['lists(s)'],
                 loops={0: Loop(invariants=['bufr_message != None', 'bit_writer != None', 'bufr_message is entry(bufr_message)', 'bit_writer is entry(bit_writer)',
                                            'bit_writer.bit_stream is entry(bit_writer.bit_stream)', 'fresh(bit_writer.bit_stream)',
                                            '%s != None' % SECS, '%s is entry(%s)' % (SECS, SECS),
                                            'section_index >= 0', 'index_offset >= 0', 'json_data is s',
                                            'nbits_encoded == wlen(bit_writer)', 'nbits_encoded % 8 == 0',
                                            'implies(section_index == 0, wlen(bit_writer) == 0)',
                                            'implies(section_index >= 1, wlen(bit_writer) >= 56 and %s and %s)' % (L_OK, ED_OK)],
                                modifies=['bufr_message.*', 'list(%s)' % SECS, 'bit_writer.bit_stream.pos', 'bit_writer.bit_stream.bits', 'bit_writer.bit_stream.len',
                                          'lists(s)'],
                                locals={'section': Ref('BufrSection')})},
                 ensures=['result != None', 'fresh(result)', 'has_exit(0)',
                          'is_byt(result.serialized_bytes)', 'result._length != None', 'is_int(result._length.value)',
                          # the declared total length is the number of octets produced -- recomputed and back-patched, or checked when honoured
                          '%s == len(bval(result.serialized_bytes))' % RLEN,
                          'implies(has_exit(0), 8 * len(bval(result.serialized_bytes)) == at_exit(0, wlen(bit_writer)))'],
                 raises=dict(ERRS), serves=['C04', 'C02'],
                 note='the sections are written one after the other from bit 0; afterwards the 24-bit total length of section 0 holds the number of '
                      'octets produced (back-patched in place when recomputed; a differing declared length is refused when honoured) and the '
                      'message bytes are the whole stream'))
