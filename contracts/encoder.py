"""Contracts for pybufrkit/encoder.py (C02, C03, C05)."""
from pyvc.ty import *
from pyvc.contract import Contract, Loop
from contracts.classes import DESC

M = 'pybufrkit.encoder.'


def register(reg):
    add = reg.add
    add(Contract(M + 'nbits_for_uint', {'x': INT}, returns=INT,
                 requires=['1 <= x', 'x < pow2(63)'],
                 ensures=['result >= 1', 'result <= 64',
                          # every difference 0 .. x - 1 fits and none of them is the all-ones pattern of the width chosen
                          'x - 1 <= pow2(result) - 2'],
                 serves=['C02', 'C05'], harness='pure_int',
                 note='difference width reserves all ones for missing (the width need not be minimal)'))

    ENC = Ref('Encoder')
    S = Ref('CoderState')
    W = Ref('BitStringBitWriter')
    L0 = 'old(len(state.decoded_descriptors))'
    P0 = 'old(wlen(bit_writer))'
    BITS = 'wbits(bit_writer)'
    V = 'old(select(state.decoded_values, state.idx_value))'          # the value to encode
    REQ = ['state.decoded_descriptors != None', 'state.decoded_values != None', 'bit_writer != None',
           '0 <= state.idx_value', 'state.idx_value < len(state.decoded_values)', 'state.decoded_descriptors is not state.decoded_values']
    MOD = ['list(state.decoded_descriptors)', 'state.idx_value', 'bit_writer.bit_stream.bits', 'bit_writer.bit_stream.len']
    COMMON = ['len(state.decoded_descriptors) == %s + 1' % L0, 'select(state.decoded_descriptors, %s) is descriptor' % L0,
              'list_eq_upto(state.decoded_descriptors, %s)' % L0, 'state.idx_value == old(state.idx_value) + 1',
              'same_list(state.decoded_values)', 'unchanged(state, "idx_value")',
              'prefix_same(%s, old(%s), %s)' % (BITS, BITS, P0)]
    # raw integer of a present numeric value: the scaled value (rounded to the nearest integer unless the factor is 1) minus the reference
    RAW = '(ite(Eq(scale_powered, 1), ival(%s), fround(fmul(%s, scale_powered))) - refval)' % (V, 'ite(is_int(%s), i2f(ival(%s)), fval(%s))' % (V, V, V))
    UNFIT = '(not is_none(%s) and (%s < 0 or %s >= pow2(nbits)))' % (V, RAW, RAW)
    add(Contract(M + 'Encoder.process_numeric_uncompressed',
                 {'self': ENC, 'state': S, 'bit_writer': W, 'descriptor': DESC, 'nbits': INT, 'scale_powered': FLOAT, 'refval': INT},
                 requires=REQ + ['1 <= nbits <= 64', 'is_none(%s) or is_int(%s) or is_flt(%s)' % (('select(state.decoded_values, state.idx_value)',) * 3),
                                 'implies(Eq(scale_powered, 1), not is_flt(select(state.decoded_values, state.idx_value)))'],
                 modifies=MOD,
                 ensures=COMMON + ['wlen(bit_writer) == %s + nbits' % P0,
                                   'U(%s, %s, nbits) == ite(is_none(%s), pow2(nbits) - 1, %s)' % (BITS, P0, V, RAW)],
                 raises={'ValueError': UNFIT}, must_raise=[('ValueError', UNFIT)],
                 serves=['C02', 'C03'],
                 note='exactly one field of nbits bits: all ones for missing, else round(value * 10**scale) - reference; a value whose '
                      'scaled integer does not fit is refused (never wrapped or clipped)'))
    CV = 'ite(is_none(%s), pow2(nbits) - 1, ival(%s))' % (V, V)
    CUNFIT = '(not is_none(%s) and (ival(%s) < 0 or ival(%s) >= pow2(nbits)))' % (V, V, V)
    add(Contract(M + 'Encoder.process_codeflag_uncompressed',
                 {'self': ENC, 'state': S, 'bit_writer': W, 'descriptor': DESC, 'nbits': INT},
                 requires=REQ + ['1 <= nbits <= 64', 'is_none(select(state.decoded_values, state.idx_value)) or is_int(select(state.decoded_values, state.idx_value))'],
                 modifies=MOD,
                 ensures=COMMON + ['wlen(bit_writer) == %s + nbits' % P0, 'U(%s, %s, nbits) == %s' % (BITS, P0, CV)],
                 raises={'ValueError': CUNFIT}, must_raise=[('ValueError', CUNFIT)],
                 serves=['C02'], note='code / flag: the unsigned value, all ones for missing'))

    SV_ = 'select(state.decoded_values, state.idx_value)'
    FIELD = 'Bst(%s, %s, nbytes)' % (BITS, P0)
    TXT = 'chars(%s)' % V
    add(Contract(M + 'Encoder.process_string_uncompressed',
                 {'self': ENC, 'state': S, 'bit_writer': W, 'descriptor': DESC, 'nbytes': INT},
                 requires=REQ + ['nbytes >= 0', 'is_none(%s) or is_byt(%s) or is_txt(%s)' % (SV_, SV_, SV_)],
                 modifies=MOD,
                 ensures=COMMON + ['wlen(bit_writer) == %s + 8 * nbytes' % P0, 'len(%s) == nbytes' % FIELD,
                                   # missing: every bit set; present: the bytes cut to the width or padded with blanks
                                   'implies(is_none(%s), chars_eq(%s, "\\xff" * nbytes))' % (V, FIELD),
                                   'implies(not is_none(%s) and len(%s) >= nbytes, chars_eq(%s, substr(%s, 0, nbytes)))' % (V, TXT, FIELD, TXT),
                                   'implies(not is_none(%s) and len(%s) < nbytes, str_prefixof(%s, %s) and '
                                   'allspaces(substr(%s, len(%s), nbytes - len(%s))))' % (V, TXT, TXT, FIELD, FIELD, TXT, TXT)],
                 serves=['C02'], note='strings: latin-1, cut to the field width or padded with blanks; missing = all ones'))
    add(Contract(M + 'Encoder.process_constant_uncompressed',
                 {'self': ENC, 'state': S, 'bit_writer': W, 'descriptor': DESC, 'value': INT},
                 requires=REQ, modifies=['list(state.decoded_descriptors)', 'state.idx_value'],
                 ensures=['len(state.decoded_descriptors) == %s + 1' % L0, 'select(state.decoded_descriptors, %s) is descriptor' % L0,
                          'list_eq_upto(state.decoded_descriptors, %s)' % L0, 'state.idx_value == old(state.idx_value) + 1',
                          'same_list(state.decoded_values)', 'unchanged(state, "idx_value")', 'wlen(bit_writer) == %s' % P0],
                 raises={'AssertionError': 'not Eq(%s, value)' % V}, must_raise=[('AssertionError', 'not Eq(%s, value)' % V)],
                 serves=['C02'], note='operator slots occupy a value position and no bits'))
    NV = 'ival(%s)' % V
    NUNFIT = '(is_int(%s) and abs(%s) >= pow2(nbits - 1))' % (V, NV)
    add(Contract(M + 'Encoder.process_new_refval_uncompressed',
                 {'self': ENC, 'state': S, 'bit_writer': W, 'descriptor': DESC, 'nbits': INT},
                 requires=REQ + ['2 <= nbits <= 64', 'state.new_refvals != None', 'is_none(%s) or is_int(%s)' % (SV_, SV_)],
                 modifies=MOD + ['dict(state.new_refvals)'],
                 ensures=COMMON + ['wlen(bit_writer) == %s + nbits' % P0,
                                   'U(%s, %s, 1) == ite(%s < 0, 1, 0)' % (BITS, P0, NV), 'U(%s, %s + 1, nbits - 1) == abs(%s)' % (BITS, P0, NV),
                                   'haskey(state.new_refvals, descriptor.id) and val_eq(dval(state.new_refvals, descriptor.id), %s)' % V],
                 raises={'ValueError': NUNFIT, 'AssertionError': 'is_none(%s)' % V},
                 must_raise=[('AssertionError', 'is_none(%s)' % V)],
                 serves=['C02'], note='new reference values are written sign-magnitude; a missing one is refused'))

    # ------------------------------------------------------------------------------------------------------------
    # compressed columns
    ALL = 'state.decoded_values_all_subsets'
    N = 'len(%s)' % ALL
    K0 = 'old(state.idx_value)'

    def colval(j):
        return 'select(select(%s, %s), %s)' % (ALL, j, K0)
    add(Contract(M + 'Encoder._next_compressed_values_and_status_from_all_subsets',
                 {'self': ENC, 'state': S, 'descriptor': DESC}, returns=TupleT(ListT(VAL), BOOL, BOOL),
                 requires=['state.decoded_descriptors != None', '%s != None' % ALL, '%s >= 1' % N, 'state.n_subsets == %s' % N,
                           '0 <= state.idx_value', 'forall(j, 0, %s, state.idx_value < len(select(%s, j)))' % (N, ALL)],
                 modifies=['list(state.decoded_descriptors)', 'state.idx_value'],
                 ensures=['len(state.decoded_descriptors) == %s + 1' % L0, 'select(state.decoded_descriptors, %s) is descriptor' % L0,
                          'list_eq_upto(state.decoded_descriptors, %s)' % L0, 'state.idx_value == %s + 1' % K0, 'unchanged(state, "idx_value")',
                          'fresh(result[0])', 'len(result[0]) == %s' % N,
                          # the column: one value per subset, in subset order
                          'forall(j, 0, %s, val_eq(select(result[0], j), %s))' % (N, colval('j')),
                          # all_equal exactly when every subset carries the same value (None counts as a value); all_missing: all None
                          'result[1] == forall(j, 0, %s, Eq(%s, %s))' % (N, colval('j'), colval('0')),
                          'result[2] == forall(j, 0, %s, is_none(%s))' % (N, colval('j'))],
                 serves=['C02', 'C05'],
                 note='width 0 is used exactly when all subsets agree: all_equal must not ignore missing entries'))

    COLREQ = ['state.decoded_descriptors != None', '%s != None' % ALL, '%s >= 1' % N, 'state.n_subsets == %s' % N, 'bit_writer != None',
              '0 <= state.idx_value', 'forall(j, 0, %s, state.idx_value < len(select(%s, j)))' % (N, ALL),
              'forall(j, 0, %s, is_none(%s) or (is_int(%s) and 0 <= ival(%s) and ival(%s) < pow2(62)))'
              % (N, 'select(select(%s, j), state.idx_value)' % ALL, 'select(select(%s, j), state.idx_value)' % ALL,
                 'select(select(%s, j), state.idx_value)' % ALL, 'select(select(%s, j), state.idx_value)' % ALL)]
    COLMOD = ['list(state.decoded_descriptors)', 'state.idx_value', 'bit_writer.bit_stream.bits', 'bit_writer.bit_stream.len']
    AGREE = 'forall(j, 0, %s, Eq(%s, %s))' % (N, colval('j'), colval('0'))
    ALLMISS = 'forall(j, 0, %s, is_none(%s))' % (N, colval('j'))
    F_MIN = 'U(%s, %s, nbits_min_value)' % (BITS, P0)
    F_W = 'U(%s, %s + nbits_min_value, 6)' % (BITS, P0)
    P1 = '(%s + nbits_min_value + 6)' % P0

    def f_inc(j, w=F_W):
        return 'U(%s, %s + (%s) * %s, %s)' % (BITS, P1, j, w, w)
    col_ensures = [
        'len(state.decoded_descriptors) == %s + 1' % L0, 'select(state.decoded_descriptors, %s) is descriptor' % L0,
        'state.idx_value == %s + 1' % K0, 'unchanged(state, "idx_value")',
        'prefix_same(%s, old(%s), %s)' % (BITS, BITS, P0),
        # width 0 exactly when all subsets agree
        '(%s == 0) == %s' % (F_W, AGREE),
        'wlen(bit_writer) == %s + %s * %s' % (P1, N, F_W),
        # minimum: all ones when every entry is missing, else the smallest entry that is present
        'implies(%s, %s == pow2(nbits_min_value) - 1)' % (ALLMISS, F_MIN),
        'implies(not %s, forall(j, 0, %s, implies(not is_none(%s), %s <= ival(%s))))' % (ALLMISS, N, colval('j'), F_MIN, colval('j')),
        'implies(%s and not %s, %s == ival(%s))' % (AGREE, ALLMISS, F_MIN, colval('0')),
        # differences reconstruct the raw values exactly; all ones (and only that) marks a missing entry
        'implies(%s != 0, forall(j, 0, %s, ite(is_none(%s), %s == pow2(%s) - 1, %s + %s == ival(%s) and %s != pow2(%s) - 1)))'
        % (F_W, N, colval('j'), f_inc('j'), F_W, F_MIN, f_inc('j'), colval('j'), f_inc('j'), F_W)]

    def enc_loop_invs(k):
        """after the value-rewriting loop position k: rewritten differences before k, original column from k on"""
        return ['len(values) == %s' % N, 'fresh(values)',
                'forall(j, 0, %s, is_int(select(values, j)) and ival(select(values, j)) == ite(is_none(%s), pow2(nbits_diff) - 1, ival(%s) - ival(min_value)))'
                % (k, colval('j'), colval('j')),
                'forall(j, %s, %s, val_eq(select(values, j), %s))' % (k, N, colval('j'))]
    add(Contract(M + 'Encoder.process_codeflag_compressed',
                 {'self': ENC, 'state': S, 'bit_writer': W, 'descriptor': DESC, 'nbits_min_value': INT},
                 requires=COLREQ + ['1 <= nbits_min_value <= 64'], modifies=COLMOD,
                 locals={'values': ListT(VAL), 'min_value': VAL, 'max_value': VAL, 'value': VAL},
                 loops={0: Loop(invariants=enc_loop_invs('_i0') + ['1 <= nbits_diff <= 64', 'is_int(min_value)', 'is_int(max_value)',
                                                                  'ival(max_value) - ival(min_value) <= pow2(nbits_diff) - 2',
                                                                  'forall(j, 0, %s, implies(not is_none(%s), ival(min_value) <= ival(%s) and ival(%s) <= ival(max_value)))'
                                                                  % (N, colval('j'), colval('j'), colval('j'))],
                                modifies=['list(values)'], locals={'value': VAL, 'idx': INT}),
                        1: Loop(invariants=['wlen(bit_writer) == %s + _i1 * nbits_diff' % P1, '1 <= nbits_diff <= 64',
                                            '%s == nbits_diff' % F_W, '%s == ival(min_value)' % F_MIN,
                                            'prefix_same(%s, old(%s), %s)' % (BITS, BITS, P0),
                                            'forall(j, 0, _i1, %s == ival(select(values, j)))' % f_inc('j', 'nbits_diff')],
                                modifies=['bit_writer.bit_stream.bits', 'bit_writer.bit_stream.len'], locals={'value': VAL})},
                 ensures=col_ensures, raises={'ValueError': None}, serves=['C02', 'C05'],
                 note='compressed code / flag column: minimum, 6-bit width, differences; all ones marks exactly the missing entries'))

    def raw(j):
        c = colval(j)
        return ('(ite(Eq(scale_powered, 1), ival(%s), fround(fmul(ite(is_int(%s), i2f(ival(%s)), fval(%s)), scale_powered))) - refval)' % (c, c, c, c))
    NCOLREQ = ['state.decoded_descriptors != None', '%s != None' % ALL, '%s >= 1' % N, 'state.n_subsets == %s' % N, 'bit_writer != None',
               '0 <= state.idx_value', 'forall(j, 0, %s, state.idx_value < len(select(%s, j)))' % (N, ALL),
               # values conform to the field: None, or a number whose raw integer is representable (0 .. 2**62)
               'forall(j, 0, %s, is_none(%s) or ((is_int(%s) or is_flt(%s)) and implies(Eq(scale_powered, 1), is_int(%s))))'
               % ((N,) + ('select(select(%s, j), state.idx_value)' % ALL,) * 4),
               'forall(j, 0, %s, implies(not is_none(%s), 0 <= %s and %s < pow2(62)))'
               % (N, 'select(select(%s, j), state.idx_value)' % ALL, raw('j').replace(K0, 'state.idx_value'), raw('j').replace(K0, 'state.idx_value'))]
    ncol_ensures = [
        'len(state.decoded_descriptors) == %s + 1' % L0, 'select(state.decoded_descriptors, %s) is descriptor' % L0,
        'state.idx_value == %s + 1' % K0, 'unchanged(state, "idx_value")',
        'prefix_same(%s, old(%s), %s)' % (BITS, BITS, P0),
        '(%s == 0) == %s' % (F_W, AGREE),
        'wlen(bit_writer) == %s + %s * %s' % (P1, N, F_W),
        'implies(%s, %s == pow2(nbits_min_value) - 1)' % (ALLMISS, F_MIN),
        'implies(not %s, forall(j, 0, %s, implies(not is_none(%s), %s <= %s)))' % (ALLMISS, N, colval('j'), F_MIN, raw('j')),
        'implies(%s and not %s, %s == %s)' % (AGREE, ALLMISS, F_MIN, raw('0')),
        'implies(%s != 0, forall(j, 0, %s, ite(is_none(%s), %s == pow2(%s) - 1, %s + %s == %s and %s != pow2(%s) - 1)))'
        % (F_W, N, colval('j'), f_inc('j'), F_W, F_MIN, f_inc('j'), raw('j'), f_inc('j'), F_W)]

    def scaled_invs(k):
        return ['len(values) == %s' % N, 'fresh(values)',
                'forall(j, 0, %s, ite(is_none(%s), is_none(select(values, j)), is_int(select(values, j)) and ival(select(values, j)) == %s))'
                % (k, colval('j'), raw('j')),
                'forall(j, %s, %s, val_eq(select(values, j), %s))' % (k, N, colval('j'))]

    def diff_invs(k):
        return ['len(values) == %s' % N, 'fresh(values)',
                'forall(j, 0, %s, is_int(select(values, j)) and ival(select(values, j)) == ite(is_none(%s), pow2(nbits_diff) - 1, %s - ival(min_value)))'
                % (k, colval('j'), raw('j')),
                'forall(j, %s, %s, ite(is_none(%s), is_none(select(values, j)), is_int(select(values, j)) and ival(select(values, j)) == %s))'
                % (k, N, colval('j'), raw('j'))]
    add(Contract(M + 'Encoder.process_numeric_compressed',
                 {'self': ENC, 'state': S, 'bit_writer': W, 'descriptor': DESC, 'nbits_min_value': INT, 'scale_powered': FLOAT, 'refval': INT},
                 requires=NCOLREQ + ['1 <= nbits_min_value <= 64'], modifies=COLMOD,
                 locals={'values': ListT(VAL), 'min_value': VAL, 'max_value': VAL, 'value': VAL},
                 loops={0: Loop(invariants=scaled_invs('_i0'), modifies=['list(values)'], locals={'value': VAL, 'idx': INT}),
                        1: Loop(invariants=diff_invs('_i1') + ['1 <= nbits_diff <= 64', 'is_int(min_value)', 'is_int(max_value)',
                                                               'ival(max_value) - ival(min_value) <= pow2(nbits_diff) - 2',
                                                               'forall(j, 0, %s, implies(not is_none(%s), ival(min_value) <= %s and %s <= ival(max_value)))'
                                                               % (N, colval('j'), raw('j'), raw('j'))],
                                modifies=['list(values)'], locals={'value': VAL, 'idx': INT}),
                        2: Loop(invariants=['wlen(bit_writer) == %s + _i2 * nbits_diff' % P1, '1 <= nbits_diff <= 64',
                                            '%s == nbits_diff' % F_W, '%s == ival(min_value)' % F_MIN,
                                            'prefix_same(%s, old(%s), %s)' % (BITS, BITS, P0),
                                            'forall(j, 0, _i2, %s == ival(select(values, j)))' % f_inc('j', 'nbits_diff')],
                                modifies=['bit_writer.bit_stream.bits', 'bit_writer.bit_stream.len'], locals={'value': VAL})},
                 ensures=ncol_ensures, raises={'ValueError': None}, serves=['C02', 'C03', 'C05'],
                 note='compressed numeric column: scaled raws, minimum, 6-bit width, differences; all ones marks exactly the missing entries; '
                      'width 0 exactly when all subsets agree'))

    # ------------------------------------------------------------------------------------------------------------
    DALL, VALL, LALL = 'state.decoded_descriptors_all_subsets', 'state.decoded_values_all_subsets', 'state.bitmap_links_all_subsets'
    MSG_C = 'oval(bufr_message._is_compressed.value)'
    MSG_N = 'ival(bufr_message._n_subsets.value)'
    WALK_MOD = ['state.*', 'elems_of(%s)' % DALL, 'elems_of(%s)' % VALL, 'elems_of(%s)' % LALL]
    WALK_ERR = {'PyBufrKitError': None, 'AssertionError': None, 'NotImplementedError': None, 'ValueError': None, 'StopIteration': None,
                'IndexError': None, 'TypeError': None, 'KeyError': None, 'AttributeError': None, 'IOError': None, 'OSError': None}
    add(Contract(M + 'Encoder.process_template_data',
                 {'self': ENC, 'bufr_message': Ref('BufrMessage'), 'bit_writer': W, 'section_parameter': Ref('SectionParameter')},
                 requires=['bufr_message != None', 'section_parameter != None', 'bufr_message._is_compressed != None', 'bufr_message._n_subsets != None',
                           'is_bool(bufr_message._is_compressed.value)', 'is_int(bufr_message._n_subsets.value)', '%s >= 1' % MSG_N,
                           'is_ref(section_parameter.value)', 'refof(section_parameter.value) > 0',
                           'len(aslist_vv(section_parameter.value)) == %s' % MSG_N],
                 modifies=['bufr_message.table_group_key', 'section_parameter.value', 'elems_of(aslist_vv(section_parameter.value))'],
                 loops={0: Loop(invariants=['state != None', 'state is entry(state)', 'gh(state, "walks") == entry(gh(state, "walks")) + _i0',
                                            'not state.is_compressed', 'state.n_subsets == %s' % MSG_N,
                                            'len(%s) == %s' % (DALL, MSG_N), 'len(%s) == %s' % (VALL, MSG_N), 'len(%s) == %s' % (LALL, MSG_N),
                                            '%s is entry(%s)' % (DALL, DALL), '%s is entry(%s)' % (VALL, VALL), '%s is entry(%s)' % (LALL, LALL)],
                                modifies=WALK_MOD)},
                 ensures=['is_ref(section_parameter.value)', 'asref(refof(section_parameter.value), "TemplateData").is_compressed == %s' % MSG_C,
                          # the value lists handed in are the ones the template data carries: used as they are
                          'asref(refof(section_parameter.value), "TemplateData").decoded_values_all_subsets is old(aslist_vv(section_parameter.value))'],
                 raises=WALK_ERR, serves=['C02', 'C06'],
                 note='encoder driver: state built from the message\'s flag / count and the given value lists; per subset a context switch, '
                      'the value cursor at 0, and one walk'))
