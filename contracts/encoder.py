"""Contracts for pybufrkit/encoder.py (C02, C03, C05)."""
from pyvc.ty import *
from pyvc.contract import Contract, Loop
from contracts.classes import DESC

M = 'pybufrkit.encoder.'


def register(reg):
    add = reg.add
    add(Contract(M + 'nbits_for_uint', {'x': INT}, returns=INT,
                 requires=['1 <= x', 'x < pow2(63)'],
                 ensures=['result >= 1', 'result <= 64',
                          # every difference 0 .. x - 1 fits and none of them is the all-ones pattern of the width chosen
                          'x - 1 <= pow2(result) - 2'],
                 serves=['C02', 'C05'], harness='pure_int',
                 note='difference width reserves all ones for missing (the width need not be minimal)'))
