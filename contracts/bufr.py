"""Contracts for pybufrkit/bufr.py: subsetting (C10), section offsets and metadata-only configuration (C04, C17)."""
from pyvc.ty import *
from pyvc.contract import Contract, Loop

M = 'pybufrkit.bufr.'
MSG = Ref('BufrMessage')
SEC = Ref('BufrSection')
PAR = Ref('SectionParameter')
TD = 'template_data'


def register(reg):
    register_sections(reg)
    add = reg.add
    LL = ListT(ListT(VAL))
    from pyvc.engine import BITS
    # the selection made by `[v for i, v in enumerate(all_subsets) if i in subset_indices]`, stated over its index maps
    reg.define('sel_sound', {'sel': LL, 'src': LL, 'idx': BITS, 'want': ListT(INT)},
               'forall(k, 0, len(sel), 0 <= at(idx, k) and at(idx, k) < len(src) and '
               'exists(m, 0, len(want), select(want, m) == at(idx, k)) and select(sel, k) is select(src, at(idx, k)))',
               note='every selected entry is the value list of a subset whose index was asked for')
    reg.define('sel_sorted', {'idx': BITS, 'n': INT}, 'forall(k, 0, n, forall(k2, k + 1, n, at(idx, k) < at(idx, k2)))',
               note='in increasing subset order, hence each subset at most once')
    reg.define('sel_complete', {'sel': LL, 'src': LL, 'idx': BITS, 'inv': BITS, 'want': ListT(INT)},
               'forall(i, 0, len(src), implies(exists(m, 0, len(want), select(want, m) == i), '
               '0 <= at(inv, i) and at(inv, i) < len(sel) and at(idx, at(inv, i)) == i))',
               note='every subset asked for is selected')
    # ---- C10: BufrMessage.subset ---------------------------------------------------------------------------------------
    I_ = 'subset_indices'
    N = 'ival(self._n_subsets.value)'
    OUT_OF_RANGE = '(exists(k, 0, len(%s), select(%s, k) >= %s) or exists(k, 0, len(%s), select(%s, k) < 0))' % (I_, I_, N, I_, I_)
    S = 'self.sections'

    def par(a, q):
        return 'select(select(%s, %s)._params, %s)' % (S, a, q)

    def rules(cell, p, extra=''):
        """what the result holds in the slot of parameter p (a list of clauses, each proved on its own): the data section becomes
        the list of the selected subsets' value lists -- the very lists of the source, in increasing subset order, each selected
        subset exactly once --, the subset count becomes the number of DISTINCT indices, every other parameter keeps its value"""
        src = 'asref(refof(%s.value), "TemplateData").decoded_values_all_subsets' % p
        sel = 'aslist_vv(%s)' % cell
        istd = '%s.type == "%s"' % (p, TD)
        idx, inv = 'lc_map(%s, "lc_idx")' % sel, 'lc_map(%s, "lc_inv")' % sel
        data = ['is_ref(%s) and %s != None and fresh(%s)' % (cell, sel, sel)] + ([extra] if extra else []) + [
            'sel_sound(%s, %s, %s, %s)' % (sel, src, idx, I_), 'sel_sorted(%s, len(%s))' % (idx, sel),
            'sel_complete(%s, %s, %s, %s, %s)' % (sel, src, idx, inv, I_)]
        out = ['implies(%s, %s)' % (istd, d) for d in data]
        out.append('implies(not %s and %s.name == "n_subsets", is_int(%s) and ival(%s) == ndistinct(%s))' % (istd, p, cell, cell, I_))
        out.append('implies(not %s and %s.name != "n_subsets", val_eq(%s, %s.value))' % (istd, p, cell, p))
        return out

    def wf_param(p):
        return ('implies(%s.type == "%s", is_ref(%s.value) and refof(%s.value) > 0 and isinst(asref(refof(%s.value), "TemplateData"), "TemplateData") '
                'and asref(refof(%s.value), "TemplateData").decoded_values_all_subsets != None)' % (p, TD, p, p, p, p))
    add(Contract(M + 'BufrMessage.subset', {'self': MSG, 'subset_indices': ListT(INT)}, returns=ListT(ListT(VAL)),
                 requires=['self._n_subsets != None', 'is_int(self._n_subsets.value)', 'len(%s) >= 1' % I_,
                           'forall(a, 0, len(%s), forall(q, 0, len(select(%s, a)._params), %s))' % (S, S, wf_param(par('a', 'q')))],
                 modifies=[],
                 must_raise=[('PyBufrKitError', OUT_OF_RANGE)], raises={'PyBufrKitError': OUT_OF_RANGE},
                 locals={'data': ListT(ListT(VAL)), 'section_data': ListT(VAL)},
                 loops={0: Loop(invariants=['data != None', 'fresh(data)', 'len(data) == _i0',
                                            'forall(a, 0, _i0, select(data, a) != None and fresh(select(data, a)) and '
                                            'len(select(data, a)) == len(select(%s, a)._params))' % S] +
                                           ['forall(a, 0, _i0, forall(q, 0, len(select(%s, a)._params), %s))' % (S, r)
                                            for r in rules('select(select(data, a), q)', par('a', 'q'), 'aslist_vv(select(select(data, a), q)) is not data')],
                                modifies=['list(data)'],
                                locals={'section': SEC, 'section_data': ListT(VAL), 'parameter': PAR}),
                        1: Loop(invariants=['section_data != None', 'fresh(section_data)', 'len(section_data) == _i1', 'section_data is not data',
                                            'forall(a, 0, len(data), select(data, a) is not section_data)',
                                            'forall(q, 0, len(section._params), %s)' % wf_param('select(section._params, q)'),
                                            ] + ['forall(q, 0, _i1, %s)' % r
                                                 for r in rules('select(section_data, q)', 'select(section._params, q)', 'aslist_vv(select(section_data, q)) is not data')],
                                modifies=['list(section_data)'],
                                locals={'parameter': PAR})},
                 ensures=['result != None', 'fresh(result)', 'len(result) == len(%s)' % S,
                          'forall(a, 0, len(%s), select(result, a) != None and len(select(result, a)) == len(select(%s, a)._params))' % (S, S)] +
                         ['forall(a, 0, len(%s), forall(q, 0, len(select(%s, a)._params), %s))' % (S, S, r)
                          for r in rules('select(select(result, a), q)', par('a', 'q'))],
                 serves=['C10'],
                 note='refuses an index outside 0..n-1; data section = the selected subsets in increasing order, each once (index maps of the '
                      'selection as ghosts); n_subsets = number of distinct indices; everything else identical; the source message is not written'))


def register_sections(reg):
    """BufrSection.get_parameter_offset (C04): where a parameter starts inside its section"""
    add = reg.add
    P = 'self._params'
    add(Contract(M + 'BufrSection.get_parameter_offset', {'self': SEC, 'parameter_name': STR}, returns=INT,
                 requires=['self != None', 'self._params != None',
                           # parameter names are the keys of the section's namespace: pairwise distinct
                           'forall(q, 0, len(%s), forall(q2, q + 1, len(%s), select(%s, q).name != select(%s, q2).name))' % (P, P, P, P)],
                 modifies=[],
                 loops={0: Loop(invariants=['nbits_offset == poff(self, _i0)',
                                            'forall(q, 0, _i0, select(%s, q).name != parameter_name)' % P],
                                locals={'parameter': PAR})},
                 ensures=['phas(self, parameter_name)',
                          # the offset is the total width of the parameters that precede it
                          'result == poff(self, pindex(self, parameter_name))'],
                 raises={'PyBufrKitError': 'not phas(self, parameter_name)'},
                 must_raise=[('PyBufrKitError', 'not phas(self, parameter_name)')],
                 serves=['C04'], note='bit offset of a parameter = sum of the widths of the parameters before it; unknown name refused'))


# ---- section layouts (the JSON definition files) as static facts about a configured section -------------------------------------
# Every fact below is checked concretely against /repo/pybufrkit/definitions/*.json on every run (ground obligation
# `definitions#layout` in classes.ground_checks); configuration transformers only truncate the parameter list or clear `expected`.
TYPES = ('uint', 'int', 'bool', 'bin', 'bytes', 'unexpanded_descriptors', 'template_data')


def layout(sec='section'):
    P = '%s._params' % sec

    def p(q):
        return 'select(%s, %s)' % (P, q)
    first_len = 'len(%s) >= 1 and select(%s, 0).name == "section_length"' % (P, P)
    return ['%s != None' % sec, '%s != None' % P,
            'forall(q, 0, len(%s), %s)' % (P, ' or '.join('%s.type == "%s"' % (p('q'), t) for t in TYPES)),
            'forall(q, 0, len(%s), implies(%s.type == "uint", 1 <= %s.nbits and %s.nbits <= 64))' % (P, p('q'), p('q'), p('q')),
            'forall(q, 0, len(%s), implies(%s.type == "int", 2 <= %s.nbits and %s.nbits <= 64))' % (P, p('q'), p('q'), p('q')),
            'forall(q, 0, len(%s), implies(%s.type == "bool", %s.nbits == 1))' % (P, p('q'), p('q')),
            'forall(q, 0, len(%s), implies(%s.type == "bytes" or %s.type == "bin", %s.nbits >= 0))' % (P, p('q'), p('q'), p('q')),
            # parameter names are the keys of the section's namespace: pairwise distinct
            'forall(q, 0, len(%s), forall(q2, q + 1, len(%s), %s.name != %s.name))' % (P, P, p('q'), p('q2')),
            # a length field, when there is one, comes first and is a 24-bit unsigned integer
            'forall(q, 0, len(%s), implies(%s.name == "section_length", q == 0 and %s.type == "uint" and %s.nbits == 24))' % (P, p('q'), p('q'), p('q')),
            # at most one parameter stands for the template data
            'forall(q, 0, len(%s), forall(q2, q + 1, len(%s), not (%s.type == "template_data" and %s.type == "template_data")))' % (P, P, p('q'), p('q2')),
            # parameters that extend to the end of the section need the declared length
            'forall(q, 0, len(%s), implies(%s.nbits == 0 or %s.type == "unexpanded_descriptors", %s))' % (P, p('q'), p('q'), first_len)]


def check_layouts(repo):
    """the layout facts above, evaluated on every definition file -> (ok, detail)"""
    import glob
    import json
    import os
    bad = []
    files = sorted(glob.glob(os.path.join(repo, 'pybufrkit', 'definitions', 'section*.json')))
    for f in files:
        d = json.load(open(f))
        ps = d['parameters']
        names = [x['name'] for x in ps]
        for q, x in enumerate(ps):
            t, nb = x['type'], x['nbits']
            ok = (t in TYPES and (t != 'uint' or 1 <= nb <= 64) and (t != 'int' or 2 <= nb <= 64) and (t != 'bool' or nb == 1)
                  and (t not in ('bytes', 'bin') or nb >= 0) and (t != 'bytes' or nb % 8 == 0)
                  and (x['name'] != 'section_length' or (q == 0 and t == 'uint' and nb == 24))
                  and (not (nb == 0 or t == 'unexpanded_descriptors') or names[0] == 'section_length')
                  and (x['name'] != 'length' or (t == 'uint' and nb == 24)))
            if not ok:
                bad.append('%s: parameter %s' % (os.path.basename(f), x['name']))
        if sum(1 for x in ps if x['type'] == 'template_data') > 1:
            bad.append('%s: more than one template_data parameter' % os.path.basename(f))
        if any(x['type'] == 'template_data' for x in ps) and any(x['name'] in ('is_compressed', 'n_subsets') for x in ps):
            bad.append('%s: the data section redefines is_compressed / n_subsets' % os.path.basename(f))
        if len(set(names)) != len(names):
            bad.append('%s: duplicate parameter names' % os.path.basename(f))
        if not isinstance(d.get('index'), int):
            bad.append('%s: index' % os.path.basename(f))
    return (not bad and len(files) >= 6), ('%d definition files satisfy the layout facts assumed of configured sections' % len(files)
                                          if not bad else '; '.join(bad))
