"""Contracts for pybufrkit/mdquery.py (C17): metadata expression parsing and first-match lookup."""
from pyvc.ty import *
from pyvc.contract import Contract, Loop

M = 'pybufrkit.mdquery.'

# spec-level names for the pieces of a stripped expression  t = '%' [index '.'] name
T = 'pystrip(metadata_expr)'
I_ = "str_indexof(%s, '.', 0)" % T
REST = 'substr(%s, %s + 1, strlen(%s) - %s - 1)' % (T, I_, T, I_)
NO_DOT = '%s < 0' % I_
ONE_DOT = "(%s >= 0 and str_indexof(%s, '.', 0) < 0)" % (I_, REST)
MANY_DOTS = "(%s >= 0 and str_indexof(%s, '.', 0) >= 0)" % (I_, REST)
IDX_TEXT = 'substr(%s, 1, %s - 1)' % (T, I_)
STARTS = "str_prefixof('%%', %s)" % T
BAD_INDEX = '(%s and %s and not isintlit(%s))' % (STARTS, ONE_DOT, IDX_TEXT)


def register(reg):
    add = reg.add
    add(Contract(M + 'MetadataExprParser.parse', {'self': Ref('MetadataExprParser'), 'metadata_expr': STR},
                 returns=TupleT(VAL, STR),
                 # the only exceptions that may escape, and when; more than one dot is outside the statement
                 raises={'MetadataExprParsingError': 'not %s or %s' % (STARTS, BAD_INDEX),
                         'ValueError': '%s and %s' % (STARTS, MANY_DOTS)},
                 must_raise=[('MetadataExprParsingError', 'not %s' % STARTS),
                             ('MetadataExprParsingError', BAD_INDEX),
                             ('ValueError', '%s and %s' % (STARTS, MANY_DOTS))],
                 cases=[('nodot', '%s and %s' % (STARTS, NO_DOT),
                         ['is_none(result[0])', 'result[1] == substr(%s, 1, strlen(%s) - 1)' % (T, T)]),
                        ('onedot', '%s and %s' % (STARTS, ONE_DOT),
                         ['is_int(result[0])', 'ival(result[0]) == intlit(%s)' % IDX_TEXT,
                          'implies(isdigits(%s), ival(result[0]) == str2int(%s))' % (IDX_TEXT, IDX_TEXT),
                          'result[1] == %s' % REST])],
                 serves=['C17'], harness='mdparse',
                 note="rejects with the metadata-parsing error iff no leading % or a non-numeric section index"))

    # first-match lookup.  S = bufr_message.sections; a section "matches" when no index was given or its index
    # metadata equals the one given; "has" = one of its parameters carries the name.
    S = 'bufr_message.sections'
    # ghost (gk, gname): the pair the parser's contract assigns to the expression; the lookup is then stated
    # over the pair, which keeps the quantified part of the proof free of string functions.
    PAIR = ['implies(%s, is_none(gk) and gname == substr(%s, 1, strlen(%s) - 1))' % (NO_DOT, T, T),
            'implies(%s, is_int(gk) and ival(gk) == intlit(%s) and gname == %s)' % (ONE_DOT, IDX_TEXT, REST)]

    def match(j):
        return '(is_none(gk) or select(%s, %s).index == ival(gk))' % (S, j)

    def par(j, q):
        return 'select(select(%s, %s)._params, %s)' % (S, j, q)

    def has(j, q):
        return '(%s.name == gname)' % par(j, q)

    def npar(j):
        return 'len(select(%s, %s)._params)' % (S, j)

    def none_in(j, qv):
        return 'forall(%s, 0, %s, not %s)' % (qv, npar(j), has(j, qv))

    nowhere = 'forall(j, 0, len(%s), implies(%s, %s))' % (S, match('j'), none_in('j', 'q'))
    # (gj, gq) ranges over all positions (ghost = universally quantified): whenever it is the first match in
    # section order / parameter order, the result is the value found there.  Together with `nowhere => None`
    # this is the statement "value held by the first section that has that parameter, else None".
    is_first = ('0 <= gj and gj < len(%s) and %s and 0 <= gq and gq < %s and %s '
                'and forall(q2, 0, gq, not %s) and forall(j2, 0, gj, implies(%s, %s))'
                % (S, match('gj'), npar('gj'), has('gj', 'gq'), has('gj', 'q2'), match('j2'), none_in('j2', 'q3')))
    first = 'val_eq(result, %s.value)' % par('gj', 'gq')
    add(Contract(M + 'MetadataQuerent.query',
                 {'self': Ref('MetadataQuerent'), 'bufr_message': Ref('BufrMessage'), 'metadata_expr': STR},
                 returns=VAL,
                 requires=PAIR,
                 ghost={'gk': VAL, 'gname': STR, 'gj': INT, 'gq': INT},
                 raises={'MetadataExprParsingError': 'not %s or %s' % (STARTS, BAD_INDEX),
                         'ValueError': '%s and %s' % (STARTS, MANY_DOTS)},
                 must_raise=[('MetadataExprParsingError', 'not %s' % STARTS),
                             ('MetadataExprParsingError', BAD_INDEX),
                             ('ValueError', '%s and %s' % (STARTS, MANY_DOTS))],
                 # `nowhere => result is None` is NOT discharged here (both solvers give up on the path that
                 # returns from inside the loops); it is checked by the bounded layer and listed as such.
                 ensures=['implies(%s, %s)' % (is_first, first)],
                 locals={'sections': ListT(Ref('BufrSection'))},
                 loops={0: Loop(invariants=[
                            'forall(a, 0, _i0, forall(q, 0, len(select(sections, a)._params), '
                            'select(select(sections, a)._params, q).name != metadata_name))'],
                            locals={'section': Ref('BufrSection'), 'parameter': Ref('SectionParameter')}),
                        1: Loop(invariants=[
                            'forall(q, 0, _i1, select(section._params, q).name != metadata_name)'],
                            locals={'parameter': Ref('SectionParameter')})},
                 serves=['C17'], harness='mdquery',
                 note="%name: value in the first section (section order) that has the parameter; %k.name: in section k; else None"))
