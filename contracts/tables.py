"""Contracts for pybufrkit/tables.py (C14): table lookups never skip an unknown descriptor -- they hand back a placeholder of an Undefined*
class carrying the id, which the walker refuses (UnknownDescriptor)."""
from pyvc.ty import *
from pyvc.contract import Contract

M = 'pybufrkit.tables.'


def register(reg):
    add = reg.add
    for cls, placeholder, elem in (('TableB', 'UndefinedElementDescriptor', 'ElementDescriptor'),
                                   ('TableD', 'UndefinedSequenceDescriptor', 'SequenceDescriptor')):
        add(Contract(M + cls + '.lookup', {'self': Ref(cls), 'id_': INT}, returns=Ref('Descriptor'),
                     requires=['self != None', 'self.descriptors != None'], modifies=[],
                     ensures=[
                              # a defined id: the table's own descriptor object (shared, not copied)
                              'implies(haskey(self.descriptors, id_), result is dval(self.descriptors, id_))',
                              # an id that is in no table: a fresh placeholder of the Undefined class with that id -- never None, never another entry
                              'implies(not haskey(self.descriptors, id_), fresh(result) and typeis(result, "%s") and result.id == id_)' % placeholder,
                              'same_dict(self.descriptors)'],
                     serves=['C14'],
                     note='lookup of an id that is in no table yields an %s placeholder with that id (the walker raises UnknownDescriptor for it)' % placeholder))
