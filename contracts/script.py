"""Contracts for pybufrkit/script.py (C18): the character state machine of process_embedded_query_expr as a step contract
(one clause per rule of the property statement), naming invariants, and the small decision functions of ScriptRunner."""
from pyvc.ty import *
from pyvc.contract import Contract, Loop

M = 'pybufrkit.script.'

C = 'str_at(input_string, old(idx_char))'
NXT = 'str_at(input_string, old(idx_char) + 1)'
J, Q = 'joined(keep)', 'joined(query_expr)'
OJ, OQ = 'old(joined(keep))', 'old(joined(query_expr))'
SAME_D = 'same_dict(substitutions) and idx_var == old(idx_var)'
ADV1 = 'idx_char == old(idx_char) + 1'
KEY = 'pystrip(old(joined(query_expr)))'


def lit_mode(q):
    """inside a literal opened by quote q only the same quote closes it; every character is kept"""
    return ('implies(old(state) == %r, %s == %s + %s and %s == %s and %s and %s and state == ite(%s == %r, "", %r))'
            % (q, J, OJ, C, Q, OQ, ADV1, SAME_D, C, q, q))


STEPS = [
    lit_mode("'"), lit_mode('"'),
    # comment: only a newline closes it; every character is kept
    'implies(old(state) == "#", %s == %s + %s and %s == %s and %s and %s and state == ite(%s == "\\n", "", "#"))'
    % (J, OJ, C, Q, OQ, ADV1, SAME_D, C),
    # code: quotes and # open their mode and are kept
    'implies(old(state) == "" and (%s == "\'" or %s == \'"\' or %s == "#"), %s == %s + %s and %s == %s and %s and %s and state == %s)'
    % (C, C, C, J, OJ, C, Q, OQ, ADV1, SAME_D, C),
    # code: $ followed by { opens an embedded expression; both characters are consumed, nothing is kept
    'implies(old(state) == "" and %s == "$" and old(idx_char) + 1 < len(input_string) and %s == "{", '
    '%s == %s and %s == %s and idx_char == old(idx_char) + 2 and %s and state == "${")' % (C, NXT, J, OJ, Q, OQ, SAME_D),
    # code: anything else is kept unchanged
    'implies(old(state) == "" and %s != "\'" and %s != \'"\' and %s != "#" and '
    'not (%s == "$" and old(idx_char) + 1 < len(input_string) and %s == "{"), '
    '%s == %s + %s and %s == %s and %s and %s and state == "")' % (C, C, C, C, NXT, J, OJ, C, Q, OQ, ADV1, SAME_D),
    # embedded: characters other than } accumulate
    'implies(old(state) == "${" and %s != "}", %s == %s and %s == %s + %s and %s and %s and state == "${")'
    % (C, J, OJ, Q, OQ, C, ADV1, SAME_D),
    # embedded: } closes it; the trimmed expression is replaced by its name: the existing one, else PBK_<count so far>
    'implies(old(state) == "${" and %s == "}" and old(haskey(substitutions, %s)), '
    '%s == %s + old(dval(substitutions, %s)) and %s == "" and %s and %s and state == "")' % (C, KEY, J, OJ, KEY, Q, ADV1, SAME_D),
    'implies(old(state) == "${" and %s == "}" and not old(haskey(substitutions, %s)), '
    '%s == %s + "PBK_" + int2str(old(idx_var)) and %s == "" and %s and state == "" and idx_var == old(idx_var) + 1 and '
    'haskey(substitutions, %s) and dval(substitutions, %s) == "PBK_" + int2str(old(idx_var)) and '
    'dsize(substitutions) == old(dsize(substitutions)) + 1)' % (C, KEY, J, OJ, Q, ADV1, KEY, KEY),
]

MODES = '(state == "" or state == "${" or state == "\'" or state == \'"\' or state == "#")'


def register(reg):
    add = reg.add
    add(Contract(M + 'process_embedded_query_expr', {'input_string': STR}, returns=TupleT(STR, DictT(STR, STR)),
                 locals={'keep': ListT(STR), 'query_expr': ListT(STR), 'substitutions': DictT(STR, STR)},
                 loops={0: Loop(invariants=[MODES, '0 <= idx_char', 'idx_var == dsize(substitutions)', 'idx_var >= 0',
                                            'query_expr != None', 'fresh(query_expr)', 'query_expr != keep'],
                                modifies=['list(keep)', 'list(query_expr)', 'dict(substitutions)'],
                                steps=STEPS,
                                locals={'c': STR, 's': STR, 'varname': STR})},
                 ensures=['fresh(result[1])'],
                 serves=['C18'], harness='script',
                 note='one step clause per rule of the statement: modes code / single-quoted / double-quoted / comment / embedded'))
