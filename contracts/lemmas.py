"""Lemmas over the contracts (pure formulas, discharged like any obligation): the column inverse of C05 (decoder rule o encoder
post == identity, for every legal difference width) and the quantisation lemmas of C03 (over the reals, assumption L4)."""
from pyvc.ty import *
from pyvc.contract import Contract


def register(reg):
    add = reg.add
    # ---- C05: what the decoder's column rule makes of fields that satisfy the encoder's column postcondition -------------
    # n field width, mn minimum field, w width field, inc the difference field of subset j; raw_j / miss_j the given entry;
    # agree: all subsets carry the same value; allmiss: all entries missing
    MNM = '(n > 1 and mn == pow2(n) - 1)'
    DEC_NONE = '(%s or (w != 0 and inc == pow2(w) - 1))' % MNM                    # decoder: the entry reads as missing
    DEC_RAW = 'ite(w == 0, mn, mn + inc)'                                         # decoder: raw value of a present entry
    add(Contract('lemma.C05.column_inverse',
                 {'n': INT, 'mn': INT, 'w': INT, 'inc': INT, 'raw': INT, 'miss': BOOL, 'agree': BOOL, 'allmiss': BOOL},
                 lemma=True,
                 requires=['1 <= n <= 64', '0 <= w <= 64', '0 <= mn', 'mn < pow2(n)',
                           # the given column conforms to the field: raws 0 .. 2**n - 2; a missing entry needs a field wider than one bit
                           'implies(not miss, 0 <= raw and raw <= pow2(n) - 2)', 'implies(miss, n > 1)', 'implies(allmiss, miss)',
                           # encoder postcondition (contracts/encoder.py), instantiated at one subset
                           '(w == 0) == agree',
                           'implies(allmiss, mn == pow2(n) - 1)',
                           'implies(not allmiss, mn <= pow2(n) - 2)',
                           'implies(agree and not allmiss, not miss and raw == mn)',
                           'implies(agree and allmiss, miss)',
                           'implies(w != 0, ite(miss, inc == pow2(w) - 1, mn + inc == raw and inc != pow2(w) - 1))',
                           'implies(w != 0, 0 <= inc and inc < pow2(w))'],
                 ensures=['%s == miss' % DEC_NONE, 'implies(not miss, %s == raw)' % DEC_RAW],
                 serves=['C05'], note='the decoder reads back exactly the column the encoder was given, for EVERY legal width w'))
    # any legal width: the decoder does not depend on the encoder's particular choice of w
    add(Contract('lemma.C05.any_legal_width',
                 {'n': INT, 'mn': INT, 'w': INT, 'inc': INT, 'raw': INT, 'miss': BOOL, 'mx': INT},
                 lemma=True,
                 requires=['1 <= n <= 64', '1 <= w <= 64', '0 <= mn', 'mn <= raw or miss', 'raw <= mx', 'mx - mn <= pow2(w) - 2', 'mn <= pow2(n) - 2',
                           'implies(miss, n > 1)', 'inc == ite(miss, pow2(w) - 1, raw - mn)'],
                 ensures=['%s == miss' % DEC_NONE.replace(MNM, 'False'), 'implies(not miss, mn + inc == raw)'],
                 serves=['C05'], note='every width that can hold max - min without colliding with all ones is read back correctly'))
    # ---- C03: quantisation (reals) -----------------------------------------------------------------------------------------
    add(Contract('lemma.C03.half_unit', {'v': REAL, 'sp': REAL, 'R': INT, 'ref': INT},
                 lemma=True,
                 requires=['sp > 0', 'abs(R - v * sp) * 2 <= 1'],
                 ensures=['abs(((R - ref) + ref) / sp - v) * 2 * sp <= 1'],
                 serves=['C03'], note='R = round(v * 10**s): the value read back, (raw + ref) / 10**s with raw = R - ref, is within half a unit of the last digit'))
    add(Contract('lemma.C03.exact_on_grid', {'sp': REAL, 'raw': INT, 'ref': INT, 'R': INT},
                 lemma=True,
                 requires=['sp > 0', 'abs(R - ((raw + ref) / sp) * sp) * 2 <= 1'],
                 ensures=['R - ref == raw'],
                 serves=['C03'], note='a value that came from a decoder, (raw + ref) / 10**s, re-encodes to the same raw: decode / encode is a fixpoint field by field'))
    add(Contract('lemma.C03.refusal', {'raw': INT, 'n': INT},
                 lemma=True,
                 requires=['1 <= n <= 64', 'raw < 0 or raw >= pow2(n)'],
                 ensures=['not (0 <= raw and raw < pow2(n))'],
                 serves=['C03'], note='a raw integer outside the field meets the refusal condition of write_uint / process_numeric_uncompressed (must_raise)'))
