"""Per-property configuration of the check driver: claimed level, bounded script, trusted base."""

L = {
    'L1': 'L1 int is mathematical; // and % are floor for positive literal divisors',
    'L2': 'L2 bin(x): len(bin(x)[2:]) == bitlen(x), count of ones == popcount(x), popcount == bitlen iff x == 2^bitlen - 1 (1 <= x < 2^64)',
    'L3': 'L3 int(str) accepts [-]digits with their value; round = nearest integer',
    'L4': 'L4 float *, /, 10**s are uninterpreted in code obligations; reals only in quantisation lemmas',
    'L5': 'L5 str/bytes operations as SMT strings; latin-1 encode/decode is the identity on code points < 256',
    'L6': 'L6 list / dict models: (length, array) per reference, exact aliasing',
    'L7': 'L7 bitstring 4.4 model spec/bitmodel.py (validated by the conformance run of the bounded layer, not proved)',
    'CW': 'closed world: BitStringBitReader / BitStringBitWriter are the only BitReader / BitWriter implementations',
    'pow2': '2**n and NUMERIC_MISSING_VALUES[n] are a finite table over 0..64; beyond it only 2**n > 2**64 is known',
    'term': 'termination is not proved (partial correctness)',
}

PROPS = {
    'C19': dict(
        level='proof',
        bounded='C19.py',
        bounded_timeout={'quick': 900, 'thorough': 3000},
        trusted_base=[L['L1'], L['L5'], L['L7'], L['CW'], L['pow2'], L['term']],
        assumptions=['the bitstring library behaves as spec/bitmodel.py says (conformance run: every width 1..64 x offset 0..7 x '
                     'special values, bounded, not proved)',
                     'write_bytes with nbytes=None (default) is not under contract; every caller in the tree passes a width'],
        claim='Every bitops reader / writer method is proved, for all widths, values, stream contents and positions, to do to '
              'the abstract bit stream exactly what the property states (value = big-endian field, position advanced by the '
              'width, sign-magnitude ints, missing only for widths > 1, space padding / truncation, in-place overwrite frame, '
              'refusal of values that do not fit, BitReadError past the end). The abstract stream is a model of the bitstring '
              'library; that model is compared with the real library on the full grid of the quantifier (bounded part).',
        note='Trusted: the bitstring model spec/bitmodel.py (validated exhaustively on widths 1..64 x offsets 0..7 x special '
             'values, not proved), SMT encoding of Python ints / strings, finite 2**n table (0..64), partial correctness.',
        explanation='bitops wrappers proved against the abstract bit-stream model for all widths / values / positions; '
                    'the model itself is validated exhaustively over the property quantifier (bounded).',
    ),
}

BOUNDED_ONLY = ('contract-based deductive verification is the family; for this property no obligation is discharged yet: the check is the '
                'bounded stand-in only (run-time comparison of the real code with an independent FM-94 reference codec on generated and '
                'corpus inputs), labelled bounded, not counted as proved')

PROPS.update({
    'C01': dict(
        level='exploration', bounded='codec.py', bounded_timeout={'quick': 900, 'thorough': 7000},
        trusted_base=[L['L1']],
        assumptions=['oracle: bounded/refcodec.py (independent FM-94 decoder written from the rules, shares only the table files); '
                     'it agrees with the real decoder on 158 of 159 sample files (1 is the deliberately invalid one)',
                     'floating point: values compared with relative tolerance 1e-9 against exact rationals'],
        claim='Bounded: the real decoder returns, for generated templates (all operators of the quantifier) and every sample file, '
              'the values, labels and links an independent FM-94 reference decoder assigns to the same bytes.',
        note='Bounded stand-in only so far; oracle = independent reference decoder (not verified).',
        technique=BOUNDED_ONLY, explanation='bounded comparison with an independent FM-94 reference decoder'),
    'C02': dict(
        level='exploration', bounded='codec.py', bounded_timeout={'quick': 900, 'thorough': 7000},
        trusted_base=[L['L1']],
        assumptions=['oracle: bounded/refcodec.py reference encoder / reader'],
        claim='Bounded: uncompressed output is byte-identical to an independently built message; compressed output is read back by an '
              'independent reader as exactly the given raw values, all-ones marks exactly the missing entries, width 0 iff all agree.',
        note='Bounded stand-in only so far.', technique=BOUNDED_ONLY, explanation='bounded comparison with an independent encoder / reader'),
    'C03': dict(
        level='exploration', bounded='codec.py', bounded_timeout={'quick': 900, 'thorough': 7000},
        trusted_base=[L['L1'], L['L4']],
        assumptions=['IEEE doubles; exact rationals as oracle'],
        claim='Bounded: half-unit bound, exact read-back of grid values, refusal of non-fitting values (never wrapped / clipped), missing '
              'stays missing, decode/encode fixpoint on corpus and generated messages.',
        note='Bounded stand-in only so far.', technique=BOUNDED_ONLY, explanation='bounded round trips over every numeric Table B element'),
    'C05': dict(
        level='exploration', bounded='codec.py', bounded_timeout={'quick': 900, 'thorough': 7000},
        trusted_base=[L['L1']],
        assumptions=['oracle: bounded/refcodec.py'],
        claim='Bounded, exhaustive small scope: every column of <= 4 subsets over {missing, 0..2^w-2}, w <= 4, every legal difference '
              'width; random wide columns, strings; compressed vs uncompressed storage of the same data decode identically.',
        note='Bounded stand-in only so far.', technique=BOUNDED_ONLY, explanation='exhaustive small-scope columns + random + mode comparison'),
    'C17': dict(
        level='proof', bounded='C17.py', bounded_timeout={'quick': 600, 'thorough': 3000},
        trusted_base=[L['L1'], L['L3'], L['L5'], L['L6'], L['term'],
                      'BufrSection abstracted to its ordered parameter list (`_params` = `_namespace.values()`, an OrderedDict) and its '
                      'metadata attributes; lists of objects hold no None (checked at every store in verified code)'],
        assumptions=['`no matching parameter => None` of MetadataQuerent.query, the edition-specific section layouts and metadata-only '
                     'decoding (info_configuration, Decoder.process, stream scan) are checked by the bounded layer only',
                     'expressions with more than one dot are outside the statement (the code raises ValueError; left open)'],
        claim='MetadataExprParser.parse is proved to reject with MetadataExprParsingError exactly the expressions without leading % or '
              'with a non-numeric index, to return (None, name) / (int, name) otherwise and to let no other exception escape; '
              'MetadataQuerent.query is proved to return the value of the first parameter of that name in the first matching section '
              '(for every position, if it is the first match then the result is its value). The remaining clauses are bounded.',
        note='Trusted: SMT string theory for Python str (strip, startswith, split on a literal, int() of a decimal literal), the section '
             'abstraction, partial correctness. Bounded (not proved): None-when-absent, info-only decoding, stream scan.',
        explanation='parse and first-match lookup proved; metadata-only decoding bounded'),
})

def _bounded(prop, level, claim, bound_note, script='codec2.py', timeouts=None):
    PROPS[prop] = dict(level=level, bounded=script, bounded_timeout=timeouts or {'quick': 900, 'thorough': 7000},
                       trusted_base=[L['L1']],
                       assumptions=['oracle: bounded/refcodec.py (independent FM-94 reference codec and expected hierarchical view; agrees with '
                                    'the real code on the whole sample corpus); not verified itself'],
                       claim=claim, note='Bounded stand-in only so far. ' + bound_note, technique=BOUNDED_ONLY,
                       explanation=claim)


_bounded('C04', 'exploration',
         'Bounded: all data-section residues mod 32 x editions 2-4 x section 2 variants: framing (lengths, even-octet rule, zero padding, '
         'signatures) against an independently framed message; declared lengths honoured (zero fill / refusal); decoder: surplus octets, '
         'trailing bytes, sections declared shorter than their content.', 'Grid is exhaustive over residues, bounded over surplus (<= 3 octets).')
_bounded('C06', 'exploration',
         'Bounded: uncompressed multi-subset messages with subset-dependent replication counts and bitmaps: each subset alone == together == '
         'any order, for values, labels, links, hierarchical structure; templates ending inside open operator constructs included.', '')
_bounded('C07', 'exploration',
         'Bounded: links, marker labels / widths / references and the attribute placement in the hierarchical view against the reference '
         '(k-th value -> k-th zero bit), all bit patterns of bitmaps up to 4 (6) bits for 222/223/224/225/232, random chains with 236/237/235.', '')
_bounded('C08', 'exploration',
         'Bounded: compiled vs direct for decoder and encoder, cache sizes {0,1,2,50} with shuffled order and colliding top-level descriptor '
         'lists, re-loaded compiled templates; values, labels, links, bytes or error class.', 'The compiler-correctness theorem itself is not provable function by function (DESIGN C08).')
_bounded('C09', 'exploration',
         'Bounded: three conversions back to flat JSON and re-encoding to identical bytes, conservation of flat indices in the hierarchical '
         'view, expected view, on generated shapes and the corpus.', 'Text conversions use ast.literal_eval and column arithmetic: outside the verifier.')
_bounded('C10', 'exploration',
         'Bounded: subset() on generated and corpus messages x index collections (order, repeats, sparse, out of range by one): selected '
         'subsets in increasing order, distinct count, metadata unchanged, source unchanged, refusal.', '')
_bounded('C12', 'fault_enumeration',
         'Fault enumeration: every truncation point of generated / sample messages fails with the library error; streams of 2-3 messages '
         'with every kind of damage of the statement in random subsets of messages: skipped with continue_on_error, others delivered '
         'unchanged; strict mode delivers the earlier ones then raises PyBufrKitError; CLI prints no traceback.', '')

PROPS['C18'] = dict(
    level='proof', bounded='C18.py', bounded_timeout={'quick': 900, 'thorough': 3600},
    witness_map={'pybufrkit.script.process_embedded_query_expr': 'C18.lex'},
    trusted_base=[L['L1'], L['L5'], L['L6'], L['term'],
                  "''.join(list) is the concatenation of the appended pieces (ghost `joined`); 'PBK_{}'.format(n) == 'PBK_' + str(n)",
                  'composition of the per-iteration step contract into the whole-string statement is the usual induction over the '
                  'input (argued in DESIGN C18, enumerated by the bounded layer), not mechanised'],
    assumptions=['compile / exec / eval of the processed script, ScriptRunner.run, query dispatch and the nesting levels are checked '
                 'by the bounded layer only (L14)', 'escape-free literals and terminated ${...} as in the quantifier'],
    claim='The character state machine of process_embedded_query_expr is proved, for one arbitrary iteration from any reachable '
          'state, to follow exactly the rules of the statement (one step clause per rule: code / single-quoted / double-quoted / comment / '
          'embedded; what is kept, what is consumed, when a name is created or reused, PBK_<count>), with the naming invariant '
          'idx_var == number of distinct expressions. Whole-string behaviour, variable binding, metadata_only and nesting levels are bounded.',
    note='Trusted: SMT strings for Python str, list / dict models, partial correctness; induction over the string not mechanised.',
    explanation='step contract of the lexer proved; running scripts bounded')

_bounded('C11', 'exploration',
         'Bounded: streams of 0..4 valid messages (payloads containing BUFR / 7777 / embedded messages, swept total lengths) x separators x '
         'full / info-only x metadata filters of both polarities yield exactly the messages; split + concatenation reproduces them.', '',
         script='C11.py')
_bounded('C13', 'exploration',
         'Bounded sanity run: random interleavings of successful and failing decode / encode / query / render operations over a pool using more '
         'table versions than the (forced small) caches hold, related message pairs back to back; every decode equals the decode of the same '
         'bytes first in a fresh process.', 'History-independence over ALL histories needs the frame argument (DESIGN C13); this run samples histories.',
         script='C13.py')
_bounded('C14', 'exploration',
         'Bounded, exhaustive over the bundled tables (thorough: every version): every Table D entry flattens to the direct expansion of the '
         'table file with Table B attributes intact; random well-formed descriptor lists build to the FM-94 ownership tree and flatten back; '
         'unknown descriptors fail with UnknownDescriptor; version selection and fall-back.', '', script='C14.py')
_bounded('C15', 'exploration',
         'Bounded, exhaustive: every string up to length 5 (6) over the 12-letter alphabet against a reference recogniser written from the '
         'documented EBNF; print / parse round trip; derived long expressions and single-character mutations.', '', script='C15.py')
_bounded('C16', 'exploration',
         'Bounded: query == evaluation of the path over the nested JSON rendering for every existing child / attribute path x slices x subset '
         'selectors; bare IDs against the flat data; compressed == uncompressed; compiled == direct; one querent across messages.',
         'The recursive tree filter with Python slice semantics is outside the verifier (DESIGN C16).', script='C16.py')
_bounded('C20', 'exploration',
         'Bounded: streams of 1-2 NCEP table-definition messages (adding or redefining class-48 elements and sequences, incl. replication-only '
         'sequences) followed by data messages: decoded as the reference decoder does with the merged tables; each stream in a fresh process.',
         '', script='C20.py')

NOT_APPLICABLE = {}


# ---- properties whose mechanism functions are under contract (deductive part) + bounded stand-in --------------------------

DEDUCTIVE = ('contract-based deductive verification: sidecar contracts on the real functions, VCs generated from the AST (PyVC), '
             'discharged by z3/cvc5; the whole-message composition is a bounded run-time comparison with an independent reference, '
             'labelled bounded')
WALKER_TRUST = [L['L1'], L['L4'], L['L6'], L['term'],
                'interface contracts of the abstract primitives Coder.process_numeric / string / codeflag / new_refval / '
                'numeric_of_new_refval / constant (assumed at calls inside Coder; the ghost call record is definitional)',
                'lists of objects hold no None; references inside tuples denote allocated objects',
                'debug logging is off (CoderState.__init__ would otherwise wrap value lists in AuditedList)']


def _upgrade(prop, claim, note, witness, extra_assumptions=()):
    d = PROPS[prop]
    d.update(level='proof', claim=claim, note=note, technique=DEDUCTIVE, witness_map=witness,
             trusted_base=list(d.get('trusted_base', [])) + [t for t in WALKER_TRUST if t not in d.get('trusted_base', [])],
             explanation=claim)
    d['assumptions'] = list(d.get('assumptions', [])) + list(extra_assumptions)


_upgrade('C01',
         'Proved for all inputs: the bit-level readers (bitops), every operator register update of Coder.process_operator_descriptor (one case '
         'per operator 201-208, 221, 222-225 / 232, 235-237; every other register unchanged), and which primitive '
         'Coder.process_element_descriptor issues with which width / scale / reference / label (strings: 208 or nbits // 8; code / flag: '
         'nbits untouched by 201 / 202 / 207; numerics: nbits + 201 + 207, scale + 202 + 207, reference (new or table) x 207 factor; '
         'associated field of sum(204) bits first, except class 31; class-33 linking after 222000). Bounded: whole-message decoding against '
         'the independent reference decoder on generated templates and the sample corpus.',
         'Not yet under contract: the decoder primitives themselves (decoder.py), the template walk Coder.process_members and replication; '
         'their composition with the proved pieces is covered by the bounded layer only.',
         {'pybufrkit.coder.': 'C01.', 'pybufrkit.bitops.': 'C01.'},
         ['decoder.py primitives and Coder.process_members are not under contract yet (bounded only)'])
_upgrade('C02',
         'Proved for all inputs: the bit-level writers (bitops: exactly n bits, big-endian, refusal of values that do not fit, space padding / '
         'truncation) and the walker pieces shared with C01 (operator registers, element field computation). Bounded: encoder output against '
         'the independent reference encoder / reader (uncompressed byte-identical, compressed column rules).',
         'Not yet under contract: encoder.py primitives (nbits_for_uint, compressed columns); bounded only.',
         {'pybufrkit.coder.': 'C02.', 'pybufrkit.bitops.': 'C02.'},
         ['encoder.py primitives are not under contract yet (bounded only)'])
_upgrade('C06',
         'Proved for all inputs: CoderState.switch_subset_context re-establishes exactly the register state a new CoderState has (spec function '
         'registers_initial, taken from the statement "each subset is a fresh application of the template") and selects the containers of '
         'that subset; CoderState.__init__ gives compressed data ONE shared descriptor list / link map and uncompressed data pairwise '
         'distinct ones. Bounded: alone == together == any order on generated multi-subset messages.',
         'Not yet under contract: the per-subset loops of Decoder / Encoder.process_template_data and TemplateData.wire (bounded only).',
         {'pybufrkit.coder.': 'C06'},
         ['the per-subset loops in decoder.py / encoder.py / templatedata.py are bounded only'])
_upgrade('C07',
         'Proved for all inputs: Coder.process_bitmapped_descriptor / process_marker_operator_descriptor link the value to the element of the '
         'NEXT zero bit (cursor over the zero-bit selection), build a fresh marker descriptor with the operator id, and code difference '
         'statistics (225255) with width + 1 and reference -2**width; add_bitmap_link, recall_bitmap (237000), cancel_bitmap, '
         'cancel_all_back_references (235000), mark_back_reference_boundary; the 222-225 / 232 / 235 / 236 / 237 cases of the operator contract; '
         'class-33 linking in process_element_descriptor. Bounded: links and attribute placement against the reference for all bit patterns '
         'up to 4 (6) bits.',
         'Not yet under contract: build_bitmapped_descriptors (back-reference search and zero-bit selection), define_bitmap, the bitmap '
         'definition automaton, TemplateData wiring; bounded only.',
         {'pybufrkit.coder.': 'C07'},
         ['build_bitmapped_descriptors, define_bitmap, process_bitmap_definition and templatedata.py are bounded only'])


def _deductive(prop, claim, note, witness, trusted, extra_assumptions=(), level='proof'):
    d = PROPS[prop]
    d.update(level=level, claim=claim, note=note, technique=DEDUCTIVE, witness_map=witness,
             trusted_base=list(trusted), explanation=claim)
    d['assumptions'] = list(d.get('assumptions', [])) + list(extra_assumptions)


STR_TRUST = [L['L1'], L['L3'], L['L5'], L['L6'], L['term']]

_deductive('C15',
           'Proved for all inputs: one arbitrary iteration of the character loop of NodePathParser.parse, from any register state satisfying the '
           'invariant, does exactly what the documented grammar dictates for that (state, character) pair -- one step clause per rule: whitespace '
           'ignored; @ only at the start; [ only after @ or a non-empty ID; : and ] only inside an open slice, [] rejected; separators close the '
           'subset selector or the pending component (nothing dropped) and the first separator is / or >; other characters accumulate -- and may '
           'leave by PathExprParsingError only where the grammar has no successor or a slice element is not an integer (raise-step clause); the '
           'end of input accepts exactly "inside a non-empty ID" and "after a closed slice" and appends the pending component; no other exception '
           'class can escape (every implicit IndexError / TypeError / ValueError / AssertionError site is an obligation); slice objects are the '
           'Python-style ones (none -> [::], k >= 0 -> k, k < 0 -> slice(k, k+1 or None), 2-3 elements -> slice(*), more -> rejected); '
           'slice_to_str prints an index as [k] and a slice as [a:b:c] with only absent parts empty. Bounded: whole-string behaviour (induction '
           'over the string not mechanised), print / parse round trip.',
           'Trusted: SMT strings for Python str, int() model L3 (decimal literals accepted with their value, the empty string rejected, everything else '
           'open), slice objects as immutable records, lenient reading of <descriptor_id>. Bounded (not proved): composition of the step contract '
           'over the whole string; NodePath.__str__ over all components; parse(str(p)) == p.',
           {'pybufrkit.dataquery.': 'C15.'},
           STR_TRUST + ['Python slice objects are immutable records (start, stop, step); slice(*l) takes 1..3 arguments',
                        'composition of the per-iteration step contract into the whole-string statement is the usual induction over the input '
                        '(enumerated by the bounded layer for all strings up to length 5 / 6), not mechanised'],
           ['<descriptor_id> alphabet: lenient reading (any character other than @ [ ] : / . > and whitespace), fail-fast on the first character as the '
            'repository tests require'])

_deductive('C10',
           'Proved for all inputs (any section layout, any number of subsets, any non-empty index list): BufrMessage.subset refuses with '
           'PyBufrKitError exactly when some index is outside 0..n-1; otherwise the result has one row per section and one slot per parameter, '
           'the data-section slot holds the value lists of the selected subsets -- the very list objects of the source, every selected entry is '
           'a subset that was asked for, in strictly increasing subset order (hence each at most once), and every subset asked for is present --, '
           'the n_subsets slot holds the number of DISTINCT indices, every other slot holds the source value unchanged, and nothing reachable '
           'from the source message is written (frame). Bounded: encode / decode of the subset message on generated and corpus messages.',
           'Trusted: list / dict models, len(set(l)) as the number of distinct elements (characterised: <= len, >= 1 when non-empty, < len iff a '
           'duplicate exists), the index maps of the list comprehension as ghosts of its result. Bounded (not proved): that the encoder turns the '
           'returned rows into a message that decodes to the selected subsets (composition with C02 / C03 / C05).',
           {'pybufrkit.bufr.BufrMessage.subset': 'C10'},
           [L['L1'], L['L6'], L['term'],
            'len(set(l)) for a list of ints: number of distinct elements, characterised by 0 <= nd <= len, nd >= 1 when non-empty, nd < len iff two '
            'positions hold equal values',
            'filter comprehension = strictly increasing index map onto exactly the positions that pass the filter (engine model, DESIGN 3.2)',
            'BufrSection abstracted to its ordered parameter list; SectionParameter.value of the data section is a TemplateData object'],
           ['subset_indices is a non-empty list of ints (as in the quantifier); a set / tuple argument is not covered by the contract'])

CODEC_TRUST = [L['L1'], L['L4'], L['L6'], L['L7'], L['pow2'], L['term'],
               'lists of objects hold no None; the value lists of the subsets are pairwise distinct objects (CoderState.__init__, proved)']

_deductive('C03',
           'Proved for all inputs: Encoder.process_numeric_uncompressed writes exactly one field of nbits bits holding round(value * 10**scale) - reference '
           '(all ones for None) and hands that integer to write_uint UNMODIFIED -- no modulo, no clamp on any path -- and write_uint refuses (raises, '
           'appends nothing) every integer outside 0 .. 2**nbits - 1 (must-raise clauses); Decoder.process_numeric_uncompressed returns '
           '(raw + reference) / 10**scale, None exactly for all ones of a width above 1; Encoder.process_numeric_compressed range-checks the minimum '
           'the same way. Lemmas over these contracts (reals): half-unit bound |decode(encode(v)) - v| <= 1 / (2 * 10**scale); a value that came from a '
           'decoder re-encodes to the same raw (field-wise fixpoint); a raw outside the field meets the refusal condition. Bounded: IEEE doubles on '
           'every numeric Table B element, message-level fixpoints on corpus and generated messages, flat JSON carrying the values unchanged.',
           'Trusted: float *, / and 10**s are uninterpreted in the code obligations and the lemmas are over the reals (L4) -- IEEE rounding is covered '
           'by the bounded layer only; bitstring model L7. Not under contract: renderer.FlatJsonRenderer, utils.EntityEncoder, message-level fixpoint '
           '(bounded only).',
           {'pybufrkit.encoder.': 'C03', 'pybufrkit.decoder.': 'C03', 'pybufrkit.bitops.': 'C03'},
           CODEC_TRUST,
           ['machine floats treated as reals in the three quantisation lemmas (bounded check in doubles stands beside them)',
            'flat JSON rendering and the message-level decode / encode fixpoint are checked by the bounded layer only'])

_deductive('C05',
           'Proved for all inputs (any number of subsets, any width 1..64): the three decoder column readers (numeric, code / flag, string) return per '
           'subset exactly the FM-94 column value -- missing minimum => all missing; width 0 => every subset the minimum; an all-ones difference => '
           'missing (this includes 1-bit differences); else minimum + difference -- for EVERY difference width the stream declares, not only the '
           'encoder\'s; the two encoder column writers (numeric, code / flag) emit minimum, 6-bit width and differences with width 0 exactly when all '
           'subsets agree and an all-ones difference exactly for missing entries (nbits_for_uint keeps real differences below all ones; minmax is the '
           'minimum / maximum of the non-missing entries); lemma column_inverse: decoder rule applied to fields satisfying the encoder postcondition '
           'gives back the column, lemma any_legal_width: the same for every width that holds max - min below all ones; CoderState.__init__ gives '
           'compressed data one shared descriptor list / link map; every column primitive appends the same descriptor object exactly once and touches '
           'no register. Bounded: exhaustive small columns, string columns written by the encoder, compressed vs uncompressed whole messages.',
           'Trusted: bitstring model L7, list model, finite 2**n table. Not under contract yet: Encoder.process_string_compressed (bounded only); the '
           'induction from columns to whole messages (same descriptor trace in both modes) is argued in DESIGN C05 and enumerated by the bounded layer.',
           {'pybufrkit.encoder.': 'C05', 'pybufrkit.decoder.': 'C05', 'pybufrkit.coder.': 'C05'},
           CODEC_TRUST,
           ['Encoder.process_string_compressed is bounded only', 'whole-message mode independence (labels, links) is bounded only'])

_deductive('C04',
           'Proved for all inputs and every section layout satisfying the facts established from the definition files (ground obligations, re-read '
           'every run): Decoder.process_section returns having consumed exactly 8 * section_length bits whenever the section declares a length (surplus '
           'octets skipped as one read, a section declared shorter than its content refused with PyBufrKitError), accepts no parameter whose value '
           'differs from its expected value (signatures), and enters the template data iff the section has it; '
           'Decoder.process_unexpanded_descriptors reads exactly (declared length - octets read) // 2 descriptors of 2 + 6 + 8 bits; the bit-level '
           'pieces used for framing: set_uint overwrites exactly the addressed bits and keeps the stream length, skip / write_bin append exactly '
           'the zero bits asked for, read_bin consumes exactly its width, to_bytes is the whole stream. Bounded: encoder-side framing (padding, '
           'even-octet rule, length back-patch, honour mode) and whole-message extents on the full residue grid.',
           'Trusted: bitstring model L7; section layouts = definition files (turned into ground facts each run). Not under contract yet: '
           'Encoder.process_section / Encoder.process (bounded only).',
           {'pybufrkit.decoder.': 'C04', 'pybufrkit.bitops.': 'C04'},
           [L['L1'], L['L5'], L['L6'], L['L7'], L['pow2'], L['term'],
            'BufrSection abstracted to its ordered parameter list; BufrMessage proxies read / write the attribute _<name> (ground obligation)',
            'interface contract of the template walk inside Decoder.process_template_data (Coder.process_template: assumed)'],
           ['encoder-side framing is checked by the bounded layer only'])

PROPS['C12']['level'] = 'proof'
_deductive('C12',
           'Proved for all inputs: every failure of a bit-stream read -- past the end, non-positive width, whatever class the bitstring library raises '
           '(its own Error or a plain ValueError) -- leaves BitStringBitReader as BitReadError, a PyBufrKitError, and no other class (raises clauses '
           'of _bit_stream_read, read_uint, read_bool, read_bytes, read_bin); Decoder.process_section refuses a parameter whose value differs from '
           'its expected value (damaged signatures) and a section declared shorter than its content with PyBufrKitError, and no other exception '
           'class escapes from a section without template data. Fault enumeration (bounded): every truncation point of generated / sample messages; '
           'streams of 2-3 messages with every damage kind of the statement, with and without continue_on_error; CLI prints no traceback.',
           'Trusted: bitstring model L7 (which calls raise which class: validated by the conformance run). Not under contract yet: '
           'generate_bufr_message (skip-and-continue), Coder.process_members (unknown descriptor), __init__.main; fault enumeration only.',
           {'pybufrkit.decoder.': 'C12', 'pybufrkit.bitops.': 'C12'},
           [L['L1'], L['L5'], L['L6'], L['L7'], L['pow2'], L['term'],
            'BufrSection abstracted to its ordered parameter list; section layouts = definition files (ground facts)'],
           ['skip-and-continue, unknown-descriptor refusal and the prefix clause are checked by fault enumeration only'])


# ---- frame obligations decided on the AST (pyvc/frame.py): functions that must not write through their arguments ----------------------
def _frame(funcs):
    def run(db):
        from pyvc import frame
        return [frame.check(db, q, mm) for q, mm in funcs]
    return run


CONFIG_FRAME = [('pybufrkit.bufr.SectionConfigurer.info_configuration', ()), ('pybufrkit.bufr.SectionConfigurer.ignore_value_expectation', ()),
                ('pybufrkit.bufr.SectionConfigurer.get_configuration', ()), ('pybufrkit.bufr.SectionConfigurer.configure_section', ('bufr_message',))]
TABLE_FRAME = [('pybufrkit.tables.TableB.lookup', ()), ('pybufrkit.tables.TableD.lookup', ()), ('pybufrkit.tables.BufrTableGroup.lookup', ()),
               ('pybufrkit.tables.get_tables_sn', ()), ('pybufrkit.tables.normalize_tables_sn', ())]
QUERY_FRAME = [('pybufrkit.mdquery.MetadataQuerent.query', ()), ('pybufrkit.mdquery.MetadataExprParser.parse', ())]
PROPS['C13']['syntactic'] = [_frame(CONFIG_FRAME + TABLE_FRAME + QUERY_FRAME + [('pybufrkit.decoder.Decoder.process', ()),
                                                                              ('pybufrkit.dataquery.DataQuerent.filter_for_entities', ())])]
PROPS['C12']['syntactic'] = [_frame(CONFIG_FRAME + [('pybufrkit.decoder.Decoder.process', ())])]
PROPS['C17']['syntactic'] = [_frame(QUERY_FRAME + CONFIG_FRAME[:1])]
PROPS['C11']['syntactic'] = [_frame(QUERY_FRAME)]
PROPS['C14']['syntactic'] = [_frame(TABLE_FRAME)]
FRAME_NOTE = ('frame obligations decided on the AST (pyvc/frame.py): the listed functions make every store through an object allocated in the call '
              '(deepcopy: whole graph private; dict() / list() / literal / constructor: the container only); a failing frame obligation is UNDECIDED '
              'unless the bounded layer supplies a failing input')
for _p in ('C13', 'C12', 'C17', 'C11', 'C14'):
    PROPS[_p]['trusted_base'] = list(PROPS[_p].get('trusted_base', [])) + [FRAME_NOTE]


# ---- claims after the second round of contracts (section framing on the encoder side, bitmap machinery, composite descriptors) -----------
PROPS['C04']['claim'] = (
    'Proved for all inputs and every section layout satisfying the facts established from the definition files (ground obligations, re-read every '
    'run). Encoder.process_section: on return the section occupies whole octets -- an even number of them for editions up to 3 -- with ONLY zero bits '
    'and no more than needed as padding; when lengths are recomputed the 24-bit length field, in the object and in the stream, holds the real extent '
    '(back-patched in place, nothing before the section touched); when declared lengths are honoured a longer section is zero-filled up to exactly '
    'the declared length and a shorter one never returns normally. Encoder.process_unexpanded_descriptors packs every id as F:2 X:6 Y:8 in list '
    'order and refuses ids that do not fit. BufrSection.get_parameter_offset is the sum of the widths of the preceding parameters. '
    'Decoder.process_section consumes exactly 8 * section_length bits (surplus skipped, overrun refused with PyBufrKitError), accepts no value that '
    'differs from its expectation, enters the template data iff the section has it; Decoder.process_unexpanded_descriptors reads (declared length - '
    'octets read) // 2 descriptors. Bit level: set_uint overwrites exactly the addressed bits, keeps the length, refuses a value that does not fit. '
    'Bounded: whole messages (total length back-patch of Encoder.process, span reported by Decoder.process, optional section 2) on the full residue grid.')
PROPS['C04']['note'] = ('Trusted: bitstring model L7; section layouts = definition files (ground facts each run); the template walk inside the data section through '
                        'its interface contract (only appends to the stream). Not under contract yet: Encoder.process and Decoder.process (message level: '
                        'total length, serialized_bytes), SectionConfigurer; bounded only.')
PROPS['C04']['assumptions'] = ['message-level framing (Encoder.process / Decoder.process) is checked by the bounded layer only',
                               'the values handed to Encoder.process_section have the Python type of their parameter type (input conformance, a requires)']
PROPS['C04']['witness_map'] = {'pybufrkit.decoder.': 'C04', 'pybufrkit.bitops.': 'C04', 'pybufrkit.encoder.': 'C04', 'pybufrkit.bufr.': 'C04'}

PROPS['C07']['claim'] = (
    'Proved for all inputs: CoderState.build_bitmapped_descriptors takes as back references the LAST len(bitmap) descriptors of exact type '
    'ElementDescriptor before the boundary (every element descriptor between the first one taken and the boundary is taken; existing back references '
    'are reused until cancelled; a bitmap that does not match them is refused), selects exactly those whose bit is 0, in order (index maps of the '
    'selection: the k-th selected entry is the k-th zero bit) and restarts the cursor; the bitmap definition automaton of '
    'Coder.process_bitmap_definition (one case per state x descriptor: 236000 for reuse, 237000 recall, counting of 031031, definition by the first '
    'other descriptor); Decoder.define_bitmap / Encoder.define_bitmap take the last n_031031 decoded values / the n_031031 values that end at the '
    'value cursor and keep the bitmap iff it is for reuse; Coder.process_bitmapped_descriptor / process_marker_operator_descriptor link each value to '
    'the element of the NEXT zero bit, build a fresh marker descriptor, code 225255 with width + 1 and reference -2**width; add_bitmap_link, '
    'recall_bitmap, cancel_bitmap, cancel_all_back_references, mark_back_reference_boundary; the 222-225 / 232 / 235 / 236 / 237 operator cases; '
    'class-33 linking. Bounded: links and attribute placement in the hierarchical view against the reference for all bit patterns up to 4 (6) bits.')
PROPS['C07']['note'] = ('Assumed: Coder.define_bitmap as interface at its one call site (the two overrides are verified against the same postcondition text). '
                        'Not under contract: TemplateData wiring of attributes (bounded only).')
PROPS['C07']['assumptions'] = [a for a in PROPS['C07'].get('assumptions', []) if 'build_bitmapped' not in a] + \
    ['templatedata.py (attributes in the hierarchical view) is bounded only']

PROPS['C01']['claim'] += (' Also proved: the 203-definition and 206-skip steps of the walk (process_define_new_refval: YYY-bit sign-magnitude reference for this '
                          'element, character elements refused; process_skipped_local_descriptor: YYY-bit unsigned field labelled S + id, register cleared), and the '
                          'composite descriptors (sequence, fixed and delayed replication: factor element coded first and kept as data, UnknownDescriptor for a '
                          'factor that is no element descriptor) against the SUMMARY contract of Coder.process_members.')
PROPS['C01']['note'] = ('Assumed (not yet discharged): the summary contract of Coder.process_members -- a walk only appends descriptors, primitive calls, stream bits '
                        'and links of new positions and keeps the coder state well formed -- and its step contract (dispatch order 221 / 203 / 206 / bitmap '
                        'definition / class dispatch): ~3000 obligations, 70 still open. Whole-message composition is covered by the bounded layer.')
PROPS['C01']['assumptions'] = [a for a in PROPS['C01'].get('assumptions', []) if 'not under contract yet' not in a] + \
    ['Coder.process_members: summary assumed at the calls from the composite descriptors; its body is bounded only']
PROPS['C02']['assumptions'] = [a for a in PROPS['C02'].get('assumptions', []) if 'not under contract yet' not in a] + \
    ['Encoder.process_string_compressed, Encoder.process and Coder.process_members are bounded only']
PROPS['C02']['note'] = ('Under contract: every encoder primitive except process_string_compressed (numeric / code-flag / string / constant / new reference value, '
                        'uncompressed and compressed), nbits_for_uint, minmax, the column status helper, descriptor packing F:2 X:6 Y:8 (section padding and '
                        'length back-patch: see C04). Assumed: the interface contracts of the abstract primitives inside Coder and the summary of process_members.')
PROPS['C10']['claim'] += (' Re-compression of the reduced columns: the compressed numeric / code-flag / new-reference-value writers are under contract (C02, C05); a '
                          'negative 203YYY reference value is written sign-magnitude in compressed data as well.')


PROPS['C14']['claim'] += (' Discharged deductively: TableB.lookup / TableD.lookup return the table\'s own descriptor for a defined id and a fresh placeholder '
                          'of class UndefinedElementDescriptor / UndefinedSequenceDescriptor carrying the id otherwise (never None, never another entry); the '
                          'composite descriptors of the walker (an undefined replication factor raises UnknownDescriptor); frame obligations on the table lookups.')
PROPS['C01']['claim'] += (' Labels: Descriptor.__str__ is the id as six digits, AssociatedDescriptor / SkippedLocalDescriptor print A / S + five digits.')


MIXED = ('contract-based deductive verification: sidecar contracts on the real functions, VCs generated from the AST (PyVC), discharged by z3/cvc5, plus '
         'frame obligations decided on the AST; only PART of the mechanism is under contract -- the property as a whole is decided by the bounded '
         'stand-in (run-time comparison with an independent reference / oracle on generated and corpus inputs), labelled bounded, not counted as proved')
for _p, _what in (('C11', 'Decoder.process (span of the message bytes, start signature) and the frame of the metadata querent are discharged; generate_bufr_message '
                          '(a generator function) is bounded only.'),
                  ('C13', 'Frame obligations (AST) for the configuration transformers, table lookups, Decoder.process and the metadata querent are discharged; '
                          'history independence as a whole is sampled by the bounded layer.'),
                  ('C14', 'TableB / TableD lookups (Undefined* placeholder for an unknown id), the composite descriptors of the walker and the frame of the table '
                          'lookups are discharged; builder, flattening and the Table D expansion are bounded (exhaustive over the bundled tables in thorough).')):
    PROPS[_p]['technique'] = MIXED
    PROPS[_p]['note'] = _what + ' ' + PROPS[_p].get('note', '')
