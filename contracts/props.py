"""Per-property configuration of the check driver: claimed level, bounded script, trusted base."""

L = {
    'L1': 'L1 int is mathematical; // and % are floor for positive literal divisors',
    'L2': 'L2 bin(x): len(bin(x)[2:]) == bitlen(x), count of ones == popcount(x), popcount == bitlen iff x == 2^bitlen - 1 (1 <= x < 2^64)',
    'L3': 'L3 int(str) accepts [-]digits with their value; round = nearest integer',
    'L4': 'L4 float *, /, 10**s are uninterpreted in code obligations; reals only in quantisation lemmas',
    'L5': 'L5 str/bytes operations as SMT strings; latin-1 encode/decode is the identity on code points < 256',
    'L6': 'L6 list / dict models: (length, array) per reference, exact aliasing',
    'L7': 'L7 bitstring 4.4 model spec/bitmodel.py (validated by the conformance run of the bounded layer, not proved)',
    'CW': 'closed world: BitStringBitReader / BitStringBitWriter are the only BitReader / BitWriter implementations',
    'pow2': '2**n and NUMERIC_MISSING_VALUES[n] are a finite table over 0..64; beyond it only 2**n > 2**64 is known',
    'term': 'termination is not proved (partial correctness)',
}

PROPS = {
    'C19': dict(
        level='proof',
        bounded='C19.py',
        bounded_timeout={'quick': 900, 'thorough': 3000},
        trusted_base=[L['L1'], L['L5'], L['L7'], L['CW'], L['pow2'], L['term']],
        assumptions=['the bitstring library behaves as spec/bitmodel.py says (conformance run: every width 1..64 x offset 0..7 x '
                     'special values, bounded, not proved)',
                     'write_bytes with nbytes=None (default) is not under contract; every caller in the tree passes a width'],
        claim='Every bitops reader / writer method is proved, for all widths, values, stream contents and positions, to do to '
              'the abstract bit stream exactly what the property states (value = big-endian field, position advanced by the '
              'width, sign-magnitude ints, missing only for widths > 1, space padding / truncation, in-place overwrite frame, '
              'refusal of values that do not fit, BitReadError past the end). The abstract stream is a model of the bitstring '
              'library; that model is compared with the real library on the full grid of the quantifier (bounded part).',
        note='Trusted: the bitstring model spec/bitmodel.py (validated exhaustively on widths 1..64 x offsets 0..7 x special '
             'values, not proved), SMT encoding of Python ints / strings, finite 2**n table (0..64), partial correctness.',
        explanation='bitops wrappers proved against the abstract bit-stream model for all widths / values / positions; '
                    'the model itself is validated exhaustively over the property quantifier (bounded).',
    ),
}

NOT_APPLICABLE = {}
