"""Sidecar class table: static field types of the objects handled by contracted code, the class
hierarchy as it is in /repo (bases are cross-checked against the source on every run, see
`check_hierarchy`), and the hooks that connect library objects (bitstring, OrderedDict-backed
sections, iterators) to their models (DESIGN.md section 5).
"""
import ast
import re
import z3

from pyvc.ty import (INT, BOOL, STR, BYTES, FLOAT, NONE, VAL, ANYFUNC, Ref, ListT, DictT, TupleT, sort_of)
from pyvc.engine import pystr, SV, Exc, Unsupported, CLS, BITS, I, B, S, fresh
from pyvc import engine as E
from pyvc import builtins as BI

DESC = Ref('Descriptor')

# BufrMessage proxies: property `name` reads / writes the attribute `_name` (bufr.py, checked by the ground obligation
# `bufr.BufrMessage#proxies`)
MESSAGE_PROXIES = ['length', 'edition', 'master_table_number', 'originating_centre', 'originating_subcentre', 'master_table_version',
                   'local_table_version', 'year', 'month', 'day', 'hour', 'minute', 'second', 'is_section2_presents', 'data_category',
                   'n_subsets', 'is_observation', 'is_compressed', 'unexpanded_descriptors', 'template_data']

CLASSES = {
    # ---- bitops ---------------------------------------------------------------------------
    'BitReader': dict(bases=[], module='pybufrkit.bitops', fields={}),
    'BitWriter': dict(bases=[], module='pybufrkit.bitops', fields={}),
    'BitStringBitReader': dict(bases=['BitReader'], module='pybufrkit.bitops',
                               fields={'bit_stream': Ref('BitStream'), 'bitstring_Error': CLS},
                               consts={'bitstring_Error': 'bitstring.Error'}, nonnull=['bit_stream']),
    'BitStringBitWriter': dict(bases=['BitWriter'], module='pybufrkit.bitops',
                               fields={'bit_stream': Ref('BitStream')}, nonnull=['bit_stream']),
    # model classes (spec/bitmodel.py); a stream's length and position are never negative (L7)
    'BitStream': dict(bases=[], fields={'bits': BITS, 'len': INT, 'pos': INT},
                      field_facts={'len': lambda z: z >= 0, 'pos': lambda z: z >= 0}),
    'MBits': dict(bases=[], module='spec.bitmodel', fields={'len': INT, 'val': INT}),
    # ---- mdquery / bufr ------------------------------------------------------------------------
    'MetadataExprParser': dict(bases=[], module='pybufrkit.mdquery', fields={}),
    'MetadataQuerent': dict(bases=[], module='pybufrkit.mdquery',
                            fields={'metadata_expr_parser': Ref('MetadataExprParser')}, nonnull=['metadata_expr_parser']),
    # A section is abstracted to the ordered list of its parameters (`_params` stands for
    # `_namespace.values()`, an OrderedDict in insertion order) plus its metadata attributes.
    'SectionParameter': dict(bases=[], module='pybufrkit.bufr',
                             fields={'name': STR, 'nbits': INT, 'type': STR, 'expected': VAL, 'as_property': BOOL,
                                     'parent': Ref('BufrSection'), 'value': VAL}),
    'BufrSection': dict(bases=[], module='pybufrkit.bufr',
                        fields={'_params': ListT(Ref('SectionParameter')), 'index': INT, 'description': STR,
                                'optional': BOOL, 'end_of_message': BOOL, 'bitpos_start': INT}, nonnull=['_params']),
    'BufrMessage': dict(bases=[], module='pybufrkit.bufr',
                        fields=dict({'filename': STR, 'sections': ListT(Ref('BufrSection')), 'serialized_bytes': VAL,
                                     'table_group_key': VAL},
                                    **{'_' + n: Ref('SectionParameter') for n in MESSAGE_PROXIES}),
                        nonnull=['sections']),
    'BufrTableGroup': dict(bases=[], fields={}),
    'CompiledTemplate': dict(bases=[], fields={}),
    'CompiledTemplateManager': dict(bases=[], module='pybufrkit.templatecompiler', fields={'cache_max': INT}),
    'TemplateData': dict(bases=[], module='pybufrkit.templatedata',
                         fields={'template': Ref('BufrTemplate'), 'is_compressed': BOOL,
                                 'decoded_descriptors_all_subsets': ListT(ListT(DESC)), 'decoded_values_all_subsets': ListT(ListT(VAL)),
                                 'bitmap_links_all_subsets': ListT(DictT(INT, INT)), 'n_subsets': INT}),
    # ---- descriptors ------------------------------------------------------------------------
    'Descriptor': dict(bases=[], module='pybufrkit.descriptors', fields={'id': INT}),
    'AssociatedDescriptor': dict(bases=['Descriptor'], module='pybufrkit.descriptors',
                                 fields={'nbits': INT, 'unit': STR}),
    'SkippedLocalDescriptor': dict(bases=['Descriptor'], module='pybufrkit.descriptors',
                                   fields={'nbits': INT, 'unit': STR}),
    'ElementDescriptor': dict(bases=['Descriptor'], module='pybufrkit.descriptors',
                              fields={'name': STR, 'unit': STR, 'scale': INT, 'refval': INT, 'nbits': INT,
                                      'crex_unit': STR, 'crex_scale': INT, 'crex_nchars': INT}),
    'MarkerDescriptor': dict(bases=['ElementDescriptor'], module='pybufrkit.descriptors',
                             fields={'marker_id': INT}),
    'ReplicationDescriptor': dict(bases=['Descriptor'], module='pybufrkit.descriptors',
                                  fields={'members': ListT(DESC)}),
    'FixedReplicationDescriptor': dict(bases=['ReplicationDescriptor'], module='pybufrkit.descriptors', fields={}),
    'DelayedReplicationDescriptor': dict(bases=['ReplicationDescriptor'], module='pybufrkit.descriptors',
                                         fields={'factor': DESC}),      # an ElementDescriptor, or an Undefined* placeholder (refused by the walker)
    'OperatorDescriptor': dict(bases=['Descriptor'], module='pybufrkit.descriptors', fields={}),
    'SequenceDescriptor': dict(bases=['Descriptor'], module='pybufrkit.descriptors',
                               fields={'members': ListT(DESC), 'name': STR}),
    'BufrTemplate': dict(bases=['SequenceDescriptor'], module='pybufrkit.descriptors', fields={}),
    'UndefinedDescriptor': dict(bases=['Descriptor'], module='pybufrkit.descriptors', fields={}),
    'UndefinedElementDescriptor': dict(bases=['UndefinedDescriptor'], module='pybufrkit.descriptors', fields={}),
    'UndefinedSequenceDescriptor': dict(bases=['Descriptor'], module='pybufrkit.descriptors', fields={}),
}

CLASSES.update({
    'BaseTable': dict(bases=[], module='pybufrkit.tables', fields={}),
    'TableB': dict(bases=['BaseTable'], module='pybufrkit.tables', fields={'descriptors': DictT(INT, Ref('ElementDescriptor'))}),
    'TableD': dict(bases=['BaseTable'], module='pybufrkit.tables', fields={'descriptors': DictT(INT, Ref('SequenceDescriptor'))}),
})

# ---- coder state ------------------------------------------------------------------------------
BSR = TupleT(INT, INT, INT)
BSR.names = ('nbits_increment', 'scale_increment', 'refval_factor')
IDX_DESC = TupleT(INT, DESC)          # (flat index, element descriptor): back references / bitmapped descriptors

CLASSES.update({
    'CoderState': dict(bases=[], module='pybufrkit.coder', fields={
        'is_compressed': BOOL, 'n_subsets': INT, 'idx_subset': INT,
        'decoded_descriptors_all_subsets': ListT(ListT(DESC)), 'bitmap_links_all_subsets': ListT(DictT(INT, INT)),
        'decoded_values_all_subsets': ListT(ListT(VAL)),
        'decoded_descriptors': ListT(DESC), 'bitmap_links': DictT(INT, INT), 'decoded_values': ListT(VAL), 'idx_value': INT,
        'nbits_offset': INT, 'scale_offset': INT, 'nbits_of_new_refval': INT, 'new_refvals': DictT(INT, VAL),
        'nbits_of_associated': ListT(INT), 'nbits_of_skipped_local_descriptor': INT, 'bsr_modifier': BSR, 'new_nbytes': INT,
        'data_not_present_count': INT, 'status_qa_info_follows': INT,
        'bitmap': ListT(VAL), 'bitmapped_descriptors': ListT(IDX_DESC), 'bitmap_definition_state': INT,
        'most_recent_bitmap_is_for_reuse': BOOL, 'n_031031': INT, 'next_bitmapped_descriptor': Ref(BI.cursor_name(IDX_DESC)),
        'back_reference_boundary': INT, 'back_referenced_descriptors': ListT(IDX_DESC)},
        nonnull=['decoded_descriptors_all_subsets', 'bitmap_links_all_subsets', 'decoded_values_all_subsets', 'new_refvals',
                 'nbits_of_associated']),
})


_AI = z3.ArraySort(z3.IntSort(), z3.IntSort())
# ghost record of the primitive calls a walk issues to the concrete coder (interface contracts of Coder.process_*):
# nprims calls so far; for call k: prim[k] kind, pdesc[k] descriptor identity, pa[k] width / length / value,
# pc[k] reference value or factor, pf[k] the 10**scale float
CLASSES['CoderState']['ghosts'] = {'nprims': z3.IntSort(), 'prim': _AI, 'pdesc': _AI, 'pa': _AI, 'pc': _AI,
                                   'pf': z3.ArraySort(z3.IntSort(), sort_of(FLOAT)),
                                   'walks': z3.IntSort()}          # number of template walks issued on this state
CLASSES['CoderState']['ghost_facts'] = {'nprims': lambda z: z >= 0}       # a call counter
CLASSES.update({
    'Coder': dict(bases=[], module='pybufrkit.coder', fields={}),
    # the bit reader / writer as the generic walker sees it: whatever the concrete class, its stream is the modelled bit stream
    'BitOperator': dict(bases=[], fields={'bit_stream': Ref('BitStream')}),
    'SectionConfigurer': dict(bases=[], module='pybufrkit.bufr', fields={}),
    'Decoder': dict(bases=['Coder'], module='pybufrkit.decoder',
                    fields={'compiled_template_manager': Ref('CompiledTemplateManager'), 'tables_root_dir': STR,
                            'section_configurer': Ref('SectionConfigurer')}, nonnull=['section_configurer']),
    'Encoder': dict(bases=['Coder'], module='pybufrkit.encoder',
                    fields={'ignore_declared_length': BOOL, 'compiled_template_manager': Ref('CompiledTemplateManager'), 'tables_root_dir': STR,
                            'section_configurer': Ref('SectionConfigurer'), 'overrides': DictT(STR, VAL)}, nonnull=['section_configurer', 'overrides']),
})


# ---- dataquery (C15, C16) ----------------------------------------------------------------------
PATHCOMP = TupleT(VAL, VAL, VAL)
PATHCOMP.names = ('separator', 'id', 'slice')
CLASSES.update({
    # Python slice objects: immutable records (start, stop, step), each None or an int
    'PySlice': dict(bases=[], fields={'start': VAL, 'stop': VAL, 'step': VAL}),
    'NodePath': dict(bases=[], module='pybufrkit.dataquery',
                     fields={'path_string': STR, 'subset_slice': VAL, 'components': ListT(PATHCOMP)}),
    'NodePathParser': dict(bases=[], module='pybufrkit.dataquery',
                           fields={'bare_id_matches_all': BOOL, 'pos': INT, 'current_state': VAL, 'current_token': VAL,
                                   'current_id': VAL, 'current_separator': VAL, 'current_slice_elements': ListT(VAL),
                                   'node_path': Ref('NodePath')}),
})


def ctor_pathcomp(eng, ctx, st, cls, args, kwargs):
    vals = list(args) + [kwargs[n] for n in PATHCOMP.names[len(args):]]
    yield st, SV(PATHCOMP, eng.mk_tuple([eng.coerce(v, VAL) for v in vals]).z)


CLASSES['PathComponent'] = dict(bases=[], fields={}, ctor=ctor_pathcomp)


def ctor_bsr(eng, ctx, st, cls, args, kwargs):
    vals = list(args) + [kwargs[n] for n in BSR.names[len(args):]]
    yield st, SV(BSR, eng.mk_tuple([eng.coerce(v, INT) for v in vals]).z)


CLASSES['BSRModifier'] = dict(bases=[], fields={}, ctor=ctor_bsr)
CLASSES[BI.cursor_name(IDX_DESC)] = BI.cursor_class_entry(IDX_DESC)
# `logging.root.level == logging.getLevelName('DEBUG')` selects AuditedList in CoderState.__init__: assumed off (trusted base)
CLASSES['LoggingRoot'] = dict(bases=[], fields={'level': INT}, field_facts={'level': lambda z: z != 10})

# Python / library exception classes; the pybufrkit ones are read from errors.py on every run.
EXC_BASE = {
    'BaseException': [], 'Exception': ['BaseException'],
    'ValueError': ['Exception'], 'LookupError': ['Exception'], 'KeyError': ['LookupError'],
    'IndexError': ['LookupError'], 'AssertionError': ['Exception'], 'AttributeError': ['Exception'],
    'TypeError': ['Exception'], 'RuntimeError': ['Exception'], 'NotImplementedError': ['RuntimeError'],
    'StopIteration': ['Exception'], 'ArithmeticError': ['Exception'], 'ZeroDivisionError': ['ArithmeticError'],
    'IOError': ['Exception'], 'OSError': ['Exception'],
    'bitstring.Error': ['Exception'],
    'ReadError': ['bitstring.Error', 'IndexError'],      # bitstring.ReadError (spec/bitmodel.py name)
    'bitstring.ReadError': ['bitstring.Error', 'IndexError'],
}


def exception_table(db):
    """EXC_BASE + the hierarchy declared in /repo/pybufrkit/errors.py (re-read every run)."""
    table = dict(EXC_BASE)
    m = db.module('pybufrkit.errors')
    for name, (bases, node) in m.classes.items():
        table[name] = [b for b in bases]
    return table


def check_hierarchy(db, classes):
    """The class table's `bases` must be what the source says (ground obligations)."""
    problems = []
    for name, info in classes.items():
        mod = info.get('module')
        if not mod or not mod.startswith('pybufrkit'):
            continue
        m = db.module(mod)
        if name not in m.classes:
            problems.append('%s: class not found in %s' % (name, mod))
            continue
        src_bases = [b.split('.')[-1] for b in m.classes[name][0] if b not in ('object',)]
        src_bases = [b for b in src_bases if not b.startswith('_')]
        if src_bases != info.get('bases', []):
            problems.append('%s: bases %r in source, %r in class table' % (name, src_bases, info.get('bases', [])))
    return problems


# ---------------------------------------------------------------------------------------------
# BufrSection: iteration / len over the parameter list

def section_iter(eng, ctx, st, sec):
    return eng.read_field(ctx, st, sec, '_params')


def section_len(eng, ctx, st, sec):
    lst = eng.read_field(ctx, st, sec, '_params')
    n = eng.list_len(st, lst)
    st.assume(n >= 0)
    return SV(INT, n)


_secidx = z3.Function('section_param_index', z3.ArraySort(z3.IntSort(), z3.IntSort()), z3.IntSort(),
                       z3.ArraySort(z3.IntSort(), z3.StringSort()), z3.StringSort(), z3.IntSort())


def section_lookup(eng, st, sec, name_z):
    """-> (has, parameter SV): the namespace of a section is keyed by parameter name (an OrderedDict): `has` iff some parameter
    carries the name; the parameter found is the first one that does (with pairwise distinct names: the one)"""
    lst = SV(ListT(Ref('SectionParameter')), z3.Select(st.hget(E.fkey('_params', ListT(Ref('SectionParameter')))), sec.z))
    n = eng.list_len(st, lst)
    arr = eng.list_arr(st, lst)
    names = st.hget(E.fkey('name', STR))
    idx = _secidx(arr, n, names, name_z)
    j = fresh('j', z3.IntSort())
    has = z3.Exists([j], z3.And(0 <= j, j < n, z3.Select(names, z3.Select(arr, j)) == name_z))
    hb = fresh('has', z3.BoolSort())
    st.assume(hb == has)
    k = fresh('k', z3.IntSort())
    st.assume(z3.Implies(hb, z3.And(0 <= idx, idx < n, z3.Select(names, z3.Select(arr, idx)) == name_z,
                                    z3.ForAll([k], z3.Implies(z3.And(0 <= k, k < idx), z3.Select(names, z3.Select(arr, k)) != name_z)))))
    p = z3.Select(arr, idx)
    st.assume(z3.Implies(hb, z3.And(p > 0, p < st.alloc + st.nalloc)))
    return hb, SV(Ref('SectionParameter'), p)


def section_getattr(eng, ctx, st, sec, field):
    has, p = section_lookup(eng, st, sec, S(field))
    eng.safe(ctx, st, has, 'KeyError', 'section has no parameter %s' % field)
    eng.type_fact(st, p)
    return p


def section_contains(eng, ctx, st, sec, item):
    has, _ = section_lookup(eng, st, sec, item.z)
    return has


# spec forms over a section's ordered parameter list --------------------------------------------------------------------------
_poff = z3.Function('param_offset', z3.ArraySort(z3.IntSort(), z3.IntSort()), z3.ArraySort(z3.IntSort(), z3.IntSort()), z3.IntSort(), z3.IntSort())


def sf_poff(eng, ctx, st, args):
    """poff(section, k): the sum of `nbits` of the first k parameters (recursive definition; every mention is unfolded once:
    poff(s, k) == 0 for k <= 0, else poff(s, k - 1) + nbits of parameter k - 1)"""
    sec, k = args
    lst = SV(ListT(Ref('SectionParameter')), z3.Select(st.hget(E.fkey('_params', ListT(Ref('SectionParameter')))), sec.z))
    arr = eng.list_arr(st, lst)
    nb = st.hget(E.fkey('nbits', INT))
    t = _poff(arr, nb, k.z)
    for d in range(3):          # the definition is unfolded three levels at every mention (enough for the fixed offsets the code asks for)
        kk = k.z - d
        st.assume(_poff(arr, nb, kk) == z3.If(kk <= 0, I(0), _poff(arr, nb, kk - 1) + z3.Select(nb, z3.Select(arr, kk - 1))))
    return SV(INT, t)


def sf_phas(eng, ctx, st, args):
    """phas(section, name): some parameter of the section carries the name (a closed formula: no side facts, so it can be
    evaluated in a pre-state copy)"""
    sec, name = args
    lst = SV(ListT(Ref('SectionParameter')), z3.Select(st.hget(E.fkey('_params', ListT(Ref('SectionParameter')))), sec.z))
    n = eng.list_len(st, lst)
    arr = eng.list_arr(st, lst)
    names = st.hget(E.fkey('name', STR))
    j = fresh('j', z3.IntSort())
    return SV(BOOL, z3.Exists([j], z3.And(0 <= j, j < n, z3.Select(names, z3.Select(arr, j)) == name.z)))


def sf_pindex(eng, ctx, st, args):
    """pindex(section, name): position of the first parameter of that name (meaningful when phas(section, name))"""
    sec, name = args
    has, p = section_lookup(eng, st, sec, name.z)
    lst = SV(ListT(Ref('SectionParameter')), z3.Select(st.hget(E.fkey('_params', ListT(Ref('SectionParameter')))), sec.z))
    return SV(INT, _secidx(eng.list_arr(st, lst), eng.list_len(st, lst), st.hget(E.fkey('name', STR)), name.z))


def sf_has_transformer(eng, ctx, st, args):
    """has_transformer(t, "name"): the tuple of configuration transformers (bound methods, a Python-level value that is concrete on every
    path) contains the method of that name"""
    tup, name = args
    want = pystr(z3.simplify(name.z))
    items = tup.z if isinstance(tup.z, tuple) else ()
    found = False
    for it in items:
        z = getattr(it, 'z', None)
        if isinstance(z, tuple) and len(z) == 3 and z[0] == 'bound' and z[2] == want:
            found = True
    return SV(BOOL, B(found))


BI.EXTRA_SPEC_FORMS.update({'poff': sf_poff, 'phas': sf_phas, 'pindex': sf_pindex, 'has_transformer': sf_has_transformer})

CLASSES['BufrSection']['hooks'] = {'iter': section_iter, 'len': section_len, 'getattr': section_getattr, 'contains': section_contains}


def message_setattr_dyn(eng, ctx, st, msg, name, val):
    """setattr(bufr_message, parameter.name, parameter): the proxy property of that name stores into `_name`; any other name
    creates a plain attribute that no verified code reads"""
    v = eng.coerce(val, Ref('SectionParameter'))
    for n in MESSAGE_PROXIES:
        k = E.fkey('_' + n, Ref('SectionParameter'))
        old = z3.Select(st.hget(k), msg.z)
        st.hset(k, z3.Store(st.hget(k), msg.z, z3.If(name.z == S(n), v.z, old)))


CLASSES['BufrMessage']['hooks'] = {'setattr_dyn': message_setattr_dyn}
# ghost: how many times the template data of this message has been entered (Decoder / Encoder.process_template_data)
CLASSES['BufrMessage']['ghosts'] = {'td_entered': z3.IntSort()}
CLASSES['BufrMessage']['ghost_init'] = {'td_entered': 0}      # a counter of events since the object was created


# ---------------------------------------------------------------------------------------------
# bitstring hooks

FMT_RE = re.compile(r'^(\w+)(:\{\})?(=\{\})?$')


def parse_fmt(sv):
    """-> (kind, width SV | None, value SV | None) or None when the string has no known structure."""
    if sv.meta is not None and sv.meta[0] == 'fmt':
        tmpl, args = sv.meta[1], list(sv.meta[2])
    else:
        zs = z3.simplify(sv.z)
        if not z3.is_string_value(zs):
            return None
        tmpl, args = pystr(zs), []
    m = FMT_RE.match(tmpl)
    if not m:
        return None
    kind = m.group(1)
    width = value = None
    if m.group(2):
        if not args:
            return None
        width = args.pop(0)
    if m.group(3):
        if not args:
            return None
        value = args.pop(0)
    return kind, width, value


def _model(eng, ctx, st, fname, args):
    return eng.call_qualname(ctx, st, 'spec.bitmodel.' + fname, args, {})


def bitstream_read(eng, ctx, st, stream, args, kwargs):
    fmt = args[0]
    parsed = parse_fmt(fmt)
    if parsed is None:
        # unknown format: any of the library outcomes (used when _bit_stream_read is verified on its own)
        s1 = st.fork()
        ctx.raise_(s1, Exc('ReadError'))
        s2 = st.fork()
        ctx.raise_(s2, Exc('ValueError'))
        st.hset(E.fkey('pos', INT), z3.Store(st.hget(E.fkey('pos', INT)), stream.z, fresh('pos', z3.IntSort())))
        yield st, SV(VAL, fresh('readval', sort_of(VAL)))
        return
    kind, width, value = parsed
    if kind in ('uint', 'uintbe'):
        for r in _model(eng, ctx, st, 'bs_read_uint', [stream, eng.lit(kind), eng.coerce(width, INT)]):
            yield r
    elif kind == 'bool' and width is None:
        for r in _model(eng, ctx, st, 'bs_read_bool', [stream]):
            yield r
    elif kind == 'bytes':
        for r in _model(eng, ctx, st, 'bs_read_bytes', [stream, eng.coerce(width, INT)]):
            yield r
    elif kind == 'bin':
        for r in _model(eng, ctx, st, 'bs_read_bin', [stream, eng.coerce(width, INT)]):
            yield r
    else:
        raise Unsupported('bitstring read format %r' % kind)


def bitstream_iadd(eng, ctx, st, stream, rhs):
    """`stream += x` for a format string or a Bits object."""
    if isinstance(rhs.ty, Ref) and rhs.ty.cls == 'MBits':
        # appending a Bits object built from bytes is handled by bits_from_bytes (see below)
        raise Unsupported('stream += Bits(uint)')
    if rhs.ty == BYTES and rhs.meta == 'bits_from_bytes':
        for s1, _ in _model(eng, ctx, st, 'bs_append_bytes', [stream, rhs]):
            yield s1
        return
    parsed = parse_fmt(rhs)
    if parsed is None:
        raise Unsupported('stream += <unknown format>')
    kind, width, value = parsed
    if kind in ('uint', 'uintbe'):
        v = value
        if v.ty != INT:
            raise Unsupported('uint initialiser with non-int value')
        for s1, _ in _model(eng, ctx, st, 'bs_append_uint', [stream, eng.lit(kind), eng.coerce(width, INT), v]):
            yield s1
    elif kind == 'bool':
        v = value
        if v.ty == BOOL:
            for s1, _ in _model(eng, ctx, st, 'bs_append_bool', [stream, v]):
                yield s1
        else:
            raise Unsupported('bool initialiser with %r' % (v.ty,))
    elif kind == 'bin':
        for s1, _ in _model(eng, ctx, st, 'bs_append_bin', [stream, eng.coerce(width, INT), value]):
            yield s1
    else:
        raise Unsupported('bitstring append format %r' % kind)


def bitstream_setslice(eng, ctx, st, stream, bounds, val):
    if len(bounds) != 2 or not (isinstance(val.ty, Ref) and val.ty.cls == 'MBits'):
        raise Unsupported('slice assignment on bit stream')
    for s1, _ in _model(eng, ctx, st, 'bs_setslice', [stream, bounds[0], bounds[1], val]):
        yield s1


def bitstream_bytes(eng, ctx, st, stream):
    bits = eng.read_field(ctx, st, stream, 'bits')
    n = eng.read_field(ctx, st, stream, 'len')
    eng.safe(ctx, st, n.z % 8 == 0, 'ValueError', 'bytes of unaligned stream')
    return BI.bf_Bst(eng, st, [bits, SV(INT, I(0)), SV(INT, n.z / 8)])


CLASSES['BitStream']['methods'] = {'read': bitstream_read}
CLASSES['BitStream']['hooks'] = {'iadd': bitstream_iadd, 'setslice': bitstream_setslice}
CLASSES['BitStream']['props'] = {'bytes': bitstream_bytes}


def new_bitstream(eng, st, bits_z, len_z, pos_z):
    r = eng.new_ref(st)
    st.hset(('type',), z3.Store(st.hget(('type',)), r, I(eng.class_id('BitStream'))))
    obj = SV(Ref('BitStream'), r)
    for f, t, z in (('bits', BITS, bits_z), ('len', INT, len_z), ('pos', INT, pos_z)):
        k = E.fkey(f, t)
        st.hset(k, z3.Store(st.hget(k), r, z))
    return obj


def mf_bitstream(eng, e, st, ctx):
    """bitstring.BitStream() / bitstring.BitStream(bytes=s)"""
    for st2, args, kwargs in BI.ev_args(eng, e, st, ctx):
        if not args and not kwargs:
            yield st2, new_bitstream(eng, st2, z3.K(z3.IntSort(), I(0)), I(0), I(0))
        elif not args and list(kwargs) == ['bytes']:
            s = kwargs['bytes']
            bits = fresh('bits', sort_of(BITS))
            n = z3.Length(s.z)
            st2.assume(BI.Bst_f(bits, I(0), n) == s.z)
            obj = new_bitstream(eng, st2, bits, 8 * n, I(0))
            yield st2, obj
        else:
            raise Unsupported('BitStream constructor arguments')


def mf_bits(eng, e, st, ctx):
    """bitstring.Bits(uint=v, length=n) / Bits(uintbe=v, length=n) / Bits(bytes=b)"""
    for st2, args, kwargs in BI.ev_args(eng, e, st, ctx):
        keys = sorted(kwargs)
        if args:
            raise Unsupported('Bits positional arguments')
        if keys == ['length', 'uint'] or keys == ['length', 'uintbe']:
            kind = 'uint' if 'uint' in kwargs else 'uintbe'
            v = kwargs[kind]
            if v.ty != INT:
                v = eng.coerce(v, INT)
            for r in _model(eng, ctx, st2, 'bits_uint', [eng.lit(kind), v, eng.coerce(kwargs['length'], INT)]):
                yield r
        elif keys == ['bytes']:
            b = kwargs['bytes']
            yield st2, SV(BYTES, b.z, meta='bits_from_bytes')
        else:
            raise Unsupported('Bits(%s)' % ','.join(keys))


def mf_logging_level(eng, e, st, ctx):
    # logging.getLevelName('DEBUG') == 10
    yield st, SV(INT, I(10))


MODULE_FUNCS = {('bitstring', 'BitStream'): mf_bitstream, ('bitstring', 'Bits'): mf_bits, ('logging', 'getLevelName'): mf_logging_level}


# ---------------------------------------------------------------------------------------------
# module constants that are not literals

def missing_table_getitem(eng, ctx, st, obj, idx):
    """constants.NUMERIC_MISSING_VALUES[i] == 2**i - 1 for 0 <= i <= 64 (the table itself is checked
    concretely against constants.py by the ground obligation `constants.NUMERIC_MISSING_VALUES`)."""
    i = eng.coerce(idx, INT).z
    eng.safe(ctx, st, z3.And(i >= -65, i <= 64), 'IndexError', 'NUMERIC_MISSING_VALUES index')
    j = z3.If(i < 0, i + 65, i)
    return SV(INT, E.pow2_term(j) - 1)


CLASSES['NumericMissingTable'] = dict(bases=[], fields={}, hooks={'getitem': missing_table_getitem})


def name_hook(eng, ctx, st, module, name):
    if name == 'NUMERIC_MISSING_VALUES':
        return SV(Ref('NumericMissingTable'), I(-1))
    return None


def modattr_hook(eng, ctx, modname, attr):
    if (modname, attr) == ('logging', 'root'):
        return SV(Ref('LoggingRoot'), I(-2))
    return None


OPTS = {'name_hook': name_hook, 'modattr_hook': modattr_hook,
        'val_attr_class': {'decoded_values_all_subsets': 'TemplateData', 'decoded_descriptors_all_subsets': 'TemplateData'}}


def check_proxies(db):
    """BufrMessage.<name> is a property that returns self._<name> and whose setter stores into self._<name>, for exactly the
    names in MESSAGE_PROXIES (+ the read-only `timestamp`)"""
    m = db.module('pybufrkit.bufr')
    bases, node = m.classes['BufrMessage']
    getters, setters = {}, {}
    for sub in node.body:
        if isinstance(sub, ast.FunctionDef):
            decos = [ast.unparse(d) for d in sub.decorator_list]
            body = [b for b in sub.body if not (isinstance(b, ast.Expr) and isinstance(b.value, ast.Constant))]
            if 'property' in decos and len(body) == 1 and isinstance(body[0], ast.Return):
                getters[sub.name] = ast.unparse(body[0].value)
            elif any(d.endswith('.setter') for d in decos) and len(body) == 1 and isinstance(body[0], ast.Assign):
                setters[sub.name] = ast.unparse(body[0])
    bad = []
    for n in MESSAGE_PROXIES:
        if getters.get(n) != 'self._' + n:
            bad.append('getter of %s is %r' % (n, getters.get(n)))
        if setters.get(n) != 'self._%s = new_value' % n:
            bad.append('setter of %s is %r' % (n, setters.get(n)))
    extra = sorted(set(setters) - set(MESSAGE_PROXIES))
    if extra:
        bad.append('unlisted proxies: %s' % extra)
    return ('bufr.BufrMessage#proxies', not bad, '; '.join(bad) or '%d proxy properties read / write the attribute _<name>' % len(MESSAGE_PROXIES))


def ground_checks(db):
    """Concrete facts the models rely on, re-established from the source on every run.
    -> [(id, ok, detail)]"""
    import importlib.util
    import os
    out = []
    path = os.path.join(db.repo, 'pybufrkit', 'constants.py')
    spec = importlib.util.spec_from_file_location('_pbk_constants', path)
    mod = importlib.util.module_from_spec(spec)
    try:
        spec.loader.exec_module(mod)
        t = mod.NUMERIC_MISSING_VALUES
        ok = len(t) == 65 and all(t[i] == 2 ** i - 1 for i in range(65))
        out.append(('constants.NUMERIC_MISSING_VALUES#table', ok, 'T[i] == 2**i - 1 for 0 <= i <= 64, len == 65'))
        ok = (mod.NBITS_PER_BYTE == 8 and mod.NBITS_FOR_NBITS_DIFF == 6 and mod.MESSAGE_START_SIGNATURE == b'BUFR'
              and mod.MESSAGE_STOP_SIGNATURE == b'7777')
        out.append(('constants#format_constants', ok, 'NBITS_PER_BYTE == 8, NBITS_FOR_NBITS_DIFF == 6, signatures'))
    except Exception as ex:
        out.append(('constants.NUMERIC_MISSING_VALUES#table', False, 'cannot evaluate constants.py: %r' % (ex,)))
    try:
        from contracts.bufr import check_layouts
        ok, detail = check_layouts(db.repo)
        out.append(('definitions#layout', ok, detail))
    except Exception as ex:
        out.append(('definitions#layout', False, 'cannot evaluate the definition files: %r' % (ex,)))
    out.append(check_proxies(db))
    for p in check_hierarchy(db, CLASSES):
        out.append(('classes#hierarchy', False, p))
    if not any(i == 'classes#hierarchy' for i, _, _ in out):
        out.append(('classes#hierarchy', True, 'class table bases agree with the source'))
    return out
