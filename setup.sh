#!/bin/sh
# Offline setup: only verifies that the interpreters and solvers the checks use answer.
set -e
cd "$(dirname "$0")"
python3-vt -c "import z3; assert z3.get_version_string()" 
/venv/bin/python -c "import bitstring, six, pybufrkit"
/usr/bin/cvc5 --version >/dev/null
mkdir -p evidence replays
echo setup-ok
