#!/usr/bin/env python3
"""Regenerate MANIFEST.json from contracts/props.py (claimed checks) + properties.jsonl (the rest)."""
import json, os, sys
ROOT = os.path.dirname(os.path.dirname(os.path.abspath(__file__)))
sys.path.insert(0, ROOT)
import importlib.util
spec = importlib.util.spec_from_file_location('props', os.path.join(ROOT, 'contracts', 'props.py'))
props = importlib.util.module_from_spec(spec); spec.loader.exec_module(props)
allp = [json.loads(l)['id'] for l in open(os.path.join(ROOT, 'properties.jsonl'))]
checks = []
for pid in allp:
    info = props.PROPS.get(pid)
    if not info or not info.get('registered', True):
        continue
    checks.append({
        'property_id': pid,
        'quick_cmd': './check %s --tier quick' % pid,
        'thorough_cmd': './check %s --tier thorough' % pid,
        'evidence_file': 'evidence/%s.json' % pid,
        'replay_cmd_template': './check %s --replay {path}' % pid,
        'engine': 'pyvc',
        'level_claimed': {'category': info.get('level', 'proof'), 'text': info['claim'], 'design_ref': 'DESIGN.md section 6, %s' % pid},
        'level_note': info['note'],
        'technique': info.get('technique', 'contract-based deductive verification: sidecar contracts on the real functions, VCs generated from the AST (PyVC), discharged by z3/cvc5; bounded run-time contracts as labelled stand-in'),
    })
na = [{'property_id': pid, 'reason': props.NOT_APPLICABLE.get(pid, 'check not built yet (work in progress, see DESIGN.md section 10)')}
      for pid in allp if pid not in [c['property_id'] for c in checks]]
m = {
 'version': 1,
 'setup_cmd': './setup.sh',
 'hooks': {'guard': 'PYBUFRKIT_VERIF', 'enable': 'none needed: contracts are sidecar files under /verif/contracts; /repo is read (ast) and imported, never instrumented',
           'baseline_off_cmd': 'cd /repo && /venv/bin/python -m pytest -ra -q -p no:cacheprovider --timeout=900 --continue-on-collection-errors',
           'source_commits': [], 'add_only': True},
 'engines': [{'name': 'pyvc', 'path': 'pyvc/', 'serves_properties': [c['property_id'] for c in checks],
              'kind_free_text': 'verification-condition generator for a Python subset (ast of /repo re-read every run -> SMT obligations -> z3 5.1 / cvc5 1.0.3), sidecar contracts in contracts/, executable spec functions in spec/, run-time contract layer in bounded/'}],
 'checks': checks,
 'notes': 'Exit codes: 0 held, 1 VIOLATION, 2 UNDECIDED (no verdict / construct outside the verified subset), 3 CHECKER-ERROR. Genuine defects repaired in /repo are listed as fixed: lines in known_findings.txt.',
 'not_applicable': na,
}
json.dump(m, open(os.path.join(ROOT, 'MANIFEST.json'), 'w'), indent=1)
print('checks:', [c['property_id'] for c in checks])
