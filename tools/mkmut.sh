#!/bin/sh
# mkmut.sh <seed-dir-name> -> creates /tmp/mut_<name> = copy of /repo (pybufrkit + tests) with the seeded patch applied
N=$1
D=/tmp/mut_$N
rm -rf $D && mkdir -p $D && cp -r /repo/pybufrkit /repo/tests /repo/setup.py /repo/README.rst $D/ 2>/dev/null
cd $D && git init -q . 2>/dev/null && git apply /verif/seeded/$N/patch.diff && echo "$D ready" || echo "PATCH FAILED for $N"
