#!/usr/bin/env python3-vt
"""path_ob.py <contract name> <oid substring>: print the short hypotheses (branch conditions) of matching obligations (debugging aid)"""
import sys, os
ROOT = os.path.dirname(os.path.dirname(os.path.abspath(__file__)))
sys.path.insert(0, ROOT)
from pyvc.run import build
v = build()
c = v.reg.contracts[sys.argv[1]]
v.verify(c)
maxlen = int(sys.argv[3]) if len(sys.argv) > 3 else 160
for o in v.obligations:
    if sys.argv[2] in o.oid:
        print('=====', o.oid, '|', o.note[:150])
        for h in o.hyps:
            t = str(h).replace('\n', ' ')
            if len(t) <= maxlen and (os.environ.get('PAT', '"') in t):
                print('   ', t)
        print('  GOAL', str(o.goal).replace('\n', ' ')[:600])
