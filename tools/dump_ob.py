#!/usr/bin/env python3-vt
"""dump_ob.py <contract name> <oid substring> [out.smt2]: write the SMT-LIB text of one obligation (debugging aid)"""
import sys, os
ROOT = os.path.dirname(os.path.dirname(os.path.abspath(__file__)))
sys.path.insert(0, ROOT)
from pyvc.run import build
v = build()
c = v.reg.contracts[sys.argv[1]]
v.verify(c)
for o in v.obligations:
    if sys.argv[2] in o.oid:
        out = sys.argv[3] if len(sys.argv) > 3 else '/tmp/ob.smt2'
        open(out, 'w').write(o.smt2())
        print(o.oid, '->', out, 'note:', o.note[:200])
        break
