#!/bin/sh
# mutcheck.sh <property> <contract-name substring> <file under pybufrkit/> <sed expression>: verify the named contracts against a scratch copy
# of /repo in which the sed expression has been applied to the file (sanity check of the verifier: a property-breaking edit must be refuted)
P=$1; ONLY=$2; F=$3; EXPR=$4
D=$(mktemp -d /tmp/mutcheck.XXXXXX)
cp -r /repo/pybufrkit $D/
sed -i "$EXPR" $D/pybufrkit/$F
if diff -q /repo/pybufrkit/$F $D/pybufrkit/$F >/dev/null; then echo "mutation did not change $F"; rm -rf $D; exit 2; fi
diff /repo/pybufrkit/$F $D/pybufrkit/$F | head -6
cd /verif && PYVC_REPO=$D ./check $P --no-bounded --dump --only "$ONLY" 2>&1 | grep -v "^proved\|^WARNING\|^contract" | cut -c1-220 | head -12
rm -rf $D
