#!/bin/sh
# confirm_seed.sh <dir with patch.diff demo.py meta.json> : in a scratch worktree of /repo confirm that (1) demo passes without the patch,
# (2) the patch applies, (3) demo fails with it, (4) the repository test suite still passes with it.  Removes the worktree afterwards.
D=$1; N=$(basename $D); W=/tmp/confirm_$N
git -C /repo worktree add --detach $W HEAD >/dev/null 2>&1 || { echo "$N cannot create worktree"; exit 2; }
cd $W
PYTHONPATH=$W timeout 600 /venv/bin/python $D/demo.py >/tmp/confirm_$N.clean.log 2>&1; A=$?
git apply $D/patch.diff 2>/tmp/confirm_$N.apply.log; P=$?
PYTHONPATH=$W timeout 600 /venv/bin/python $D/demo.py >/tmp/confirm_$N.patched.log 2>&1; B=$?
T=skipped
if [ "$2" != "notests" ]; then
  PYTHONPATH=$W /venv/bin/python -m pytest -q -p no:cacheprovider --timeout=900 -x >/tmp/confirm_$N.tests.log 2>&1; T=$?
fi
cd /; git -C /repo worktree remove --force $W
echo "$N demo_clean=$A apply=$P demo_patched=$B tests_rc=$T $(tail -1 /tmp/confirm_$N.tests.log 2>/dev/null)"
