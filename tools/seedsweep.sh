#!/bin/sh
# seedsweep.sh [tier] [names...]: run the registered check of each seeded change's property against a scratch copy of /repo with the
# change applied (PYVC_REPO), 6 at a time.  Output: one line per seed with the exit code and the first VIOLATION line.
TIER=${1:-quick}; shift
NAMES=${@:-$(ls /verif/seeded)}
mkdir -p /tmp/sweep
run_one() {
  n=$1; p=${n%_*}
  /verif/tools/mkmut.sh $n > /dev/null 2>&1
  mkdir -p /tmp/sweep/$n
  # a private copy of /verif so that evidence / replays of concurrent runs do not collide
  rsync -a --exclude .git --exclude replays --exclude evidence /verif/ /tmp/sweep/$n/verif/
  (cd /tmp/sweep/$n/verif && PYVC_REPO=/tmp/mut_$n ./check $p --tier $TIER $SWEEP_ARGS > /tmp/sweep/$n/log 2>&1; echo $? > /tmp/sweep/$n/rc)
  echo "$n rc=$(cat /tmp/sweep/$n/rc) $(grep -m1 -E '^VIOLATION|^UNDECIDED|^CHECKER' /tmp/sweep/$n/log | cut -c1-170)"
  rm -rf /tmp/sweep/$n/verif /tmp/mut_$n
}
i=0
for n in $NAMES; do
  run_one $n &
  i=$((i+1))
  if [ $((i % 6)) -eq 0 ]; then wait; fi
done
wait
