"""C17 bounded layer: metadata expression parsing, first-match lookup, metadata-only decoding."""
import itertools
import json
import os
import random

from bounded.common import Tally, io_main
from bounded import refcodec as R, gen as G
from bounded.codec import safe, msg_key, msg_sample, corpus_files, read_first_message

REPO = os.environ.get('PYVC_REPO', '/repo')


def ref_parse(expr):
    """The statement: -> ('ok', (k | None, name)) | ('error',) | ('open',) for expressions the statement leaves open"""
    t = expr.strip()
    if not t.startswith('%'):
        return ('error',)
    body = t[1:]
    n = body.count('.')
    if n == 0:
        return ('ok', (None, body))
    if n > 1:
        return ('open',)
    idx, name = body.split('.')
    plain = idx.isdigit() and idx.isascii()
    if plain:
        return ('ok', (int(idx), name))
    try:
        v = int(idx)
    except ValueError:
        return ('error',)
    return ('ok', (v, name))          # Python accepts a few more integer spellings ('-1', ' 1', '+1'): numeric, so accepted


def ref_query(msg, k, name):
    for s in msg.sections:
        if k is not None and s.get_metadata('index') != k:
            continue
        for p in s:
            if p.name == name:
                return ('found', p.value)
    return ('none',)


def all_parameter_names():
    names = set()
    d = os.path.join(REPO, 'pybufrkit', 'definitions')
    for f in os.listdir(d):
        if f.endswith('.json'):
            for p in json.load(open(os.path.join(d, f)))['parameters']:
                names.add(p['name'])
    return sorted(names)


def run(job):
    from pybufrkit.mdquery import MetadataExprParser, MetadataQuerent
    from pybufrkit.errors import MetadataExprParsingError
    from pybufrkit.decoder import Decoder, generate_bufr_message
    quick = job['tier'] == 'quick'
    rng = random.Random(job.get('seed', 0))
    t = Tally('C17', 'A: every string of length <= L over {%, ., 1, a, space, -} plus seeds, parse vs the statement; B: every parameter '
              'name of every bundled section definition x {%name, %k.name for k in 0..6} on generated messages of editions 2-4 with and '
              'without section 2, query vs first-match over the section list; C: metadata-only decode == full decode on sections 0-3, '
              'succeeds with the data section overwritten by noise, never builds template data, and a stream scanned in that mode cuts '
              'each message at its declared total length',
              'quick: L = 5, 12 messages; thorough: L = 7, 120 messages + corpus')
    parser = MetadataExprParser()
    L = 5 if quick else 7
    alphabet = '%.1a -'
    seeds = ['', ' ', '%length', ' %length ', '%0.length', '%x.length', '%1.2.a', '%.a', '%1.', '\t%edition\n', '%5.x', '%-1.a', '%+1.a',
             'length', '.%a', '%1 .a', '% 1.a', '%1a.b', '%٣.a']
    exprs = list(seeds)
    for n in range(0, L + 1):
        for tup in itertools.product(alphabet, repeat=n):
            exprs.append(''.join(tup))
    for e in exprs:
        exp = ref_parse(e)
        r = safe(parser.parse, e)
        t.case('A.parse', e, nontrivial=True, sample={'expr': e, 'expected': exp[0]})
        if exp[0] == 'open':
            continue
        if exp[0] == 'error':
            if r[0] == 'ok' or not isinstance(r[1], MetadataExprParsingError):
                t.violation('C17.parse', 'expression %r must be rejected with MetadataExprParsingError, got %r' % (e, r[1]), {'expr': e},
                            observed=repr(r[1]), expected='MetadataExprParsingError', key='C17.parse.reject|' + kind_of(e))
        else:
            if r[0] != 'ok' or tuple(r[1]) != exp[1]:
                t.violation('C17.parse', 'expression %r must parse to %r, got %r' % (e, exp[1], r[1]), {'expr': e}, observed=repr(r[1]),
                            expected=repr(exp[1]), key='C17.parse.accept|' + kind_of(e))
    # B / C on messages
    names = all_parameter_names() + ['no_such_parameter']
    q = MetadataQuerent(MetadataExprParser())
    dec = Decoder()
    msgs = []
    for ed in (2, 3, 4):
        for sec2 in (None, '10110'):
            for comp in (False, True):
                m = G.gen_message(rng, edition=ed, compressed=comp, sec2=sec2)
                data, _ = R.ref_encode(m['json'])
                msgs.append((m, data))
    for _ in range(0 if quick else 108):
        m = G.gen_message(rng)
        data, _ = R.ref_encode(m['json'])
        msgs.append((m, data))
    for m, data in msgs:
        full = dec.process(data)
        info = safe(dec.process, data, '<s>', b'BUFR', True)
        if info[0] != 'ok':
            t.violation('C17.info', 'metadata-only decode fails: %r' % (info[1],), {'bytes': data.hex()}, key='C17.info.fail')
            continue
        info = info[1]
        for which, msg in (('full', full), ('info', info)):
            for name in names:
                for k in (None, 0, 1, 2, 3, 4, 5, 6):
                    if which == 'info' and not quick and k not in (None, 1, 3):
                        continue
                    expr = '%' + name if k is None else '%%%d.%s' % (k, name)
                    exp = ref_query(msg, k, name)
                    r = safe(q.query, msg, expr)
                    t.case('B.query', (m['edition'], m['sec2'] is not None, which, expr), sample={'edition': m['edition'], 'expr': expr})
                    if r[0] != 'ok':
                        t.violation('C17.query', 'query %r raises %r' % (expr, r[1]), {'expr': expr, 'bytes': data.hex()}, key='C17.query.raise')
                        continue
                    got = r[1]
                    ok = (got is None) if exp[0] == 'none' else (got is exp[1] or got == exp[1])
                    if not ok:
                        t.violation('C17.query', 'edition %d%s: %r returns %r, first match is %r' % (
                            m['edition'], ' with section 2' if m['sec2'] is not None else '', expr, got, exp[1] if exp[0] == 'found' else None),
                            {'expr': expr, 'bytes': data.hex()}, observed=repr(got), expected=repr(exp), key='C17.query|' + ('idx' if k is not None else 'first'))
        # C: same metadata as the full decode for sections 0-3, no template data, sections after 3 absent
        fi = [(s.get_metadata('index'), [(p.name, p.value) for p in s]) for s in info.sections]
        ff = [(s.get_metadata('index'), [(p.name, p.value) for p in s if p.type != 'template_data']) for s in full.sections
              if s.get_metadata('index') <= 4]
        t.case('C.info-vs-full', msg_key(m), sample=msg_sample(m))
        f03 = [x for x in ff if x[0] <= 3]
        i03 = [x for x in fi if x[0] <= 3]
        if f03 != i03:
            t.violation('C17.info', 'metadata-only decode differs from the full decode on sections 0-3', {'bytes': data.hex()},
                        observed=repr(i03)[:300], expected=repr(f03)[:300], key='C17.info.values')
        if any(p.type == 'template_data' for s in info.sections for p in s) or any(s.get_metadata('index') > 4 for s in info.sections):
            t.violation('C17.info', 'metadata-only decode configured the data section or later sections', {'bytes': data.hex()}, key='C17.info.sections')
        # damaged data section: overwrite the data bits with noise, keep lengths
        rm = R.RefDecoder(data, fallback=False).decode()
        s4, ln4 = rm.extents[4]
        noisy = bytearray(data)
        for i in range(s4 + 4, s4 + ln4):
            noisy[i] = rng.getrandbits(8)
        noisy = bytes(noisy)
        r = safe(dec.process, noisy, '<s>', b'BUFR', True)
        t.case('C.noise', msg_key(m))
        if r[0] != 'ok':
            t.violation('C17.info', 'metadata-only decode fails on a message whose data section is damaged: %r' % (r[1],),
                        {'bytes': noisy.hex()}, key='C17.info.noise')
        else:
            gi = [(s.get_metadata('index'), [(p.name, p.value) for p in s]) for s in r[1].sections if s.get_metadata('index') <= 3]
            if gi != i03:
                t.violation('C17.info', 'metadata of a message with damaged data section differ', {'bytes': noisy.hex()}, key='C17.info.noise.values')
        # stream scan in info mode: bytes from the declared total length
        stream = b'xx' + noisy + b'\r\r\n' + data + b'zz'
        r = safe(lambda: [mm.serialized_bytes for mm in generate_bufr_message(dec, stream, info_only=True)])
        t.case('C.scan', msg_key(m))
        if r[0] != 'ok' or r[1] != [noisy, data]:
            t.violation('C17.scan', 'info-only stream scan does not cut messages at their declared total length (%r)' % (
                r[1] if r[0] != 'ok' else [len(x) for x in r[1]],), {'stream': stream.hex()}, key='C17.scan')
    # D: ONE querent across messages whose first holder of a name differs (optional section 2 present / absent, distinguishable values), both
    # orders: the answer on each message is the first match over THAT message's sections, whatever was asked before
    import copy
    for ed in (2, 3, 4):
        base = G.gen_message(rng, edition=ed, compressed=False, sec2='1011')
        with2 = copy.deepcopy(base['json'])
        with2[2][1] = '10100101'                      # reserved_bits of section 2, different from section 3's
        with2[3][1] = '00001111'
        without = copy.deepcopy(base['json'])
        del without[2]
        without[1][5 if ed != 2 else 4] = False
        without[2][1] = '11110000'
        pair = []
        for js in (with2, without):
            data, _ = R.ref_encode(js)
            pair.append(dec.process(data))
        for order in ((0, 1), (1, 0), (0, 1, 0)):
            q2 = MetadataQuerent(MetadataExprParser())
            for step, which in enumerate(order):
                msg = pair[which]
                for name in names:
                    expr = '%' + name
                    exp = ref_query(msg, None, name)
                    r = safe(q2.query, msg, expr)
                    t.case('D.reuse', (ed, order, step, name), sample={'edition': ed, 'order': list(order), 'expr': expr})
                    got = r[1] if r[0] == 'ok' else r[1]
                    ok = r[0] == 'ok' and ((got is None) if exp[0] == 'none' else (got is exp[1] or got == exp[1]))
                    if not ok:
                        t.violation('C17.query', 'one querent across messages (section 2 %s after %s): %r returns %r, first match in this message is %r'
                                    % ('present' if which == 0 else 'absent', 'a message where it is ' + ('present' if order[step - 1] == 0 else 'absent')
                                       if step else 'nothing', expr, got, exp[1] if exp[0] == 'found' else None),
                                    {'expr': expr, 'edition': ed, 'order': list(order)}, observed=repr(got), expected=repr(exp), key='C17.query.reuse')
    # a table-definition message (category 11, n_subsets > 0) with a damaged data section in an info-only scan
    from bounded.C20 import def_message, gen_defs
    for _ in range(3 if quick else 20):
        d = def_message(*gen_defs(rng))
        rm = R.RefDecoder(d, fallback=False).decode(data_section=False)
        s4, ln4 = rm.extents[4]
        noisy = bytearray(d)
        for i in range(s4 + 4, s4 + ln4):
            noisy[i] = 0xff
        noisy = bytes(noisy)
        other = msgs[0][1]
        stream = noisy + b'\r\r\n' + other
        r = safe(lambda: [mm.serialized_bytes for mm in generate_bufr_message(Decoder(), stream, info_only=True)])
        t.case('C.scan.definition', len(d))
        if r[0] != 'ok' or r[1] != [noisy, other]:
            t.violation('C17.scan', 'info-only scan of a stream whose table-definition message has a damaged data section: %r' % (
                r[1] if r[0] != 'ok' else [len(x) for x in r[1]],), {'stream': stream.hex()}, key='C17.scan.definition')
    if not quick:
        for f in corpus_files():
            data = read_first_message(f)
            if data is None:
                continue
            r1, r2 = safe(dec.process, data), safe(dec.process, data, f, b'BUFR', True)
            if r1[0] != 'ok' or r2[0] != 'ok':
                continue
            t.case('C.corpus', os.path.basename(f))
            a = [(s.get_metadata('index'), [(p.name, p.value) for p in s]) for s in r1[1].sections if s.get_metadata('index') <= 3]
            b = [(s.get_metadata('index'), [(p.name, p.value) for p in s]) for s in r2[1].sections if s.get_metadata('index') <= 3]
            if a != b:
                t.violation('C17.info', 'metadata-only decode differs from full decode on %s' % os.path.basename(f), {'file': f}, key='C17.info.corpus')
    return t.result()


def kind_of(e):
    t = e.strip()
    if t == '':
        return 'empty'
    if not t.startswith('%'):
        return 'no-percent'
    return 'dots%d' % t.count('.')


if __name__ == '__main__':
    io_main(run)
