"""Shared plumbing of the bounded (run-time contract) layer; CPython under /venv/bin/python."""
import hashlib
import json
import sys
import time


class Tally(object):
    def __init__(self, prop, rule, bound):
        self.prop = prop
        self.rule = rule
        self.bound = bound
        self.evaluations = 0
        self.distinct = set()
        self.violations = []
        self.samples = []
        self.parts = {}
        self.exhaustive = False
        self.t0 = time.time()

    def case(self, part, key, nontrivial=True, sample=None):
        self.evaluations += 1
        self.parts[part] = self.parts.get(part, 0) + 1
        if nontrivial:
            self.distinct.add(hashlib.sha1(repr((part, key)).encode()).digest()[:8])
        if sample is not None and len([s for s in self.samples if s.get('part') == part]) < 2:
            self.samples.append(dict(part=part, case=sample))

    def violation(self, contract, what, inp, observed=None, expected=None, key=None, function=''):
        k = key or (contract + ':' + hashlib.sha1(json.dumps(inp, sort_keys=True, default=str).encode()).hexdigest()[:12])
        if any(v['key'] == k for v in self.violations):
            return
        if len(self.violations) < 25:
            self.violations.append({'contract': contract, 'what': what, 'input': inp, 'observed': observed,
                                    'expected': expected, 'key': k, 'function': function})

    def result(self):
        return {'property': self.prop, 'rule': self.rule, 'bound': self.bound, 'evaluations': self.evaluations,
                'distinct_nontrivial': len(self.distinct), 'violations': self.violations, 'samples': self.samples[:10],
                'parts': self.parts, 'exhaustive': self.exhaustive, 'wall_s': round(time.time() - self.t0, 2)}


def io_main(run):
    inp, outp = sys.argv[1], sys.argv[2]
    with open(inp) as f:
        job = json.load(f)
    try:
        res = run(job)
    except Exception as ex:      # noqa
        import traceback
        res = {'error': 'bounded layer crashed: %r' % (ex,), 'trace': traceback.format_exc()[-3000:]}
    with open(outp, 'w') as f:
        json.dump(res, f, default=str)
