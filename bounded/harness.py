"""Replay / enumeration harnesses: build real objects for the parameters of a contracted function.

A harness is a generator `h(contract_json, scalars, rng, fixed)` yielding (env, call, description):
env maps parameter names to real values (the contract is evaluated on them), call() performs the
real call, description is JSON-able and enough to rebuild the input.
"""
import importlib
import itertools

_REGISTRY = []


def harness(prefix):
    def deco(f):
        _REGISTRY.append((prefix, f))
        return f
    return deco


def find(target):
    best = None
    for prefix, f in _REGISTRY:
        if target.startswith(prefix) and (best is None or len(prefix) > len(best[0])):
            best = (prefix, f)
    return best[1] if best else None


def extra_ns():
    return {}


def resolve(target):
    """'pybufrkit.mod.Class.meth' -> (callable on class / module, is_method)"""
    parts = target.split('.')
    mod = importlib.import_module('.'.join(parts[:2]))
    obj = mod
    for p in parts[2:]:
        obj = getattr(obj, p)
    return obj, len(parts) > 3


def around(v, lo=None, hi=None):
    out = []
    for d in (0, 1, -1, 2, -2, 7, -7, 8, -8):
        x = v + d
        if lo is not None and x < lo:
            continue
        if hi is not None and x > hi:
            continue
        if x not in out:
            out.append(x)
    return out


# ---- pure functions over ints / strings ---------------------------------------------------------

@harness('pybufrkit.encoder.nbits_for_uint')
def h_pure_int(cj, scalars, rng, fixed):
    f, _ = resolve(cj['target'])
    names = list(cj['params'])
    cands = []
    if fixed:
        cands.append(fixed)
    base = {n: scalars.get(n, 1) for n in names}
    cands.append(base)
    for n in names:
        for x in around(base[n]):
            d = dict(base)
            d[n] = x
            cands.append(d)
    for k in range(0, 65):
        for delta in (-1, 0, 1):
            cands.append({names[0]: 2 ** k + delta})
    for env in cands:
        yield dict(env), (lambda env=env: f(**env)), env


# ---- bitops ----------------------------------------------------------------------------------------

def _reader(bits, pos):
    from pybufrkit.bitops import BitStringBitReader
    import bitstring
    r = BitStringBitReader(b'')
    r.bit_stream = bitstring.BitStream(bin=bits)
    r.bit_stream.pos = pos
    return r


def _writer(bits):
    from pybufrkit.bitops import BitStringBitWriter
    import bitstring
    w = BitStringBitWriter()
    w.bit_stream = bitstring.BitStream(bin=bits)
    return w


def _rand_bits(rng, n):
    return ''.join(rng.choice('01') for _ in range(n))


LENS = [0, 1, 2, 7, 8, 9, 15, 16, 17, 24, 31, 32, 33, 40, 63, 64, 65, 72, 96, 128, 130, 200]


@harness('pybufrkit.bitops.BitStringBitReader.')
@harness('pybufrkit.bitops.BitReader.')
def h_reader(cj, scalars, rng, fixed):
    from pybufrkit.bitops import BitStringBitReader
    meth = cj['target'].rsplit('.', 1)[1]
    names = [n for n in cj['params'] if n != 'self']
    if meth == '__init__':
        for s in (b'', b'\x00', b'BUFR', bytes(range(7))):
            r = BitStringBitReader.__new__(BitStringBitReader)
            yield {'self': r, 's': s}, (lambda r=r, s=s: BitStringBitReader.__init__(r, s)), {'s': repr(s)}
        return
    arglists = []
    if fixed:
        arglists.append((fixed['bits'], fixed['pos'], fixed['args']))
    base = {n: scalars.get(n, 1) for n in names}
    variants = [base]
    for n in names:
        if isinstance(base[n], int) and not isinstance(base[n], bool):
            for x in around(base[n]):
                d = dict(base)
                d[n] = x
                variants.append(d)
    if 'nbits' in names or 'nbytes' in names:
        key = 'nbits' if 'nbits' in names else 'nbytes'
        for x in list(range(0, 70)):
            d = dict(base)
            d[key] = x
            variants.append(d)
    if 'data_type' in names:
        for t in ('uint', 'bytes', 'bool', 'bin', 'int'):
            for x in (0, 1, 2, 8, 16, 24):
                variants.append({'data_type': t, 'nbits': x})
    if 'fmt_string' in names:
        variants = [{'fmt_string': f} for f in ('uint:3', 'uintbe:8', 'uintbe:3', 'uint:0', 'bool', 'bin:0', 'bin:4', 'bin:-8',
                                                'bytes:1', 'bytes:0', 'uint:64', 'uint:20')]
    for v in variants:
        for L in LENS:
            for pos in sorted(set([0, 1, L // 2, max(L - 1, 0), L])):
                if pos > L:
                    continue
                ones = rng.random() < 0.3
                bits = ('1' * L) if ones else _rand_bits(rng, L)
                arglists.append((bits, pos, v))
    for bits, pos, v in arglists:
        r = _reader(bits, pos)
        env = dict(v)
        env['self'] = r
        f = getattr(r, meth)
        yield env, (lambda f=f, v=v: f(**v)), {'bits': bits, 'pos': pos, 'args': v}


@harness('pybufrkit.bitops.BitStringBitWriter.')
@harness('pybufrkit.bitops.BitWriter.')
def h_writer(cj, scalars, rng, fixed):
    from pybufrkit.bitops import BitStringBitWriter
    meth = cj['target'].rsplit('.', 1)[1]
    names = [n for n in cj['params'] if n != 'self']
    if meth == '__init__':
        w = BitStringBitWriter.__new__(BitStringBitWriter)
        yield {'self': w}, (lambda: BitStringBitWriter.__init__(w)), {}
        return
    text = cj.get('variant') == 'text'
    base = {}
    for n in names:
        ty = cj['params'][n]
        dflt = {'int': 1, 'bool': True, 'str': '', 'bytes': b'', 'val': 1}.get(ty, 1)
        v = scalars.get(n, dflt)
        if ty == 'bytes' and isinstance(v, str):
            v = v.encode('latin-1')
        base[n] = v
    variants = []
    if fixed:
        a = dict(fixed['args'])
        variants.append(a)
    variants.append(base)
    for n in names:
        if isinstance(base[n], int) and not isinstance(base[n], bool):
            for x in around(base[n]):
                d = dict(base)
                d[n] = x
                variants.append(d)
    if 'nbits' in names and 'value' in names and cj['params']['value'] == 'int':
        for nb in range(1, 66):
            for val in (0, 1, 2 ** (nb - 1), 2 ** nb - 2, 2 ** nb - 1, 2 ** nb, -1):
                d = dict(base)
                d['nbits'], d['value'] = nb, val
                variants.append(d)
    if meth == 'write_bytes':
        for val in (b'', b'A', b'AB', b'ABC ', b'\xff\xfe', b' x '):
            for nb in (0, 1, 2, 3, 5, 8):
                variants.append({'value': val.decode('latin-1') if text else val, 'nbytes': nb})
    if meth == 'write_bin':
        for val in ('', '0', '1', '0000', '0101', '0' * 15):
            variants.append({'value': val})
    if meth == 'write':
        for t, val, nb in (('uint', 5, 8), ('uint', 255, 8), ('bytes', 'BUFR', 32), ('bytes', b'7777', 32), ('bool', True, 1),
                           ('bool', False, 1), ('bin', '0000', 4), ('int', -3, 8), ('uint', 0, 24), ('bytes', 'ab', 64)):
            variants.append({'value': val, 'data_type': t, 'nbits': nb})
    for v in variants:
        for L in (0, 1, 7, 8, 11, 24, 32, 40, 64, 100):
            if 'bitpos' in v:
                poss = sorted(set([v['bitpos'], 0, 1, 7, 8, 9, 16]))
            else:
                poss = [None]
            for bp in poss:
                vv = dict(v)
                if bp is not None:
                    vv['bitpos'] = bp
                bits = _rand_bits(rng, L)
                w = _writer(bits)
                env = dict(vv)
                env['self'] = w
                f = getattr(w, meth)
                yield env, (lambda f=f, vv=vv: f(**vv)), {'bits': bits, 'args': {k: (x.decode('latin-1') if isinstance(x, bytes) else x) for k, x in vv.items()}}


# ---- functions / methods whose parameters are all scalars (ints, strings) -----------------------------

STR_SEEDS = ['', ' ', '%', '%a', '%1.a', '%x.a', '%1.2.a', ' %length ', '%.a', '%-1.a', '% 1.a', '%1 .a', 'a', '.', '%1.',
             '%+1.a', '%1_0.a', '%\u0661.a', '\t%edition\n', '%0.length', '%5.x']


def str_neighbours(s, rng, extra=()):
    out = [s, s.strip(), ' ' + s, s + ' ', s[:-1], s[1:], s + s]
    for i in range(min(len(s), 6)):
        out.append(s[:i] + s[i + 1:])
    out.extend(extra)
    seen = []
    for x in out:
        if x not in seen:
            seen.append(x)
    return seen


@harness('pybufrkit.mdquery.MetadataExprParser.')
def h_scalar_method(cj, scalars, rng, fixed):
    f, is_method = resolve(cj['target'])
    names = [n for n in cj['params'] if n != 'self']
    parts = cj['target'].split('.')
    import importlib
    cls = getattr(importlib.import_module('.'.join(parts[:2])), parts[2]) if is_method else None
    cands = []
    if fixed:
        cands.append(fixed)
    base = {}
    for n in names:
        ty = cj['params'][n]
        base[n] = scalars.get(n, {'int': 1, 'str': '', 'bool': True}.get(ty, 0))
    cands.append(base)
    for n in names:
        if isinstance(base[n], str):
            for x in str_neighbours(base[n], rng, STR_SEEDS):
                d = dict(base)
                d[n] = x
                cands.append(d)
        elif isinstance(base[n], int) and not isinstance(base[n], bool):
            for x in around(base[n]):
                d = dict(base)
                d[n] = x
                cands.append(d)
    for env in cands:
        e2 = dict(env)
        if cls is not None:
            obj = cls()
            e2['self'] = obj
            yield e2, (lambda obj=obj, env=env: getattr(obj, parts[-1])(**env)), env
        else:
            yield e2, (lambda env=env: f(**env)), env
