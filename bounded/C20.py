"""C20 bounded layer: in-stream (NCEP) table definitions govern the messages that follow them.  The extra entries are
process-global in pybufrkit, so every stream is scanned in a fresh subprocess."""
import json
import os
import random
import subprocess
import sys
import tempfile

from bounded.common import Tally, io_main
from bounded import refcodec as R, gen as G, oracle as O

REPO = os.environ.get('PYVC_REPO', '/repo')
DEF_TEMPLATE = [103000, 31001, 1, 2, 3, 101000, 31001, 300004, 105000, 31001, 300003, 205064, 101000, 31001, 30]
VERSION = 13


def fxy(d):
    s = '%06d' % d
    return s[0], s[1:3], s[3:]


def def_message(b_entries, d_entries):
    """b_entries: {id: (name, unit, scale, ref, nbits)}; d_entries: {id: (name, [member ids])} -> bytes (edition 3, category 11)"""
    vals = [1, 'ZZZ', 'TABLE A ENTRY'.ljust(32), ''.ljust(32)]
    vals.append(len(b_entries))
    for d, (name, unit, scale, ref, nbits) in b_entries.items():
        f, x, y = fxy(d)
        vals += [f, x, y, name[:32].ljust(32), name[32:64].ljust(32), unit.ljust(24), '+' if scale >= 0 else '-', str(abs(scale)).ljust(3),
                 '+' if ref >= 0 else '-', str(abs(ref)).ljust(10), str(nbits).ljust(3)]
    vals.append(len(d_entries))
    for d, (name, members) in d_entries.items():
        f, x, y = fxy(d)
        vals += [f, x, y, name.ljust(64), len(members)] + ['%06d' % m for m in members]
    js = G.sections_json(3, DEF_TEMPLATE, [vals], 1, False, None, version=VERSION, centre=7, category=11)
    return R.ref_encode(js)[0]


def merged_tables(defs):
    tb, td = R.load_tables(VERSION)
    tb, td = dict(tb), dict(td)
    for b_entries, d_entries in defs:
        for d, (name, unit, scale, ref, nbits) in b_entries.items():
            tb[d] = dict(name=name.rstrip(), unit=unit, scale=scale, ref=ref, nbits=nbits)
        for d, (name, members) in d_entries.items():
            td[d] = list(members)
    return tb, td


def gen_defs(rng, redefine=None, force_wrap=False):
    """1..4 new class 48-63 elements, 1..3 sequences over them (incl. a replication-only NCEP sequence and its use)"""
    b = {}
    n = rng.randint(1, 4)
    ids = redefine or [48001 + i for i in range(n)]
    for d in ids:
        kind = rng.random()
        if kind < 0.7:
            b[d] = ('ELEM %d' % d, 'NUMERIC', rng.choice([0, 1, 2, -1]), rng.choice([0, -10, -100, 50, -1024]), rng.choice([7, 9, 10, 14, 17]))
        elif kind < 0.85:
            b[d] = ('CODE %d' % d, 'CODE TABLE', 0, 0, rng.choice([3, 6]))
        else:
            b[d] = ('TEXT %d' % d, 'CCITT IA5', 0, 0, rng.choice([16, 64]))
    d = {}
    elems = list(b)
    d[361001] = ('SEQ ONE', [rng.choice(elems), 12101][:rng.choice([1, 2])] + [rng.choice(elems)])
    if rng.random() < 0.7:
        d[361002] = ('SEQ TWO', [rng.choice(elems), 101000 + rng.randint(1, 3), rng.choice(elems)])
    if force_wrap or rng.random() < 0.6:
        d[360002] = ('DRP8BIT', [101000, 31001])
        tops = [rng.choice(elems), 360002, 361001]
        if rng.random() < 0.6 and 361002 in d:
            tops += [360002, 361002]
        d[361010] = ('TOP', tops)
        if force_wrap or rng.random() < 0.6:
            # the sequence that uses the replication-only sequence sits inside an ordinary replication with explicit members
            d[361011] = ('WRAP', [101000 + rng.choice([2, 3]), 361010] if rng.random() < 0.5 else [rng.choice(elems), 101000, 31001, 361010])
    return b, d


FORCE_WRAP = [False]


def gen_data(rng, tabs, defs):
    b, d = defs[-1]
    tops = [x for x in (361011, 361010, 361002, 361001) if x in d]
    if 361011 in d and (FORCE_WRAP[0] or rng.random() < 0.6):
        tops = [361011]
    top = rng.choice(tops)
    ids = [top] + rng.sample(list(b), 1) + [12101, 1001]
    rng.shuffle(ids)
    if top in (361010, 361002) and rng.random() < 0.5:
        # ... or inside a replication of the message's own template
        k = ids.index(top)
        ids[k:k + 1] = [101000, 31001, top] if rng.random() < 0.5 else [101002, top]
    nsub = rng.choice([1, 2])
    comp = rng.random() < 0.4
    tree = R.build_tree(ids, tabs, ncep=True)
    if comp:
        io = G.GenIO(rng, nsub, True)
        R.Walker(tabs, io).walk(tree)
        values = io.values
    else:
        values = []
        for _ in range(nsub):
            io = G.GenIO(rng, 1, False)
            R.Walker(tabs, io).walk(tree)
            values.append(io.values[0])
    js = G.sections_json(3, ids, values, nsub, comp, None, version=VERSION, centre=7, category=2)
    return R.ref_encode(js, tabs=tabs, ncep=True)[0], ids


SCAN = r'''
import json, sys
sys.path.insert(0, %r)
from pybufrkit.decoder import Decoder, generate_bufr_message
stream = bytes.fromhex(open(sys.argv[1]).read())
out = []
try:
    for m in generate_bufr_message(Decoder(compiled_template_cache_max=%s), stream):
        td = m.template_data.value
        out.append({'bytes': m.serialized_bytes.hex(), 'category': m.data_category.value,
                    'labels': [[str(d) for d in ds] for ds in td.decoded_descriptors_all_subsets],
                    'values': [[(v.decode('latin-1') if isinstance(v, bytes) else v) for v in vs] for vs in td.decoded_values_all_subsets]})
except Exception as ex:
    out.append({'error': '%%s: %%s' %% (type(ex).__name__, ex)})
json.dump(out, open(sys.argv[2], 'w'))
'''


def scan(stream, compiled=None):
    tmp = tempfile.mkdtemp(prefix='c20_')
    try:
        with open(os.path.join(tmp, 'in.hex'), 'w') as f:
            f.write(stream.hex())
        env = dict(os.environ, PYTHONPATH=REPO)
        p = subprocess.run([sys.executable, '-B', '-c', SCAN % (REPO, compiled), os.path.join(tmp, 'in.hex'), os.path.join(tmp, 'out.json')],
                           capture_output=True, text=True, env=env, timeout=300)
        if not os.path.exists(os.path.join(tmp, 'out.json')):
            return [{'error': 'scan process failed: ' + p.stderr[-600:]}]
        return json.load(open(os.path.join(tmp, 'out.json')))
    finally:
        import shutil
        shutil.rmtree(tmp, ignore_errors=True)


def run(job):
    quick = job['tier'] == 'quick'
    rng = random.Random(job.get('seed', 0))
    t = Tally('C20', 'streams of 1-2 table-definition messages (NCEP layout, category 11: 1..4 new class-48 elements with varied width / scale / '
              'reference / sign / unit, 1..3 sequences incl. a replication-only sequence used once or twice; the second definition message '
              'either adds or REDEFINES the same descriptors) followed by 1-3 data messages over the new and over standard descriptors, both '
              'storage modes: every data message must decode to the values / labels the reference decoder gives with the merged tables '
              '(later definitions override earlier ones), standard descriptors keep their meaning; the definition messages are yielded too; '
              'each stream in a fresh process; with and without template compilation; plus tests/data/prepbufr.bufr as a monitor run',
              'quick: 14 streams; thorough: 250 streams')
    for k in range(14 if quick else 250):
        # the first streams are directed: a replication-only sequence used below an ordinary replication, one definition message
        FORCE_WRAP[0] = k < 5
        defs = [gen_defs(rng, force_wrap=FORCE_WRAP[0])]
        two = rng.random() < 0.5 and not FORCE_WRAP[0]
        if two:
            redefine = list(defs[0][0]) if rng.random() < 0.6 else [48011 + i for i in range(rng.randint(1, 2))]
            b2, d2 = gen_defs(rng, redefine)
            if redefine[0] != 48001:
                d2 = {}
            else:
                # keep the sequence ids of the first message so that they are redefined too
                d2 = {q: v for q, v in d2.items() if q in defs[0][1]}
            defs.append((b2, d2))
        parts = []
        expected = []
        for i, df in enumerate(defs):
            parts.append(def_message(*df))
            expected.append(None)
            tabs = merged_tables(defs[:i + 1])
            if i == len(defs) - 1 or rng.random() < 0.5:
                for _ in range(rng.randint(1, 2) if i == len(defs) - 1 else 1):
                    try:
                        data, ids = gen_data(rng, tabs, [merged_as_def(defs[:i + 1])])
                    except R.RefError:
                        continue
                    parts.append(data)
                    expected.append((tabs, ids))
        stream = b''.join(rng.choice([b'', b'\r\r\n']) + p for p in parts)
        compiled = rng.choice([None, None, 2])
        res = scan(stream, compiled)
        t.case('stream', (k, len(defs), compiled), sample={'definition_messages': len(defs), 'redefines': two, 'data_messages': sum(1 for e in expected if e),
                                                           'compiled': compiled})
        if res and 'error' in res[-1]:
            t.violation('C20', 'scanning a stream of %d definition message(s)%s and %d data message(s) fails: %s' % (
                len(defs), ' (the second redefines descriptors of the first)' if two else '', sum(1 for e in expected if e), res[-1]['error']),
                {'stream': stream.hex(), 'compiled': compiled}, key='C20.fail|%s|%s' % ('two' if two else 'one', res[-1]['error'].split(':')[0]))
            continue
        if [r['bytes'] for r in res] != [p.hex() for p in parts]:
            t.violation('C20', 'the stream does not yield its %d messages (definition messages included)' % len(parts), {'stream': stream.hex()}, key='C20.yield')
            continue
        for r, exp, p in zip(res, expected, parts):
            if exp is None:
                continue
            tabs, ids = exp
            rm = R.RefDecoder(p, tabs=tabs, ncep=True).decode()
            for i in range(rm.n_subsets):
                ok = r['labels'][i] == rm.subsets[i]['labels'] and len(r['values'][i]) == len(rm.subsets[i]['values']) and \
                    all(O.val_eq(a, b) for a, b in zip(r['values'][i], rm.subsets[i]['values']))
                if not ok:
                    kk = next((q for q, (a, b) in enumerate(zip(r['values'][i], rm.subsets[i]['values'])) if not O.val_eq(a, b)), None)
                    t.violation('C20', 'data message over %r decoded after %d definition message(s)%s: subset %d %s' % (
                        ids, len(defs), ' (redefining)' if two else '', i,
                        'value %r (%s) is %r, the definitions give %r' % (kk, r['labels'][i][kk], r['values'][i][kk], float(rm.subsets[i]['values'][kk]) if rm.subsets[i]['values'][kk] is not None and not isinstance(rm.subsets[i]['values'][kk], bytes) else rm.subsets[i]['values'][kk])
                        if kk is not None else 'labels / counts differ'), {'stream': stream.hex(), 'compiled': compiled},
                        key='C20.values|%s|%s' % ('two' if two else 'one', 'compiled' if compiled else 'plain'))
                    break
    # monitor: the bundled NCEP file
    path = os.path.join(REPO, 'tests', 'data', 'prepbufr.bufr')
    if os.path.exists(path):
        res = scan(open(path, 'rb').read())
        t.case('prepbufr', 'monitor')
        if not res or 'error' in res[-1] or len(res) != 13:
            t.violation('C20', 'tests/data/prepbufr.bufr: %r' % (res[-1].get('error') if res else 'no messages',), {'file': path}, key='C20.prepbufr')
    return t.result()


def merged_as_def(defs):
    b, d = {}, {}
    for bb, dd in defs:
        b.update(bb)
        d.update(dd)
    return b, d


if __name__ == '__main__':
    io_main(run)
