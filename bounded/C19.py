"""C19 bounded layer (never counted as proved):

 A. conformance of the library model L7 (spec/bitmodel.py) with the real bitstring, for every width
    1..64 x every bit offset 0..7 x values {0, 1, 2^(n-1), 2^n-2, 2^n-1} and the failure cases
    (zero / negative widths, unaligned uintbe, short streams, values that do not fit);
 B. the bitops contracts as run-time monitors on the real wrappers over the same grid
    (unsigned, signed, in-place overwrite, bytes, bool, bin);
 C. random mixed field sequences (up to 200 fields) written and read back.
"""
import random

import bitstring

from bounded.common import Tally, io_main
from bounded.native import NativeContract
from bounded import harness as H
from spec import bitmodel as M


def outcome(f):
    try:
        return ('ok', f())
    except M.ReadError:
        return ('ReadError', None)
    except bitstring.ReadError:
        return ('ReadError', None)
    except ValueError:
        return ('ValueError', None)
    except Exception as ex:     # noqa
        return (type(ex).__name__, None)


def values_for(n):
    return sorted(set([0, 1, 2 ** (n - 1), 2 ** n - 2, 2 ** n - 1]))


def part_a(t, quick):
    # reads
    for n in list(range(-2, 67)):
        for off in range(8):
            for avail in sorted(set([n - 1, n, n + 3])):
                if avail < 0:
                    continue
                for kind in ('uint', 'uintbe'):
                    total = off + avail
                    bits = [random.getrandbits(1) for _ in range(total)]
                    if n >= 1 and avail >= n:
                        for v in (values_for(n) if not quick or n % 7 == 1 or n <= 9 else [2 ** n - 1, 0]):
                            bb = list(bits)
                            for i in range(n):
                                bb[off + i] = (v >> (n - 1 - i)) & 1
                            check_read(t, kind, n, off, bb)
                    else:
                        check_read(t, kind, n, off, bits)
    # bool / bytes / bin reads
    for off in range(8):
        for avail in range(0, 20):
            bits = [random.getrandbits(1) for _ in range(off + avail)]
            ms = M.MStream(bits, off)
            rs = bitstring.BitStream(bin=''.join(map(str, bits)))
            rs.pos = off
            cmp_outcome(t, 'read bool', (off, avail), outcome(lambda: M.bs_read_bool(ms)), outcome(lambda: rs.read('bool')), ms.pos, rs.pos)
            for nb in (-1, 0, 1, 2):
                ms = M.MStream(bits, off)
                rs = bitstring.BitStream(bin=''.join(map(str, bits)))
                rs.pos = off
                cmp_outcome(t, 'read bytes', (off, avail, nb), outcome(lambda: M.bs_read_bytes(ms, nb)),
                            outcome(lambda: rs.read('bytes:%d' % nb)), ms.pos, rs.pos)
            for nb in (-8, -1, 0, 1, 5, 16):
                ms = M.MStream(bits, off)
                rs = bitstring.BitStream(bin=''.join(map(str, bits)))
                rs.pos = off
                cmp_outcome(t, 'read bin', (off, avail, nb), outcome(lambda: M.bs_read_bin(ms, nb)),
                            outcome(lambda: rs.read('bin:%d' % nb)), ms.pos, rs.pos)
    # appends
    for n in range(-1, 67):
        for off in range(8):
            for kind in ('uint', 'uintbe'):
                vals = (values_for(n) + [2 ** n, -1]) if n >= 1 else [0, 1]
                for v in vals:
                    pre = [random.getrandbits(1) for _ in range(off)]
                    ms = M.MStream(pre)
                    rs = bitstring.BitStream(bin=''.join(map(str, pre)))

                    def real():
                        nonlocal rs
                        rs += '%s:%d=%d' % (kind, n, v)
                    mo = outcome(lambda: M.bs_append_uint(ms, kind, n, v))
                    ro = outcome(real)
                    cmp_outcome(t, 'append ' + kind, (n, off, v), mo, ro, ''.join(map(str, ms.bits)), rs.bin, ms.len, rs.len)
    # Bits(uint/uintbe, length) and slice assignment
    for n in range(0, 66):
        for kind in ('uint', 'uintbe'):
            for v in ((values_for(n) + [2 ** n]) if n >= 1 else [0]):
                mo = outcome(lambda: (lambda b: (b.len, b.val))(M.bits_uint(kind, v, n)))
                ro = outcome(lambda: (lambda b: (b.len, b.uint))(bitstring.Bits(**{kind: v, 'length': n})))
                cmp_outcome(t, 'Bits ' + kind, (n, v), mo, ro)
    for total in (0, 5, 24, 40, 70):
        for a in range(0, total + 1, 3):
            for w in (0, 1, 7, 8, 24):
                b = a + w
                if b > total:
                    continue
                for n2 in (1, 7, 8, 24, 33):
                    v2 = random.getrandbits(n2)
                    pre = [random.getrandbits(1) for _ in range(total)]
                    ms = M.MStream(pre)
                    rs = bitstring.BitStream(bin=''.join(map(str, pre)))
                    M.bs_setslice(ms, a, b, M.MBits(n2, v2))
                    rs[a:b] = bitstring.Bits(uint=v2, length=n2)
                    cmp_outcome(t, 'setslice', (total, a, b, n2), ('ok', None), ('ok', None), ''.join(map(str, ms.bits)), rs.bin, ms.len, rs.len)
    # bool / bin / bytes appends
    for pre_n in range(0, 9):
        pre = [random.getrandbits(1) for _ in range(pre_n)]
        for v in (True, False):
            ms = M.MStream(pre)
            rs = bitstring.BitStream(bin=''.join(map(str, pre)))
            M.bs_append_bool(ms, v)
            rs += 'bool={}'.format(v)
            cmp_outcome(t, 'append bool', (pre_n, v), ('ok', None), ('ok', None), ''.join(map(str, ms.bits)), rs.bin)
        for s in ('', '0', '1', '0000', '01011', '0' * 15, '2', 'x'):
            for n in (len(s), len(s) + 1):
                ms = M.MStream(pre)
                rs = bitstring.BitStream(bin=''.join(map(str, pre)))

                def real():
                    nonlocal rs
                    rs += 'bin:{}={}'.format(n, s)
                mo = outcome(lambda: M.bs_append_bin(ms, n, s))
                ro = outcome(real)
                if s == '' and n == 0:
                    continue      # 'bin:0=' is not a parsable token; bitops never produces it (padding > 0)
                cmp_outcome(t, 'append bin', (pre_n, s, n), mo, ro, ''.join(map(str, ms.bits)), rs.bin)
        for s in (b'', b'A', b'\xff\x00 ', b'  '):
            ms = M.MStream(pre)
            rs = bitstring.BitStream(bin=''.join(map(str, pre)))
            M.bs_append_bytes(ms, s)
            rs += bitstring.Bits(bytes=s)
            cmp_outcome(t, 'append bytes', (pre_n, s), ('ok', None), ('ok', None), ''.join(map(str, ms.bits)), rs.bin)


def check_read(t, kind, n, off, bits):
    ms = M.MStream(bits, off)
    rs = bitstring.BitStream(bin=''.join(map(str, bits)))
    rs.pos = off
    mo = outcome(lambda: M.bs_read_uint(ms, kind, n))
    ro = outcome(lambda: rs.read('%s:%d' % (kind, n)))
    cmp_outcome(t, 'read ' + kind, (n, off, len(bits) - off, tuple(bits[off:off + max(n, 0)])), mo, ro, ms.pos, rs.pos)


def cmp_outcome(t, what, key, mo, ro, *pairs):
    t.case('A.model-conformance', (what, key), sample={'op': what, 'case': repr(key)[:120], 'model': repr(mo)[:60], 'library': repr(ro)[:60]})
    same = (mo == ro)
    if mo[0] != 'ok' and ro[0] != 'ok':
        # on failure the state is unspecified
        pairs = ()
    for i in range(0, len(pairs), 2):
        if pairs[i] != pairs[i + 1]:
            same = False
    if not same:
        t.model_mismatch.append({'op': what, 'case': repr(key), 'model': repr(mo), 'library': repr(ro), 'state': repr(pairs)[:200]})


def part_b(t, contracts, rng, quick):
    """Contracts as run-time monitors on the real wrappers."""
    for name, cj in sorted(contracts.items()):
        h = H.find(cj['target'])
        if h is None:
            continue
        nc = NativeContract(cj)
        n = 0
        for env, call, desc in h(cj, {}, rng, None):
            out = nc.check(None, env, call)
            if out.skipped:
                continue
            n += 1
            t.case('B.' + name.rsplit('.', 1)[-1], repr(desc), sample=desc)
            if not out.ok:
                t.violation(name, '; '.join('%s %s: %s' % f for f in out.failures[:3]), desc,
                            observed=[list(map(str, f)) for f in out.failures[:3]], key=name + '#runtime', function=cj['target'])
            if n >= (1500 if quick else 20000):
                break


def part_c(t, rng, quick):
    from pybufrkit.bitops import get_bit_writer, get_bit_reader
    for it in range(60 if quick else 1500):
        nf = rng.randint(1, 200)
        w = get_bit_writer()
        fields = []
        for _ in range(nf):
            kind = rng.choice(['uint', 'uint', 'int', 'bool', 'bin', 'bytes'])
            if kind == 'uint':
                n = rng.randint(1, 64)
                v = rng.choice([0, 1, 2 ** (n - 1), 2 ** n - 2, 2 ** n - 1, rng.getrandbits(n)])
                w.write_uint(v, n)
            elif kind == 'int':
                n = rng.randint(2, 64)
                v = rng.choice([0, 1, -1, 2 ** (n - 1) - 1, -(2 ** (n - 1) - 1), rng.getrandbits(n - 1) * rng.choice([1, -1])])
                w.write_int(v, n)
            elif kind == 'bool':
                n, v = 1, rng.choice([True, False])
                w.write_bool(v)
            elif kind == 'bin':
                n = rng.randint(1, 20)
                v = ''.join(rng.choice('01') for _ in range(n))
                w.write_bin(v)
            else:
                nb = rng.randint(0, 6)
                raw = bytes(rng.getrandbits(8) for _ in range(rng.randint(0, 8)))
                v = (raw + b' ' * nb)[:nb]
                n = nb
                w.write_bytes(raw, nb)
            fields.append((kind, n, v, w.get_pos()))
        total = w.get_pos()
        pad = (8 - total % 8) % 8
        if pad:
            w.write_bin('0' * pad)
        r = get_bit_reader(w.to_bytes())
        ok = True
        for kind, n, v, endpos in fields:
            if kind == 'uint':
                got = r.read_uint(n)
            elif kind == 'int':
                got = r.read_int(n)
            elif kind == 'bool':
                got = r.read_bool()
            elif kind == 'bin':
                got = r.read_bin(n)
            else:
                got = r.read_bytes(n)
            if got != v or r.get_pos() != endpos:
                ok = False
                t.violation('roundtrip', 'field %s:%d wrote %r read %r, reader pos %d writer pos %d' % (kind, n, v, got, r.get_pos(), endpos),
                            {'fields': [(k, nn, repr(vv)) for k, nn, vv, _ in fields][:40]}, key='roundtrip:%s' % kind)
                break
        t.case('C.roundtrip-sequences', (it, nf, total), sample={'fields': nf, 'bits': total, 'first': [(k, nn) for k, nn, _, _ in fields[:5]]})
        # past the end
        try:
            r.read_uint(8 + pad)
            t.violation('read_past_end', 'no error when reading past the end', {'bits': total}, key='pastend')
        except Exception as ex:     # noqa
            if type(ex).__name__ != 'BitReadError':
                t.violation('read_past_end', 'reading past the end raised %s, not BitReadError' % type(ex).__name__, {'bits': total}, key='pastend')


def run(job):
    quick = job['tier'] == 'quick'
    seed = job.get('seed', 0)
    random.seed(seed)
    rng = random.Random(seed)
    t = Tally('C19', 'A: model vs bitstring on every width -2..66 x offset 0..7 x special values (exhaustive grid of the '
                     'property quantifier); B: bitops contracts evaluated at run time on the real wrappers over the same grid; '
                     'C: random mixed field sequences <= 200 fields; a case is distinct by (operation, width, offset, value)',
              'widths 1..64 (plus out-of-range widths), offsets 0..7, values {0,1,2^(n-1),2^n-2,2^n-1}; %d random sequences' % (60 if quick else 1500))
    t.model_mismatch = []
    part_a(t, quick)
    part_b(t, job['contracts'], rng, quick)
    part_c(t, rng, quick)
    res = t.result()
    res['exhaustive'] = True
    if t.model_mismatch:
        res['error'] = 'library model L7 disagrees with bitstring: %s' % t.model_mismatch[:3]
    return res


if __name__ == '__main__':
    io_main(run)
