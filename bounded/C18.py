"""C18 bounded layer: script preprocessing against an independent lexer; variable binding; nest levels."""
import itertools
import json
import os
import random

from bounded.common import Tally, io_main
from bounded.codec import safe, corpus_files, read_first_message
from bounded import refcodec as R, gen as G

REPO = os.environ.get('PYVC_REPO', '/repo')


def ref_lex(src):
    """-> (code, {expr: name}, ended_inside_embedded)"""
    out = []
    subs = {}
    mode = 'code'
    expr = []
    i = 0
    n = len(src)
    while i < n:
        c = src[i]
        if mode == 'embedded':
            if c == '}':
                key = ''.join(expr).strip()
                expr = []
                if key not in subs:
                    subs[key] = 'PBK_%d' % len(subs)
                out.append(subs[key])
                mode = 'code'
            else:
                expr.append(c)
        elif mode == 'code':
            if c == "'":
                mode = 'sq'
                out.append(c)
            elif c == '"':
                mode = 'dq'
                out.append(c)
            elif c == '#':
                mode = 'comment'
                out.append(c)
            elif c == '$' and i + 1 < n and src[i + 1] == '{':
                mode = 'embedded'
                i += 1
            else:
                out.append(c)
        elif mode == 'sq':
            out.append(c)
            if c == "'":
                mode = 'code'
        elif mode == 'dq':
            out.append(c)
            if c == '"':
                mode = 'code'
        else:  # comment
            out.append(c)
            if c == '\n':
                mode = 'code'
        i += 1
    return ''.join(out), subs, mode == 'embedded'


def flat(x):
    """flatten nested lists to a simple list (per-subset flattening)"""
    out = []
    for e in x:
        if isinstance(e, list):
            out.extend(flat(e))
        else:
            out.append(e)
    return out


def run(job):
    from pybufrkit.script import process_embedded_query_expr, ScriptRunner
    from pybufrkit.decoder import Decoder
    from pybufrkit.encoder import Encoder
    from pybufrkit.query import BufrMessageQuerent
    quick = job['tier'] == 'quick'
    rng = random.Random(job.get('seed', 0))
    L = 6 if quick else 7
    t = Tally('C18', 'A: every string of length <= L over {$ { } \' " # newline a space}: process_embedded_query_expr against an independent '
              'lexer written from the statement (strings ending inside an unterminated ${ are outside the quantifier); plus assembled '
              'scripts of fragments (code, quoted literals, comments, embedded expressions, repeated and whitespace-variant expressions); '
              'B: ScriptRunner on real messages: bound names == substitution names + PBK_BUFR_MESSAGE + PBK_FILENAME, values == query results, '
              'metadata_only iff every expression starts with %, nesting levels 0 / 1 / 2 / 4 consistent, argument beats pragma beats default',
              'quick: L = 6 (597 871 strings) + 2 000 assembled + 60 (message, query) pairs; thorough: L = 7 + 40 000 + 600')
    alphabet = '${}\'"#\na '
    for n in range(0, L + 1):
        for tup in itertools.product(alphabet, repeat=n):
            s = ''.join(tup)
            code, subs, open_ = ref_lex(s)
            if open_:
                continue
            r = process_embedded_query_expr(s)
            t.evaluations += 1
            if r[0] != code or dict(r[1]) != subs:
                t.violation('C18', 'preprocessing %r gives %r / %r, expected %r / %r' % (s, r[0], dict(r[1]), code, subs), {'script': s},
                            observed=repr(r), expected=repr((code, subs)), key='C18.lex|' + lex_kind(s))
    t.parts['A.exhaustive'] = t.evaluations
    t.distinct.add(b'exhaust')
    t.exhaustive = True
    frags = ['x = 1\n', 'y = ${%length}\n', "s = 'it is ${001001}'\n", 's = "say ${%edition} #"\n', '# comment ${001001}\n', "# it's a comment\n",
             '# see "this" and ${%x}\n', 'z = ${ 001001 }\n', 'z = ${001001}\n', 'print(${/301011/004001[0]})\n', 'a = $x + ${%n_subsets}\n',
             "b = '#' + ${%length}\n", 'c = "\'" # ${%y}\n', 'd = ${@[0] > 001002}', '$', '${%a}${%a}', '${  %a}', "'", '"', '#', '\n', ' ']
    for _ in range(2000 if quick else 40000):
        s = ''.join(rng.choice(frags) for _ in range(rng.randint(1, 6)))
        code, subs, open_ = ref_lex(s)
        if open_:
            continue
        r = process_embedded_query_expr(s)
        t.case('A.assembled', s, sample={'script': s})
        if r[0] != code or dict(r[1]) != subs:
            t.violation('C18', 'preprocessing %r gives %r / %r, expected %r / %r' % (s, r[0], dict(r[1]), code, subs), {'script': s},
                        observed=repr(r), expected=repr((code, subs)), key='C18.lex|' + lex_kind(s))
    # B: running scripts
    dec, enc = Decoder(), Encoder()
    msgs = []
    for f in corpus_files():
        if os.path.basename(f) in ('jaso_214.bufr', 'amv2_87.bufr', 'ISMD01_OKPR.bufr', 'mpco_217.bufr'):
            data = read_first_message(f)
            r = safe(dec.process, data, f)
            if r[0] == 'ok':
                msgs.append(r[1])
    # uncompressed multi-subset messages where a query is empty in the first subset and not in a later one
    for _ in range(6 if quick else 60):
        ids = [1001, 101000, 31001, 1002, rng.choice(G.NUMERIC)]
        per = [([k], ()) for k in rng.sample([0, 2, 0, 3, 1], rng.choice([2, 3]))]
        m = G.forced_message(rng, ids, per, compressed=False)
        if m is not None:
            r = safe(lambda: dec.process(enc.process(m['json'], wire_template_data=False).serialized_bytes, 'gen.bufr'))
            if r[0] == 'ok':
                msgs.append(r[1])
    q = BufrMessageQuerent()
    for msg in msgs:
        td = msg.template_data.value
        present = sorted(set(str(d) for d in td.decoded_descriptors_all_subsets[0] + td.decoded_descriptors_all_subsets[-1] if str(d)[0] == '0'))
        exprs = ['%length', '%edition', '%n_subsets', '%no_such'] + [rng.choice(present) for _ in range(3 if quick else 12)] + ['@[0] > ' + present[0], '001002']
        for e in exprs:
            direct = safe(q.query, msg, e)
            if direct[0] != 'ok':
                continue
            is_data = not e.lstrip().startswith('%')
            lv = {}
            for level in (0, 1, 2, 4):
                r = safe(lambda: ScriptRunner('v = ${%s}' % e, data_values_nest_level=level).run(msg))
                t.case('B.run', (msg.filename, e, level), sample={'query': e, 'level': level})
                if r[0] != 'ok':
                    t.violation('C18', 'running a script with ${%s} at level %d fails: %r' % (e, level, r[1]), {'query': e}, key='C18.run.fail')
                    continue
                variables = r[1]
                names = set(k for k in variables if k.startswith('PBK_'))
                if names != {'PBK_0', 'PBK_BUFR_MESSAGE', 'PBK_FILENAME'} or variables['PBK_BUFR_MESSAGE'] is not msg or variables['PBK_FILENAME'] != msg.filename:
                    t.violation('C18', 'bound names %r (expected PBK_0, PBK_BUFR_MESSAGE, PBK_FILENAME)' % sorted(names), {'query': e}, key='C18.bind')
                lv[level] = variables.get('v')
                if not is_data and variables.get('v') != direct[1]:
                    t.violation('C18', 'metadata query ${%s} binds %r, the query returns %r' % (e, variables.get('v'), direct[1]), {'query': e}, key='C18.meta.value')
            if is_data and len(lv) == 4:
                l4 = direct[1].all_values()
                exp2 = [flat(x) for x in l4]
                exp1 = [y for x in exp2 for y in x]
                exp0 = exp1[0] if exp1 else None
                if lv[4] != l4 or lv[2] != exp2 or lv[1] != exp1 or lv[0] != exp0:
                    which = [k for k, (a, b) in {0: (lv[0], exp0), 1: (lv[1], exp1), 2: (lv[2], exp2), 4: (lv[4], l4)}.items() if a != b]
                    t.violation('C18', 'nesting levels inconsistent for ${%s} on %s: level(s) %r: level 2 = %r, level 1 = %r, level 0 = %r' % (
                        e, os.path.basename(msg.filename), which, lv[2], lv[1], lv[0]), {'query': e, 'file': msg.filename}, key='C18.levels|%s' % which)
        # metadata_only and pragma precedence
        for script, exp_only in (('a = ${%length}\nb = ${%edition}', True), ('a = ${%length}\nb = ${001001}', False), ('x = 1', True),
                                 ('a = ${ %length }', True), ("# ${001001}\na = ${%length}", True), ("s = '${001001}'", True)):
            sr = ScriptRunner(script)
            t.case('B.metadata_only', script)
            if sr.metadata_only != exp_only:
                t.violation('C18', 'metadata_only is %r for %r' % (sr.metadata_only, script), {'script': script}, key='C18.metadata_only')
        for pragma, arg, exp in ((None, None, 1), (2, None, 2), (2, 0, 0), (None, 4, 4), (0, 2, 2)):
            script = ('#$ data_values_nest_level = %d\n' % pragma if pragma is not None else '') + 'x = 1'
            sr = ScriptRunner(script, data_values_nest_level=arg)
            t.case('B.pragma', (pragma, arg))
            if sr.pragma['data_values_nest_level'] != exp:
                t.violation('C18', 'nest level %r with pragma %r and argument %r (expected %r)' % (sr.pragma['data_values_nest_level'], pragma, arg, exp),
                            {'script': script}, key='C18.pragma')
    return t.result()


def lex_kind(s):
    if '#' in s and ("'" in s or '"' in s):
        return 'quote+comment'
    if '#' in s:
        return 'comment'
    if "'" in s or '"' in s:
        return 'quote'
    return 'plain'


if __name__ == '__main__':
    io_main(run)
