"""Comparisons of the real decoder / encoder with the reference codec (bounded layer; CPython, /venv/bin/python)."""
import json
from fractions import Fraction

from bounded import refcodec as R


def val_eq(real, ref):
    """real: value from pybufrkit; ref: exact value from the reference (Fraction / int / bytes / None)."""
    if real is None or ref is None:
        return real is None and ref is None
    if isinstance(ref, (bytes, str)) or isinstance(real, (bytes, str)):
        if isinstance(real, str):
            real = real.encode('latin-1')
        if isinstance(ref, str):
            ref = ref.encode('latin-1')
        return real == ref
    if isinstance(real, bool) or isinstance(ref, bool):
        return real == ref
    f = float(ref)
    return abs(real - f) <= 1e-9 * max(1.0, abs(f))


def json_val_eq(a, b):
    """two values of the JSON / decoded-value domain (None / int / float / str / bytes)"""
    if a is None or b is None:
        return a is None and b is None
    if isinstance(a, str):
        a = a.encode('latin-1')
    if isinstance(b, str):
        b = b.encode('latin-1')
    if isinstance(a, bytes) or isinstance(b, bytes):
        return a == b
    return abs(a - b) <= 1e-9 * max(1.0, abs(b))


def compare_decoded(real_msg, ref_msg, what='decode'):
    """-> list of discrepancy strings (empty = agree) on values, labels, links, bytes, counts."""
    out = []
    td = real_msg.template_data.value
    if real_msg.n_subsets.value != ref_msg.n_subsets:
        out.append('%s: n_subsets %r != %r' % (what, real_msg.n_subsets.value, ref_msg.n_subsets))
        return out
    if real_msg.serialized_bytes != ref_msg.bytes:
        out.append('%s: serialized_bytes is not the span BUFR..7777 (%d vs %d bytes)' % (
            what, len(real_msg.serialized_bytes or b''), len(ref_msg.bytes)))
    for i in range(ref_msg.n_subsets):
        labels = [str(d) for d in td.decoded_descriptors_all_subsets[i]]
        vals = td.decoded_values_all_subsets[i]
        rs = ref_msg.subsets[i]
        if labels != rs['labels']:
            k = next((k for k, (a, b) in enumerate(zip(labels, rs['labels'])) if a != b), min(len(labels), len(rs['labels'])))
            out.append('%s: subset %d label %d: real %r, FM-94 %r (counts %d / %d)' % (
                what, i, k, labels[k] if k < len(labels) else None, rs['labels'][k] if k < len(rs['labels']) else None,
                len(labels), len(rs['labels'])))
            break
        if len(vals) != len(rs['values']):
            out.append('%s: subset %d has %d values, FM-94 %d' % (what, i, len(vals), len(rs['values'])))
            break
        for k, (a, b) in enumerate(zip(vals, rs['values'])):
            if not val_eq(a, b):
                out.append('%s: subset %d value %d (%s): real %r, FM-94 %r' % (what, i, k, labels[k], a, b if not isinstance(b, Fraction) else float(b)))
                break
        if out:
            break
        if dict(td.bitmap_links_all_subsets[i]) != rs['links']:
            out.append('%s: subset %d bitmap links: real %r, FM-94 %r' % (what, i, dict(td.bitmap_links_all_subsets[i]), rs['links']))
            break
    return out


def compare_values_lists(got, expected, what):
    out = []
    if len(got) != len(expected):
        return ['%s: %d subsets, expected %d' % (what, len(got), len(expected))]
    for i, (g, e) in enumerate(zip(got, expected)):
        if len(g) != len(e):
            out.append('%s: subset %d has %d values, expected %d' % (what, i, len(g), len(e)))
            break
        for k, (a, b) in enumerate(zip(g, e)):
            if not json_val_eq(a, b):
                out.append('%s: subset %d value %d: got %r, expected %r' % (what, i, k, a, b))
                break
        if out:
            break
    return out


def check_sections_wellformed(data, ref_msg, what):
    """framing rules of C04 on a byte string, through the reference reader's extents"""
    out = []
    if not data.startswith(b'BUFR'):
        out.append('%s: does not start with BUFR' % what)
    if not data.endswith(b'7777'):
        out.append('%s: does not end with 7777' % what)
    if ref_msg.length != len(data):
        out.append('%s: section 0 length %d, bytes produced %d' % (what, ref_msg.length, len(data)))
    pos = 8
    for idx in (1, 2, 3, 4):
        if idx not in ref_msg.extents:
            continue
        start, ln = ref_msg.extents[idx]
        if start != pos:
            out.append('%s: section %d starts at %d, expected %d' % (what, idx, start, pos))
        if ref_msg.edition <= 3 and ln % 2:
            out.append('%s: edition %d section %d has an odd number of octets (%d)' % (what, ref_msg.edition, idx, ln))
        pos = start + ln
    if any(ref_msg.padding_bits):
        out.append('%s: non-zero padding bits in section 4' % what)
    return out


def check_encode(enc, msg, compare_bytes_uncompressed=True):
    """real encoder on the generator's JSON vs the reference encoder -> (discrepancies, real bytes | None)"""
    out = []
    ref_bytes, info = R.ref_encode(msg['json'])
    real = enc.process(json.loads(json.dumps(msg['json'])), wire_template_data=False)
    eb = real.serialized_bytes
    try:
        rm = R.RefDecoder(eb, fallback=False).decode()
    except R.RefError as ex:
        return ['encode: output is not a well-formed message for an independent reader: %s' % ex], eb
    out += check_sections_wellformed(eb, rm, 'encode')
    if not msg['compressed']:
        if eb != ref_bytes:
            k = next((k for k in range(min(len(eb), len(ref_bytes))) if eb[k] != ref_bytes[k]), min(len(eb), len(ref_bytes)))
            out.append('encode: uncompressed message differs from the independently built one at octet %d (%d vs %d octets)' % (
                k, len(eb), len(ref_bytes)))
    else:
        # any legal difference width is acceptable: the independent reader must recover exactly the given raws
        exp = R.RefDecoder(ref_bytes, fallback=False).decode()
        for i in range(exp.n_subsets):
            a, b = rm.subsets[i], exp.subsets[i]
            if a['labels'] != b['labels'] or a['values'] != b['values'] or a['links'] != b['links']:
                k = next((k for k, (x, y) in enumerate(zip(a['values'], b['values'])) if x != y), None)
                out.append('encode: compressed subset %d reads back differently (first value index %r: %r vs given %r)' % (
                    i, k, a['values'][k] if k is not None else None, b['values'][k] if k is not None else None))
                break
        # width 0 exactly when all subsets agree
        cols = {}
        for label, p, w, raw in rm.fields:
            if label.endswith(':nbinc'):
                cols[p] = raw
        agree = column_agreement(exp)
        widths = [raw for (label, p, w, raw) in rm.fields if label.endswith(':nbinc')]
        if len(widths) != len(agree):
            out.append('encode: %d compressed columns written, %d expected' % (len(widths), len(agree)))
        else:
            for k, (w, ag) in enumerate(zip(widths, agree)):
                if (w == 0) != ag:
                    out.append('encode: column %d written with difference width %d although subsets %s' % (
                        k, w, 'agree' if ag else 'differ'))
                    break
    return out, eb


def column_agreement(ref_msg):
    """per flat entry of a compressed message: do all subsets carry the same value?"""
    n = len(ref_msg.subsets[0]['values'])
    out = []
    for k in range(n):
        if not ref_msg.subsets[0]['has_bits'][k]:
            continue
        col = [s['values'][k] for s in ref_msg.subsets]
        out.append(all(c == col[0] for c in col))
    return out


# ---- hierarchical view -------------------------------------------------------------------------

def norm_real_nested(nodes):
    """pybufrkit nested JSON (one subset) -> comparable structure: descriptions dropped"""
    out = []
    for n in nodes:
        if isinstance(n, list):
            out.append(norm_real_nested(n))
            continue
        d = {'id': n['id']}
        if 'value' in n:
            d['value'] = n['value']
        if n.get('virtual'):
            d['virtual'] = True
        if 'factor' in n:
            d['factor'] = norm_real_nested([n['factor']])[0]
        if 'members' in n:
            d['members'] = norm_real_nested(n['members'])
        if 'attributes' in n:
            d['attributes'] = norm_real_nested(n['attributes'])
        out.append(d)
    return out


def norm_ref_nested(nodes, values):
    out = []
    for n in nodes:
        if isinstance(n, list):
            out.append(norm_ref_nested(n, values))
            continue
        d = {'id': n['id']}
        if n.get('index') is not None:
            d['value'] = values[n['index']]
        if n.get('virtual'):
            d['virtual'] = True
        if 'factor' in n:
            d['factor'] = norm_ref_nested([n['factor']], values)[0]
        if 'members' in n:
            d['members'] = norm_ref_nested(n['members'], values)
        if 'attributes' in n:
            d['attributes'] = norm_ref_nested(n['attributes'], values)
        out.append(d)
    return out


def input_val_eq(real, ref):
    """value held by an encoder-built message (the caller's input) vs the value FM-94 assigns to the encoded field:
    a missing string is the all-ones field, text is latin-1 and blank padded / cut to the field width"""
    if isinstance(ref, bytes):
        if real is None:
            return ref == b'\xff' * len(ref)
        if isinstance(real, str):
            real = real.encode('latin-1')
        if isinstance(real, bytes):
            return (real + b' ' * len(ref))[:len(ref)] == ref
        return False
    return val_eq(real, ref)


def nested_diff(real, ref, path='$', eq=None):
    """first difference between two normalised structures (values compared with val_eq) or None"""
    eq = eq or val_eq
    if isinstance(real, list) or isinstance(ref, list):
        if not (isinstance(real, list) and isinstance(ref, list)):
            return '%s: list vs node' % path
        if len(real) != len(ref):
            return '%s: %d entries, expected %d (%s vs %s)' % (path, len(real), len(ref), [x.get('id') if isinstance(x, dict) else '[..]' for x in real][:8],
                                                                [x.get('id') if isinstance(x, dict) else '[..]' for x in ref][:8])
        for i, (a, b) in enumerate(zip(real, ref)):
            d = nested_diff(a, b, '%s[%d]' % (path, i), eq)
            if d:
                return d
        return None
    if real.get('id') != ref.get('id'):
        return '%s: id %r, expected %r' % (path, real.get('id'), ref.get('id'))
    if ('value' in real) != ('value' in ref):
        return '%s (%s): value presence differs' % (path, real.get('id'))
    if 'value' in real and not eq(real['value'], ref['value']):
        return '%s (%s): value %r, expected %r' % (path, real['id'], real['value'], ref['value'])
    if bool(real.get('virtual')) != bool(ref.get('virtual')):
        return '%s (%s): virtual flag differs' % (path, real['id'])
    for k in ('factor', 'members', 'attributes'):
        if (k in real) != (k in ref):
            return '%s (%s): %s present in %s only' % (path, real['id'], k, 'real' if k in real else 'expected')
        if k in real:
            d = nested_diff(real[k] if k != 'factor' else [real[k]], ref[k] if k != 'factor' else [ref[k]], path + '.' + k, eq)
            if d:
                return d
    return None
