"""Bounded stand-ins (never counted as proved) for the codec properties C01, C02, C03, C05: the real decoder /
encoder against the reference codec (bounded/refcodec.py) on generated messages (bounded/gen.py) and on the
sample corpus.  Run under /venv/bin/python through pyvc.main.run_native."""
import glob
import json
import os
import random
import traceback
from fractions import Fraction

from bounded.common import Tally, io_main
from bounded import refcodec as R, gen as G, oracle as O

REPO = os.environ.get('PYVC_REPO', '/repo')


def corpus_files():
    return sorted(glob.glob(os.path.join(REPO, 'tests', 'data', '*.bufr')) +
                  glob.glob(os.path.join(REPO, 'tests', 'benchmark_data', '*.bufr')))


def read_first_message(path):
    data = open(path, 'rb').read()
    i = data.find(b'BUFR')
    return data[i:] if i >= 0 else None


def msg_key(m):
    return (m['edition'], m['compressed'], m['nsub'], tuple(m['ids']))


def msg_sample(m):
    return {'edition': m['edition'], 'compressed': m['compressed'], 'n_subsets': m['nsub'], 'descriptors': m['ids'],
            'subset0': [v if not isinstance(v, float) else round(v, 6) for v in m['values'][0][:12]]}


def msg_input(m):
    return {'json': m['json']}


def safe(f, *a):
    try:
        return ('ok', f(*a))
    except Exception as ex:      # noqa
        return ('exc', ex, traceback.format_exc()[-800:])


# ---------------------------------------------------------------------------------------------- C01

def run_c01(job):
    from pybufrkit.decoder import Decoder
    quick = job['tier'] == 'quick'
    rng = random.Random(job.get('seed', 0))
    t = Tally('C01', 'generated templates (all operator fragments of bounded/gen.py, <= 3 fragments, <= 4 subsets, factors <= 3, '
              'value grid {0, 1, max, missing, random}, editions 2-4, both compression modes) encoded by the REFERENCE encoder and '
              'decoded by the real decoder; plus every file of tests/data and tests/benchmark_data; oracle = reference decoder; '
              'a case is distinct by (edition, mode, subsets, descriptor list)',
              'quick: 500 generated + corpus; thorough: 12000 generated + corpus')
    dec = Decoder()
    n = 500 if quick else 12000
    for _ in range(n):
        m = G.gen_message(rng)
        data, _info = R.ref_encode(m['json'])
        rm = R.RefDecoder(data, fallback=False).decode()
        r = safe(dec.process, data)
        t.case('generated', msg_key(m), sample=msg_sample(m))
        if r[0] != 'ok':
            t.violation('C01.decode', 'real decoder fails on a well-formed message: %r' % (r[1],), dict(msg_input(m), bytes=data.hex()),
                        observed=repr(r[1]), expected='decodes', key='C01.decode:' + keyof(m, r[1]))
            continue
        d = O.compare_decoded(r[1], rm)
        if d:
            t.violation('C01.decode', d[0], dict(msg_input(m), bytes=data.hex()), observed=d, expected='FM-94 values',
                        key='C01.decode:' + keyof(m, d[0]))
    skipped = 0
    for f in corpus_files():
        data = read_first_message(f)
        if data is None:
            continue
        try:
            rm = R.RefDecoder(data).decode()
        except R.RefError:
            skipped += 1
            continue
        r = safe(dec.process, data)
        t.case('corpus', os.path.basename(f), sample={'file': os.path.basename(f)})
        if r[0] != 'ok':
            t.violation('C01.corpus', 'real decoder fails on %s: %r' % (os.path.basename(f), r[1]), {'file': f},
                        key='C01.corpus:' + os.path.basename(f))
            continue
        d = O.compare_decoded(r[1], rm)
        if d:
            t.violation('C01.corpus', d[0], {'file': f}, observed=d, key='C01.corpus:' + os.path.basename(f))
    res = t.result()
    res['corpus_not_comparable'] = skipped
    return res


def keyof(m, what):
    """finding key: the kind of discrepancy + the operators involved (stable across seeds)"""
    ops = sorted(set(d // 1000 for d in m['ids'] if d >= 200000))
    w = str(what)
    w = w.split(':')[0] if ':' in w else w
    return '%s|%s|ops=%s' % ('c' if m['compressed'] else 'u', w[:40], ops)


# ---------------------------------------------------------------------------------------------- C02

def run_c02(job):
    from pybufrkit.encoder import Encoder
    quick = job['tier'] == 'quick'
    rng = random.Random(job.get('seed', 0))
    t = Tally('C02', 'generated (template, value list) pairs as in C01, encoded by the real encoder; uncompressed: bytes must equal the '
              'independently built message; compressed: an independent reader must recover exactly the given raw values, all-ones '
              'marks exactly the missing entries, difference width 0 exactly when all subsets agree; framing rules of C04 on every '
              'output; a case is distinct by (edition, mode, subsets, descriptor list)',
              'quick: 500 messages; thorough: 12000 messages')
    enc = Encoder()
    n = 500 if quick else 12000
    for _ in range(n):
        m = G.gen_message(rng)
        t.case('generated', msg_key(m), sample=msg_sample(m))
        r = safe(O.check_encode, enc, m)
        if r[0] != 'ok':
            t.violation('C02.encode', 'real encoder fails on conforming input: %r' % (r[1],), msg_input(m), observed=r[2],
                        key='C02.encode:' + keyof(m, r[1]))
            continue
        d, eb = r[1]
        if d:
            t.violation('C02.encode', d[0], msg_input(m), observed=d, expected='canonical FM-94 bit stream',
                        key='C02.encode:' + keyof(m, d[0]))
    # descriptor list packing F:2 X:6 Y:8 for every F, X and a grid of Y
    from pybufrkit.bitops import get_bit_writer
    from pybufrkit.bufr import SectionParameter
    for f in range(4):
        for x in range(64):
            ids = [f * 100000 + x * 1000 + y for y in (0, 1, 127, 128, 254, 255)]
            w = get_bit_writer()
            enc.process_unexpanded_descriptors(w, SectionParameter('unexpanded_descriptors', 0, 'unexpanded_descriptors', None, True, ids))
            got = w.to_bytes()
            exp = b''.join(bytes([(i // 100000) << 6 | ((i // 1000) % 100), i % 1000]) for i in ids)
            t.case('fxy', (f, x))
            if got != exp:
                t.violation('C02.fxy', 'descriptor list packing', {'ids': ids}, observed=got.hex(), expected=exp.hex(), key='C02.fxy')
    return t.result()


# ---------------------------------------------------------------------------------------------- C03

def numeric_elements(tabs, limit=None, rng=None):
    tb, _ = tabs
    out = []
    for eid, info in sorted(tb.items()):
        if info['unit'] in ('CCITT IA5', 'FLAG TABLE', 'CODE TABLE') or (eid // 1000) % 100 in (0, 31, 33):
            continue
        if info['nbits'] < 2 or info['nbits'] > 40:
            continue
        out.append(eid)
    if limit and rng and len(out) > limit:
        out = rng.sample(out, limit)
    return out


def one_value_message(edition, ids, values, compressed=False, nsub=1):
    return G.sections_json(edition, ids, values, nsub, compressed)


def run_c03(job):
    from pybufrkit.encoder import Encoder
    from pybufrkit.decoder import Decoder
    from pybufrkit.renderer import FlatJsonRenderer
    from pybufrkit.errors import PyBufrKitError
    quick = job['tier'] == 'quick'
    rng = random.Random(job.get('seed', 0))
    t = Tally('C03', 'A: every numeric Table B element of version 25 (quick: 150 sampled) x operator settings {none, 201+4 bits, 201-2 bits, '
              '202+1, 207+1} x raw in {0, 1, mid, 2^n-2}: exact read-back of on-grid values, perturbed values v +- 0.49/10^s stay within half '
              'a unit, values with raw in {-1, 2^n, 2^n+5, 2^(n+8)+3} (uncompressed) are refused, never wrapped or clipped; missing reads back '
              'missing; B: fixpoint E(D(E(D(b)))) == E(D(b)) on the corpus and on generated messages, and re-encoding the flat JSON rendering '
              'of an encoded message gives identical bytes; distinct by (element, operator setting, raw class) / message',
              'quick: 150 elements, 200 generated, 40 corpus files; thorough: all elements, 3000 generated, whole corpus')
    enc, dec = Encoder(), Decoder()
    tabs = R.load_tables(G.VERSION)
    elems = numeric_elements(tabs, 150 if quick else None, rng)
    settings = [('none', [], []), ('201+4', [201132], [201000]), ('201-2', [201126], [201000]), ('202+1', [202129], [202000]),
                ('207+1', [207001], [207000])]
    for eid in elems:
        info = tabs[0][eid]
        for sname, pre, post in settings:
            nb, sc, ref = info['nbits'], info['scale'], info['ref']
            if sname == '201+4':
                nb += 4
            elif sname == '201-2':
                nb -= 2
            elif sname == '202+1':
                sc += 1
            elif sname == '207+1':
                nb += 4
                sc += 1
                ref *= 10
            if nb < 2:
                continue
            ids = pre + [eid] + post
            top = (1 << nb) - 2
            for rname, raw in (('0', 0), ('1', 1), ('mid', top // 2), ('max', top)):
                exact = Fraction(raw + ref) / Fraction(10) ** sc
                v = G.f_value(raw, sc, ref)
                for pname, val in (('grid', v), ('+0.49', None), ('-0.49', None)):
                    if pname != 'grid':
                        if sc == 0:
                            continue
                        delta = Fraction(49, 100) / Fraction(10) ** sc
                        val = float(exact + delta if pname == '+0.49' else exact - delta)
                    t.case('A.roundtrip', (eid, sname, rname, pname), sample={'element': eid, 'setting': sname, 'raw': raw, 'value': val})
                    js = one_value_message(4, ids, [[val]])
                    r = safe(lambda: dec.process(enc.process(js, wire_template_data=False).serialized_bytes, wire_template_data=False))
                    if r[0] != 'ok':
                        t.violation('C03.roundtrip', 'representable value refused / failing: %r' % (r[1],), {'json': js}, observed=r[2],
                                    key='C03.roundtrip.fail|%s|%s' % (sname, pname))
                        continue
                    got = r[1].template_data.value.decoded_values_all_subsets[0][0]
                    bound = Fraction(1, 2) / Fraction(10) ** sc
                    ok = got is not None and abs(Fraction(got) - Fraction(val)) <= bound * (1 + Fraction(1, 10 ** 9)) + Fraction(abs(val)) / 10 ** 12
                    if pname == 'grid':
                        ok = ok and O.val_eq(got, exact)
                    if not ok:
                        t.violation('C03.roundtrip', 'value %r reads back as %r (half-unit bound %s)' % (val, got, float(bound)),
                                    {'json': js}, observed=got, expected=val, key='C03.roundtrip.value|%s|%s' % (sname, pname))
            # refusal of values whose scaled integer does not fit (uncompressed)
            for rname, raw in (('-1', -1), ('2^n', (1 << nb)), ('2^n+5', (1 << nb) + 5), ('wrap+3', (1 << (nb + 8)) + 3), ('-2^n', -(1 << nb))):
                val = G.f_value(raw, sc, ref)
                if abs(raw) >= (1 << 52):
                    continue
                js = one_value_message(4, ids, [[val]])
                t.case('A.refusal', (eid, sname, rname), sample={'element': eid, 'setting': sname, 'raw': raw, 'value': val})
                r = safe(lambda: enc.process(js, wire_template_data=False).serialized_bytes)
                if r[0] == 'ok':
                    back = safe(lambda: dec.process(r[1], wire_template_data=False).template_data.value.decoded_values_all_subsets[0][0])
                    t.violation('C03.refusal', 'value with raw %d (field of %d bits) was accepted instead of refused; reads back %r'
                                % (raw, nb, back[1] if back[0] == 'ok' else back[1]), {'json': js}, observed=repr(back[1]),
                                expected='an error', key='C03.refusal|%s|w%d' % (rname, nb % 8 == 0))
            # missing stays missing
            js = one_value_message(4, ids, [[None]])
            r = safe(lambda: dec.process(enc.process(js, wire_template_data=False).serialized_bytes, wire_template_data=False))
            t.case('A.missing', (eid, sname))
            if r[0] != 'ok' or r[1].template_data.value.decoded_values_all_subsets[0][0] is not None:
                t.violation('C03.missing', 'missing does not read back as missing', {'json': js}, key='C03.missing|%s' % sname)
    # B: fixpoints
    render = FlatJsonRenderer()

    def fix(data, what, key, foreign=False):
        r1 = safe(lambda: render.render(dec.process(data)))
        if r1[0] != 'ok':
            return
        e1 = safe(lambda: enc.process(json.loads(json.dumps(r1[1], cls=_Enc)), wire_template_data=False).serialized_bytes)
        if e1[0] != 'ok' and foreign:
            # a foreign message whose tables are not bundled (or that the encoder cannot represent) has no first
            # round trip; the property speaks about messages that have one
            t.parts['B.not-reencodable'] = t.parts.get('B.not-reencodable', 0) + 1
            return
        if e1[0] != 'ok':
            t.violation('C03.fixpoint', '%s: decoded rendering cannot be re-encoded: %r' % (what, e1[1]), key_input(key), observed=e1[2],
                        key='C03.fixpoint.reencode|' + str(key)[:60])
            return
        r2 = safe(lambda: render.render(dec.process(e1[1])))
        e2 = safe(lambda: enc.process(json.loads(json.dumps(r2[1], cls=_Enc)), wire_template_data=False).serialized_bytes) if r2[0] == 'ok' else r2
        if e2[0] != 'ok' or e2[1] != e1[1]:
            t.violation('C03.fixpoint', '%s: second decode/encode round trip differs from the first' % what, key_input(key),
                        key='C03.fixpoint|' + str(key)[:60])
        return e1[1]

    def key_input(key):
        return {'case': str(key)}
    files = corpus_files()
    if quick:
        files = files[::4]
    for f in files:
        data = read_first_message(f)
        if data is None:
            continue
        t.case('B.corpus-fixpoint', os.path.basename(f), sample={'file': os.path.basename(f)})
        fix(data, os.path.basename(f), os.path.basename(f), foreign=True)
    for _ in range(200 if quick else 3000):
        m = G.gen_message(rng)
        t.case('B.generated-fixpoint', msg_key(m), sample=msg_sample(m))
        r = safe(lambda: enc.process(json.loads(json.dumps(m['json'])), wire_template_data=False).serialized_bytes)
        if r[0] != 'ok':
            continue
        # decode(encode(x)) gives x back: missing stays missing, grid values exactly, strings padded, in both storage modes
        dd = safe(lambda: dec.process(r[1], wire_template_data=False).template_data.value.decoded_values_all_subsets)
        if dd[0] != 'ok':
            t.violation('C03.roundtrip', 'the encoder output does not decode: %r' % (dd[1],), msg_input(m), key='C03.roundtrip.gen.fail|' + keyof(m, dd[1]))
        else:
            for i, (got, given) in enumerate(zip(dd[1], m['values'])):
                kk = next((k2 for k2, (a, b) in enumerate(zip(got, given)) if not O.input_val_eq(b, a if not isinstance(a, (int, float)) or isinstance(a, bool) else a)
                           and not (isinstance(a, (int, float)) and isinstance(b, (int, float)) and O.json_val_eq(a, b))), None)
                if kk is not None or len(got) != len(given):
                    t.violation('C03.roundtrip', '%s message, subset %d, value %r: given %r, reads back %r' % (
                        'compressed' if m['compressed'] else 'uncompressed', i, kk, given[kk] if kk is not None else None, got[kk] if kk is not None else None),
                        msg_input(m), key='C03.roundtrip.gen|' + keyof(m, 'value'))
                    break
        e1 = fix(r[1], 'generated', msg_key(m))
        # re-encoding the rendering of a message that the encoder produced gives the identical bytes
        if e1 is not None and e1 != r[1]:
            t.violation('C03.rerender', 'flat JSON rendering of an encoded message re-encodes to different bytes', msg_input(m),
                        key='C03.rerender|' + keyof(m, 'rerender'))
    return t.result()


class _Enc(json.JSONEncoder):
    def default(self, o):
        if isinstance(o, bytes):
            return o.decode('latin-1')
        return json.JSONEncoder.default(self, o)


# ---------------------------------------------------------------------------------------------- C05

def run_c05(job):
    from pybufrkit.encoder import Encoder
    from pybufrkit.decoder import Decoder
    import itertools
    quick = job['tier'] == 'quick'
    rng = random.Random(job.get('seed', 0))
    t = Tally('C05', 'A (exhaustive): every column of 1..4 subsets over {missing, 0..2^w-2} for field widths w <= 4 (numeric 0-scale and '
              'code table carriers built from Table B widths via 201), written by the real encoder and read by the reference reader, and '
              'written by the reference writer with EVERY legal difference width and read by the real decoder; B (random): widths up to 64, '
              'up to 40 subsets, strings with missing / equal / different entries; C: the same generated data encoded compressed and '
              'uncompressed must decode to identical values, labels and links',
              'quick: widths <= 3 and <= 3 subsets exhaustive, 150 random columns, 150 messages; thorough: widths <= 4, <= 4 subsets, '
              '3000 random columns, 3000 messages')
    enc, dec = Encoder(), Decoder()
    tabs = R.load_tables(G.VERSION)
    maxw, maxn = (3, 3) if quick else (4, 4)
    # carriers: numeric 011001 (9 bits, scale 0, ref 0) narrowed by 201YYY to w bits; code 020011 (4 bits) for w == 4, 002001 (2 bits)
    exhaustive = True
    for w in range(1, maxw + 1):
        ids = [201000 + 128 - (9 - w), 11001, 201000]
        dom = [None] + list(range(0, (1 << w) - 1)) if w > 1 else [0, 1]
        for n in range(1, maxn + 1):
            for col in itertools.product(dom, repeat=n):
                check_column(t, enc, dec, ids, list(col), w, 'A.numeric', numeric=True)
    for eid, w in ((2001, 2), (20011, 4), (8021, 5)):
        if w > maxw + 1:
            continue
        dom = [None] + list(range(0, (1 << w) - 1))
        for n in range(1, min(maxn, 3) + 1):
            for col in itertools.product(dom, repeat=n):
                check_column(t, enc, dec, [eid], list(col), w, 'A.code', numeric=False)
    # B random wide columns and strings
    for _ in range(150 if quick else 3000):
        w = rng.choice([1, 2, 7, 8, 9, 16, 24, 31, 32, 33, 40, 48, 63, 64])
        n = rng.choice([2, 3, 5, 17, 40])
        io = G.GenIO(rng, n, True)
        col = io.column(w)
        if w >= 60:
            # the 6-bit width field limits differences to 63 bits
            base = rng.getrandbits(w - 1)
            col = [None if c is None else min((1 << w) - 2, base + (c % (1 << 59))) for c in col]
        if w <= 9:
            ids = [201000 + 128 - (9 - w), 11001, 201000] if w < 9 else [11001]
        else:
            ids = [201000 + 128 + (w - 15), 7001, 201000]      # 007001: 15 bits, scale 0, ref -400
        check_column(t, enc, dec, ids, col, w, 'B.random', numeric=True, ref=(0 if w <= 9 else -400))
    for _ in range(60 if quick else 800):
        n = rng.choice([2, 3, 6])
        io = G.GenIO(rng, n, True)
        io.string('001011', 1011, 9)
        col = io.values
        vals = [[v[0]] for v in col]
        js = G.sections_json(4, [1011], vals, n, True)
        t.case('B.strings', tuple(v[0] for v in vals))
        r = safe(lambda: enc.process(json.loads(json.dumps(js)), wire_template_data=False).serialized_bytes)
        if r[0] != 'ok':
            t.violation('C05.string', 'encoder fails on a string column: %r' % (r[1],), {'json': js}, observed=r[2], key='C05.string.fail')
            continue
        rm = R.RefDecoder(r[1], fallback=False).decode()
        dm = dec.process(r[1], wire_template_data=False)
        exp = [R.EncodeIO.to_field(v[0], 9) for v in vals]
        got_ref = [s['values'][0] for s in rm.subsets]
        got_real = [x[0] for x in dm.template_data.value.decoded_values_all_subsets]
        if got_ref != exp:
            t.violation('C05.string', 'independent reader recovers %r from the encoder output, given %r' % (got_ref, exp), {'json': js},
                        key='C05.string.enc')
        if got_real != exp:
            t.violation('C05.string', 'decoder reads the compressed string column as %r, given %r' % (got_real, exp), {'json': js},
                        key='C05.string.dec|' + ('allmissing' if all(v[0] is None for v in vals) else 'mixed'))
    # C compressed vs uncompressed
    for _ in range(150 if quick else 3000):
        m = G.gen_message(rng, compressed=True, nsub=rng.choice([1, 2, 3, 4]))
        t.case('C.modes', msg_key(m), sample=msg_sample(m))
        ju = json.loads(json.dumps(m['json']))
        k = len(ju) - 3
        ju[k][4] = False
        rc = safe(lambda: dec.process(enc.process(json.loads(json.dumps(m['json'])), wire_template_data=False).serialized_bytes))
        ru = safe(lambda: dec.process(enc.process(ju, wire_template_data=False).serialized_bytes))
        if rc[0] != 'ok' or ru[0] != 'ok':
            t.violation('C05.modes', 'one storage mode fails: compressed %r, uncompressed %r' % (rc[1], ru[1]), msg_input(m),
                        key='C05.modes.fail|' + keyof(m, 'fail'))
            continue
        a, b = rc[1].template_data.value, ru[1].template_data.value
        for i in range(m['nsub']):
            la = [str(d) for d in a.decoded_descriptors_all_subsets[i]]
            lb = [str(d) for d in b.decoded_descriptors_all_subsets[i]]
            va, vb = a.decoded_values_all_subsets[i], b.decoded_values_all_subsets[i]
            same = la == lb and dict(a.bitmap_links_all_subsets[i]) == dict(b.bitmap_links_all_subsets[i]) and len(va) == len(vb) \
                and all(O.json_val_eq(x, y) for x, y in zip(va, vb))
            if not same:
                kk = next((k2 for k2, (x, y) in enumerate(zip(va, vb)) if not O.json_val_eq(x, y)), None)
                t.violation('C05.modes', 'subset %d decodes differently when stored compressed (value %r: %r vs %r)' % (
                    i, kk, va[kk] if kk is not None else None, vb[kk] if kk is not None else None), msg_input(m),
                    key='C05.modes|' + keyof(m, 'diff'))
                break
    res = t.result()
    res['exhaustive'] = exhaustive
    return res


def check_column(t, enc, dec, ids, col, w, part, numeric, ref=0):
    """col: raws (None = missing) of one w-bit field over len(col) subsets."""
    n = len(col)
    vals = [[None if r is None else (r + ref)] for r in col]
    js = G.sections_json(4, ids, vals, n, True)
    t.case(part + '.encoder', (tuple(ids), tuple(col)), nontrivial=len(set(col)) > 1 or n == 1,
           sample={'width': w, 'column': col})
    r = safe(lambda: enc.process(json.loads(json.dumps(js)), wire_template_data=False).serialized_bytes)
    if r[0] != 'ok':
        t.violation('C05.column', 'encoder fails on column %r (width %d): %r' % (col, w, r[1]), {'json': js}, observed=r[2],
                    key='C05.column.fail|%s' % shape(col))
    else:
        try:
            rm = R.RefDecoder(r[1], fallback=False).decode()
            got = [None if s['values'][-1 if len(ids) == 1 else 0] is None else int(s['values'][0]) - ref for s in rm.subsets]
        except R.RefError as ex:
            got = 'unreadable: %s' % ex
        if got != col:
            t.violation('C05.column', 'encoder wrote column %r (width %d); an independent reader recovers %r' % (col, w, got),
                        {'json': js}, observed=got, expected=col, key='C05.column.enc|%s' % shape(col))
    # decoder on every legal difference width
    present = [x for x in col if x is not None]
    if n >= 1:
        if not present or (len(present) == n and len(set(col)) == 1):
            widths = [0]
        else:
            need = 1
            while max(present) - min(present) > (1 << need) - 2:
                need += 1
            widths = list(range(need, min(need + 3, 64)))
        for dw in widths:
            data = hand_column_message(ids, col, w, dw, ref)
            t.case(part + '.decoder', (tuple(ids), tuple(col), dw), nontrivial=dw > 0)
            r = safe(lambda: dec.process(data, wire_template_data=False))
            if r[0] != 'ok':
                t.violation('C05.column', 'decoder fails on column %r written with difference width %d: %r' % (col, dw, r[1]),
                            {'bytes': data.hex()}, observed=r[2], key='C05.column.decfail|%s|dw%d' % (shape(col), min(dw, 2)))
                continue
            got = [x[0] for x in r[1].template_data.value.decoded_values_all_subsets]
            exp = [None if x is None else x + ref for x in col]
            if got != exp:
                t.violation('C05.column', 'decoder reads column %r (difference width %d) as %r' % (exp, dw, got), {'bytes': data.hex()},
                            observed=got, expected=exp, key='C05.column.dec|%s|dw%d' % (shape(col), min(dw, 2)))


def shape(col):
    present = [x for x in col if x is not None]
    if not present:
        return 'all-missing'
    if len(present) == len(col):
        return 'equal' if len(set(col)) == 1 else 'distinct'
    return 'missing+equal' if len(set(present)) == 1 else 'missing+distinct'


def hand_column_message(ids, col, w, dw, ref):
    """a compressed one-element message whose column is written with the given difference width (reference writer)"""
    n = len(col)
    js = G.sections_json(4, ids, [[0] for _ in col], n, True)
    # build through the reference encoder, then overwrite section 4 by hand
    o = R.BitsOut()
    present = [x for x in col if x is not None]
    if not present:
        o.write(w, (1 << w) - 1)
        o.write(6, 0)
    elif dw == 0:
        o.write(w, col[0])
        o.write(6, 0)
    else:
        mn = min(present)
        o.write(w, mn)
        o.write(6, dw)
        for x in col:
            o.write(dw, (1 << dw) - 1 if x is None else x - mn)
    while o.pos % 8:
        o.write(1, 0)
    body = o.to_bytes()
    base, _ = R.ref_encode(js)
    rm = R.RefDecoder(base, fallback=False).decode()
    s4, ln4 = rm.extents[4]
    head = base[:s4]
    sec4 = (4 + len(body)).to_bytes(3, 'big') + b'\0' + body
    out = head + sec4 + b'7777'
    return out[:4] + len(out).to_bytes(3, 'big') + out[7:]


RUN = {'C01': run_c01, 'C02': run_c02, 'C03': run_c03, 'C05': run_c05}


def run(job):
    return RUN[job['property']](job)


if __name__ == '__main__':
    io_main(run)
