"""C14 bounded layer: Table D expansion against the table files (exhaustive over the bundled tables), template building from random
well-formed descriptor lists against the FM-94 ownership rule, unknown descriptors, table version selection."""
import json
import os
import random

from bounded.common import Tally, io_main
from bounded.codec import safe
from bounded import refcodec as R, gen as G

REPO = os.environ.get('PYVC_REPO', '/repo')


def expand_file(seq, td, depth=0):
    """direct recursive expansion of a Table D file entry (sequences expanded, everything else kept)"""
    if depth > 40:
        raise RecursionError(seq)
    out = []
    for d in td[seq]:
        if d >= 300000:
            if d in td:
                out.extend(expand_file(d, td, depth + 1))
            else:
                out.append(d)          # dangling reference: stays as it is (an undefined sequence)
        else:
            out.append(d)
    return out


def tree_shape(nodes):
    out = []
    for n in nodes:
        if n.kind == 'rep':
            out.append(('rep', n.id, n.factor, tree_shape(n.members)))
        elif n.kind == 'seq':
            out.append(('seq', n.id))
        else:
            out.append((n.kind, n.id))
    return out


def real_shape(members):
    from pybufrkit import descriptors as D
    out = []
    for m in members:
        if isinstance(m, D.ReplicationDescriptor):
            out.append(('rep', m.id, m.factor.id if isinstance(m, D.DelayedReplicationDescriptor) else None, real_shape(m.members)))
        elif isinstance(m, D.SequenceDescriptor):
            out.append(('seq', m.id))
        elif isinstance(m, D.OperatorDescriptor):
            out.append(('op', m.id))
        else:
            out.append(('elem', m.id))
    return out


def gen_ids(rng, depth=0, budget=12):
    """a well-formed descriptor list: every replication finds its X descriptors"""
    ids = []
    n = rng.randint(1, 4)
    for _ in range(n):
        k = rng.random()
        if k < 0.45 or depth >= 4:
            ids.append(rng.choice(G.NUMERIC + G.CODES + G.STRINGS + [201129, 201000, 222000, 301011]))
        else:
            body = gen_ids(rng, depth + 1)
            while len(body) > 63:
                body = gen_ids(rng, depth + 2)
            # the body must be well-formed as a prefix too
            delayed = rng.random() < 0.5
            x = len(body)
            if delayed:
                ids += [100000 + x * 1000, rng.choice([31001, 31002, 31000])] + body
            else:
                ids += [100000 + x * 1000 + rng.randint(1, 255)] + body
    return ids


def run(job):
    from pybufrkit.tables import TableGroupCacheManager, normalize_tables_sn, get_tables_sn
    from pybufrkit.descriptors import flat_member_ids, ElementDescriptor
    from pybufrkit.decoder import Decoder
    from pybufrkit.errors import UnknownDescriptor, PyBufrKitError
    quick = job['tier'] == 'quick'
    rng = random.Random(job.get('seed', 0))
    t = Tally('C14', 'A (exhaustive over a finite domain): every Table D entry of the bundled master-table versions (quick: 6 versions incl. the '
              'oldest and newest; thorough: all) and of every local table: flat_member_ids(lookup(seq)) == direct recursive expansion of the JSON '
              'file, and (name, unit, scale, reference, width) of each element == the Table B file entry, also after other versions were '
              'loaded; B: random well-formed descriptor lists (nesting <= 4, X <= 63): template_from_ids(ids).original_descriptor_ids == ids and the '
              'tree == the FM-94 ownership rule; C: a descriptor in no table makes decoding fail with UnknownDescriptor; D: table version '
              'selection incl. fall-back to defaults',
              'quick: 6 versions + local tables, 300 lists; thorough: all versions, 6000 lists')
    root = os.path.join(REPO, 'pybufrkit', 'tables')
    versions = sorted(int(v) for v in os.listdir(os.path.join(root, '0', '0_0')) if v.isdigit())
    chosen = versions if not quick else sorted(set([versions[0], 13, 18, 19, 25, versions[-1]]) & set(versions))
    combos = [(v, 0, 0, 0) for v in chosen]
    for c in os.listdir(os.path.join(root, '0')):
        if c == '0_0':
            continue
        centre, sub = [int(x) for x in c.split('_')]
        for lv in sorted(os.listdir(os.path.join(root, '0', c))):
            combos.append((rng.choice([13, 25, 33]), centre, sub, int(lv)))
    # interleave the order so that table groups are built after other versions were in the cache
    rng.shuffle(combos)
    for mv, centre, sub, lv in combos:
        tb, td = R.load_tables(mv, 0, root, centre, sub, lv, fallback=False)
        group = TableGroupCacheManager.get_table_group(master_table_number=0, master_table_version=mv, originating_centre=centre, originating_subcentre=sub,
                                                      local_table_version=lv, normalize=0)
        for seq in sorted(td):
            t.case('A.tableD', (mv, centre, lv, seq), sample={'version': mv, 'local': lv, 'sequence': seq})
            try:
                exp = expand_file(seq, td)
            except RecursionError:
                continue
            got = safe(lambda: flat_member_ids(group.lookup(seq)))
            if got[0] != 'ok' or got[1] != exp:
                k = next((i for i, (a, b) in enumerate(zip(got[1], exp)) if a != b), None) if got[0] == 'ok' else None
                t.violation('C14', 'version %d local %d_%d/%d: sequence %06d flattens to %d ids, the table file expands to %d (first difference at %r)' % (
                    mv, centre, sub, lv, seq, len(got[1]) if got[0] == 'ok' else -1, len(exp), k), {'version': mv, 'sequence': seq},
                    key='C14.tableD|%s' % ('old' if mv < 19 else 'new'))
        for eid in sorted(tb):
            d = group.lookup(eid)
            t.evaluations += 1
            info = tb[eid]
            if type(d) is not ElementDescriptor or (d.name, d.unit, d.scale, d.refval, d.nbits) != (info['name'], info['unit'], info['scale'], info['ref'], info['nbits']):
                t.violation('C14', 'version %d local %d: element %06d has attributes %r, the Table B file says %r' % (
                    mv, lv, eid, (getattr(d, 'name', None), getattr(d, 'unit', None), getattr(d, 'scale', None), getattr(d, 'refval', None), getattr(d, 'nbits', None)),
                    (info['name'], info['unit'], info['scale'], info['ref'], info['nbits'])), {'version': mv, 'element': eid}, key='C14.tableB')
                break
    t.exhaustive = not quick
    # the same descriptor list built under two versions must carry each version's own attributes
    for _ in range(10 if quick else 100):
        v1, v2 = rng.sample(chosen, 2)
        tb1, td1 = R.load_tables(v1, fallback=False)
        tb2, td2 = R.load_tables(v2, fallback=False)
        common = [s for s in td1 if s in td2]
        if not common:
            continue
        seq = rng.choice(common)
        for v, tb, td in ((v1, tb1, td1), (v2, tb2, td2)):
            group = TableGroupCacheManager.get_table_group(master_table_number=0, originating_centre=0, originating_subcentre=0, master_table_version=v, local_table_version=0, normalize=0)
            tmpl = safe(lambda: group.template_from_ids(seq))
            t.case('A.two-versions', (v1, v2, seq, v), nontrivial=False)
            if tmpl[0] != 'ok':
                continue
            bad = check_attrs(tmpl[1].members, tb)
            exp = expand_file(seq, td)
            if bad or flat_member_ids(tmpl[1]) != exp:
                t.violation('C14', 'template [%06d] built under version %d after version %d: %s' % (seq, v, v1 if v == v2 else v2,
                            bad or 'expansion differs from the table file'), {'versions': [v1, v2], 'sequence': seq}, key='C14.two-versions')
    # B: random lists
    tabs = R.load_tables(G.VERSION)
    group = TableGroupCacheManager.get_table_group(master_table_number=0, originating_centre=0, originating_subcentre=0, master_table_version=G.VERSION, local_table_version=0, normalize=0)
    for _ in range(300 if quick else 6000):
        ids = gen_ids(rng)
        t.case('B.builder', tuple(ids), sample={'ids': ids})
        r = safe(lambda: group.template_from_ids(*ids))
        if r[0] != 'ok':
            t.violation('C14', 'template_from_ids fails on a well-formed list: %r' % (r[1],), {'ids': ids}, key='C14.builder.fail')
            continue
        back = r[1].original_descriptor_ids
        if back != ids:
            t.violation('C14', 'flattening the built template returns %r, the list was %r' % (back, ids), {'ids': ids}, key='C14.builder.flatten')
            continue
        if real_shape(r[1].members) != tree_shape(R.build_tree(ids, tabs)):
            t.violation('C14', 'replication ownership differs from the FM-94 rule for %r' % (ids,), {'ids': ids}, observed=repr(real_shape(r[1].members))[:300],
                        expected=repr(tree_shape(R.build_tree(ids, tabs)))[:300], key='C14.builder.ownership')
    # C: unknown descriptors
    dec = Decoder()
    for bad_id in (63250, 1250, 363250, 301199, 340250):
        for pos in (0, 1):
            ids = [1001, 12101]
            js = G.sections_json(4, ids, [[1, 273.15]], 1, False)
            data = bytearray(R.ref_encode(js)[0])
            rm = R.RefDecoder(bytes(data), fallback=False).decode(data_section=False)
            s3 = rm.extents[3][0]
            data[s3 + 7 + 2 * pos] = ((bad_id // 100000) << 6) | ((bad_id // 1000) % 100)
            data[s3 + 7 + 2 * pos + 1] = bad_id % 1000
            r = safe(dec.process, bytes(data))
            t.case('C.unknown', (bad_id, pos))
            if r[0] == 'ok' or not isinstance(r[1], UnknownDescriptor):
                t.violation('C14', 'descriptor %06d is in no table: decoding %s instead of failing with UnknownDescriptor' % (
                    bad_id, 'succeeds with %r' % r[1].template_data.value.decoded_values_all_subsets if r[0] == 'ok' else 'raises %r' % (r[1],)),
                    {'bytes': bytes(data).hex()}, key='C14.unknown|%s' % ('seq' if bad_id >= 300000 else 'elem'))
    # D: version selection
    for mv in (0, 5, 13, 25, 33, 41, 99):
        for centre, sub, lv in ((0, 0, 0), (98, 0, 1), (98, 5, 1), (7, 0, 1), (98, 0, 77), (98, 0, 101)):
            wmo, loc = normalize_tables_sn(root, 0, centre, sub, mv, lv)
            exp_wmo = ('0', '0_0', str(mv) if os.path.isdir(os.path.join(root, '0', '0_0', str(mv))) else '33')
            exp_loc = None
            if lv != 0:
                for c in ('%d_%d' % (centre, sub), '%d_0' % centre):
                    if os.path.isdir(os.path.join(root, '0', c, str(lv))):
                        exp_loc = ('0', c, str(lv))
                        break
            t.case('D.versions', (mv, centre, sub, lv))
            if tuple(wmo) != exp_wmo or (tuple(loc) if loc else None) != exp_loc:
                t.violation('C14', 'table selection for master %d, centre %d_%d, local %d: %r / %r, expected %r / %r' % (
                    mv, centre, sub, lv, wmo, loc, exp_wmo, exp_loc), {'master': mv, 'centre': centre, 'sub': sub, 'local': lv}, key='C14.versions')
    # E: the same builder rules AFTER table-definition messages have been read in this process (extra entries registered: every template
    # then passes through the NCEP repair of replication-only sequences, which must leave well-formed lists alone); run last, the extras
    # are process-global
    from pybufrkit.decoder import generate_bufr_message
    prep = os.path.join(REPO, 'tests', 'data', 'prepbufr.bufr')
    if os.path.exists(prep):
        with open(prep, 'rb') as f:
            stream = f.read()
        n_def = 0
        for mm in generate_bufr_message(Decoder(), stream, info_only=False, continue_on_error=True):
            n_def += 1
            if n_def >= 12:
                break
        if TableGroupCacheManager.has_extra_entries():
            group2 = TableGroupCacheManager.get_table_group(master_table_number=0, originating_centre=0, originating_subcentre=0,
                                                            master_table_version=G.VERSION, local_table_version=0, normalize=0)
            lists = [[1001, 105000, 31001, 103002, 101000, 31001, 12101, 4004, 10004, 11001],
                     [107000, 31001, 105003, 103000, 31001, 101002, 12101, 4004, 1001, 11001],
                     [105002, 103000, 31001, 101003, 12101, 1001, 1002],
                     [1001, 109000, 31001, 107002, 105000, 31001, 103003, 101000, 31001, 12101, 4004, 10004]]
            for _ in range(150 if quick else 3000):
                lists.append(gen_ids(rng))
            for ids in lists:
                t.case('E.builder-after-definitions', tuple(ids), sample={'ids': ids})
                r = safe(lambda: group2.template_from_ids(*ids))
                if r[0] != 'ok':
                    t.violation('C14', 'after table-definition messages: template_from_ids fails on a well-formed list: %r' % (r[1],), {'ids': ids},
                                key='C14.after-definitions.fail')
                    continue
                if r[1].original_descriptor_ids != ids or real_shape(r[1].members) != tree_shape(R.build_tree(ids, tabs)):
                    t.violation('C14', 'after table-definition messages: the template built from %r flattens to %r / has another replication ownership '
                                'than the FM-94 rule' % (ids, r[1].original_descriptor_ids), {'ids': ids, 'history': 'tests/data/prepbufr.bufr'},
                                observed=repr(real_shape(r[1].members))[:300], expected=repr(tree_shape(R.build_tree(ids, tabs)))[:300],
                                key='C14.after-definitions.ownership')
    return t.result()


def check_attrs(members, tb):
    from pybufrkit import descriptors as D
    for m in members:
        if type(m) is D.ElementDescriptor:
            info = tb.get(m.id)
            if info and (m.scale, m.refval, m.nbits, m.unit) != (info['scale'], info['ref'], info['nbits'], info['unit']):
                return 'element %06d carries (scale %r, ref %r, width %r), the table of this version says (%r, %r, %r)' % (
                    m.id, m.scale, m.refval, m.nbits, info['scale'], info['ref'], info['nbits'])
        if getattr(m, 'members', None):
            r = check_attrs(m.members, tb)
            if r:
                return r
        if isinstance(m, D.DelayedReplicationDescriptor) and m.factor is not None:
            r = check_attrs([m.factor], tb)
            if r:
                return r
    return None


if __name__ == '__main__':
    io_main(run)
