"""C15 bounded layer: the real path parser against a reference recogniser written from the documented EBNF."""
import itertools
import random
import string

from bounded.common import Tally, io_main
from bounded.codec import safe

SPECIAL = '@[]:/.>'
WS = string.whitespace


class Reject(Exception):
    pass


def int_strict(tok):
    t = tok[1:] if tok.startswith('-') else tok
    return t != '' and all(c in '0123456789' for c in t)


def to_int(tok, lenient):
    """slice element -> int | Reject; lenient = whatever Python's int() accepts"""
    if int_strict(tok):
        return int(tok)
    if lenient:
        try:
            return int(tok)
        except ValueError:
            raise Reject('bad slice element %r' % tok)
    raise Reject('bad slice element %r' % tok)


def parse_slice(s, i, lenient):
    """s[i] == '[' -> (elements, next index)"""
    assert s[i] == '['
    j = s.find(']', i)
    if j < 0:
        raise Reject('unterminated slice')
    body = s[i + 1:j]
    if any(c in '@[/.>' for c in body):
        raise Reject('bad char in slice')
    parts = body.split(':')
    if len(parts) > 3:
        raise Reject('slice can have at most three indices')
    if len(parts) == 1 and parts[0] == '':
        raise Reject('empty slice')
    return [None if p == '' else to_int(p, lenient) for p in parts], j + 1


def slice_obj(elems):
    if elems is None:
        return slice(None, None, None)
    if len(elems) == 1:
        k = elems[0]
        if k >= 0:
            return k
        return slice(k, k + 1 if k != -1 else None, None)
    return slice(*elems)


def ref_parse(expr, lenient):
    """-> (subset_slice, [(sep, id, slice)]) or raises Reject. Whitespace is ignored everywhere."""
    s = ''.join(c for c in expr if c not in WS)
    if s == '':
        raise Reject('empty')
    i = 0
    subset = None
    has_subset = False
    if s[0] == '@':
        if len(s) < 2 or s[1] != '[':
            raise Reject('@ without slice')
        subset, i = parse_slice(s, 1, lenient)
        has_subset = True
    comps = []
    first = True
    while i < len(s):
        c = s[i]
        if c in '/.>':
            if first and c == '.':
                raise Reject('an attribute step needs an owner')
            sep = c
            i += 1
        elif first and not has_subset and c not in SPECIAL:
            sep = '>'
            if not lenient and not (c.isdigit() or ('A' <= c <= 'Z')):
                raise Reject('bare id must start with a digit or capital')
        else:
            raise Reject('separator expected at %d' % i)
        j = i
        while j < len(s) and s[j] not in SPECIAL:
            j += 1
        ident = s[i:j]
        if ident == '':
            raise Reject('empty id')
        if not lenient and not all(ch.isalnum() and ch.isascii() for ch in ident):
            raise Reject('id chars')
        i = j
        elems = None
        if i < len(s) and s[i] == '[':
            elems, i = parse_slice(s, i, lenient)
        comps.append((sep, ident, slice_obj(elems)))
        first = False
    if not comps:
        raise Reject('no path component')
    return slice_obj(subset), comps


def check_string(t, parser, PathErr, s, part):
    strict = lenient = None
    try:
        strict = ref_parse(s, False)
    except Reject:
        pass
    try:
        lenient = ref_parse(s, True)
    except Reject:
        pass
    r = safe(parser.parse, s)
    t.case(part, s, nontrivial=True, sample={'expr': s, 'strict': repr(strict)[:80], 'lenient': repr(lenient)[:80]})
    if r[0] != 'ok':
        if not isinstance(r[1], PathErr):
            t.violation('C15', 'parse(%r) raises %s instead of the path-parsing error' % (s, type(r[1]).__name__), {'expr': s},
                        observed=repr(r[1]), key='C15.exception|%s' % type(r[1]).__name__)
        elif strict is not None:
            t.violation('C15', 'parse(%r) rejects a string of the documented grammar (expected %r)' % (s, strict), {'expr': s},
                        observed=repr(r[1]), expected=repr(strict), key='C15.reject-valid')
        return None
    p = r[1]
    got = (p.subset_slice, [(c.separator, c.id, c.slice) for c in p.components])
    if lenient is None:
        t.violation('C15', 'parse(%r) accepts a string outside the grammar: %r' % (s, got), {'expr': s}, observed=repr(got),
                    expected='PathExprParsingError', key='C15.accept-invalid|%s' % why_invalid(s))
        return None
    if got != (lenient[0], lenient[1]):
        t.violation('C15', 'parse(%r) yields %r, the grammar dictates %r' % (s, got, lenient), {'expr': s}, observed=repr(got),
                    expected=repr(lenient), key='C15.components')
        return None
    # print / parse round trip
    text = str(p)
    r2 = safe(parser.parse, text)
    if r2[0] != 'ok':
        t.violation('C15', 'printing parse(%r) gives %r, which does not parse' % (s, text), {'expr': s}, key='C15.roundtrip.fail')
    else:
        got2 = (r2[1].subset_slice, [(c.separator, c.id, c.slice) for c in r2[1].components])
        if got2 != got:
            t.violation('C15', 'printing parse(%r) gives %r, which parses to a different path %r' % (s, text, got2), {'expr': s},
                        observed=repr(got2), expected=repr(got), key='C15.roundtrip')
    return p


def why_invalid(s):
    s2 = ''.join(c for c in s if c not in WS)
    if s2.count('[') != s2.count(']'):
        return 'unterminated'
    if s2.startswith('@') and (s2.endswith(']') and s2.count('[') == 1):
        return 'subset-only'
    return 'other'


def run(job):
    from pybufrkit.dataquery import NodePathParser
    from pybufrkit.errors import PathExprParsingError
    quick = job['tier'] == 'quick'
    rng = random.Random(job.get('seed', 0))
    L = 5 if quick else 6
    t = Tally('C15', 'every string of length <= L over the alphabet {@ [ ] : / . > - 0 1 A space}: the real parser against a reference '
              'recogniser written from the documented EBNF (strict / lenient reading of <descriptor_id> and of integer spellings bracket '
              'what the statement leaves open): must accept every strict string with exactly the grammar\'s components and slices, must '
              'reject every string outside the lenient language with PathExprParsingError, never another exception; print / parse round '
              'trip of every accepted string; plus grammar-derived long expressions and their single-character mutations, and a directed '
              'set of slice-element spellings', 'quick: L = 5 (271 453 strings) + 3 000 derived; thorough: L = 6 (3.3 M) + 60 000 derived')
    parser = NodePathParser()
    alphabet = '@[]:/.>-01A '
    for n in range(0, L + 1):
        for tup in itertools.product(alphabet, repeat=n):
            check_string(t, parser, PathExprParsingError, ''.join(tup), 'exhaustive')
    t.exhaustive = True
    # directed slice element spellings
    toks = ['', '1', '-1', '--1', '1-', '-', 'a', '+1', '01', '1_0', ' 1', '1 ', '10', '-0', '0x1', '1.0', '٣']
    for a in toks:
        for shape in ('0[%s]', '/001001[%s]', '@[%s]/001001', '/001001[1:%s]', '/001001[%s:2:1]', '@[0]/A[::%s]', '0[%s:%s]'):
            s = shape.replace('%s', a)
            check_string(t, parser, PathExprParsingError, s, 'directed')
    # grammar-derived expressions and single-character mutations
    ids = ['001001', '301011', 'A21062', '103000', '031001', '0', 'ABC', 'F12001']

    def rslice():
        k = rng.random()
        if k < 0.3:
            return ''
        if k < 0.5:
            return '[%d]' % rng.choice([0, 1, 5, -1, -2, -10])
        parts = [rng.choice(['', '0', '1', '-1', '10', '-3']) for _ in range(rng.choice([2, 3]))]
        return '[' + ':'.join(parts) + ']'

    def rexpr():
        s = ''
        if rng.random() < 0.4:
            sub = rslice() or '[0]'
            s += '@' + sub
        n = rng.randint(1, 5)
        for k in range(n):
            if k == 0 and not s and rng.random() < 0.3:
                sep = ''
            elif k == 0:
                sep = rng.choice('/>')
            else:
                sep = rng.choice('/.>')
            s += sep + rng.choice(ids) + rslice()
        if rng.random() < 0.3:
            s = ''.join(ch + (' ' if rng.random() < 0.2 else '') for ch in s)
        return s
    for _ in range(600 if quick else 12000):
        e = rexpr()
        check_string(t, parser, PathExprParsingError, e, 'derived')
        for _ in range(4):
            k = rng.randrange(len(e) + 1)
            kind = rng.choice('idr')
            ch = rng.choice(alphabet + 'a9_+')
            if kind == 'i':
                m = e[:k] + ch + e[k:]
            elif kind == 'd' and e:
                m = e[:k] + e[k + 1:]
            else:
                m = e[:k] + ch + e[k + 1:]
            check_string(t, parser, PathExprParsingError, m, 'mutated')
    return t.result()


if __name__ == '__main__':
    io_main(run)
