"""Bounded stand-ins (never counted as proved) for C04, C06, C07, C08, C09, C10, C12: real code vs the reference codec
and the expected hierarchical view (bounded/refcodec.py) on generated messages and the sample corpus."""
import copy
import itertools
import json
import os
import random

from bounded.common import Tally, io_main
from bounded import refcodec as R, gen as G, oracle as O
from bounded.codec import safe, msg_key, msg_sample, msg_input, corpus_files, read_first_message, keyof, _Enc

REPO = os.environ.get('PYVC_REPO', '/repo')


def td_of(msg):
    return msg.template_data.value


def decoded_triple(msg):
    td = td_of(msg)
    return [([str(d) for d in td.decoded_descriptors_all_subsets[i]], list(td.decoded_values_all_subsets[i]),
             dict(td.bitmap_links_all_subsets[i])) for i in range(td.n_subsets)]


def triple_eq(a, b):
    if a[0] != b[0] or a[2] != b[2] or len(a[1]) != len(b[1]):
        return False
    return all(O.json_val_eq(x, y) for x, y in zip(a[1], b[1]))


# ---------------------------------------------------------------------------------------------- C04

def fix_total(data):
    return data[:4] + len(data).to_bytes(3, 'big') + data[7:]


def with_surplus(data, rm, idx, k):
    """insert k zero octets at the end of section idx and declare them (total length fixed)"""
    start, ln = rm.extents[idx]
    sec = data[start:start + ln] + b'\0' * k
    sec = (ln + k).to_bytes(3, 'big') + sec[3:]
    return fix_total(data[:start] + sec + data[start + ln:])


def declare_json_lengths(js, rm, surplus):
    """JSON copy with the section lengths declared (actual + surplus[idx]) and the total length declared"""
    j = copy.deepcopy(js)
    order = [i for i in (0, 1, 2, 3, 4, 5) if i in rm.extents]
    total = 0
    for pos, idx in enumerate(order):
        start, ln = rm.extents[idx]
        if idx in (1, 2, 3, 4):
            j[pos][0] = ln + surplus.get(idx, 0)
            total += ln + surplus.get(idx, 0)
        else:
            total += ln
    j[0][1] = total
    return j


def run_c04(job):
    from pybufrkit.encoder import Encoder
    from pybufrkit.decoder import Decoder
    from pybufrkit.errors import PyBufrKitError
    quick = job['tier'] == 'quick'
    rng = random.Random(job.get('seed', 0))
    t = Tally('C04', 'data sections of every bit length 0..31 (r one-bit flags) x editions {2,3,4} x section 2 absent / present with '
              '{0,5,8,19} local bits: encoder output == independently framed message (lengths, even-octet rule, zero padding, signatures); '
              'encoder honouring declared lengths: surplus 0..3 octets declared in sections 1, 2, 4 (and 2 in section 3 is a descriptor by the '
              'format, so 0..1) zero-filled, shorter declared refused, wrong declared total refused; decoder: the same messages with '
              'surplus octets, with trailing bytes after 7777, and with one section declared shorter than its content (error)',
              'quick: residues x editions x sec2 {absent, 5 bits}; thorough: full grid + 2000 generated messages')
    enc, dec = Encoder(), Decoder()
    honour = Encoder(ignore_declared_length=False)
    sec2s = [None, '10110'] if quick else [None, '', '10110', '10110011', '1011001110001111000']
    for ed in (2, 3, 4):
        for sec2 in sec2s:
            for r in range(0, 32):
                ids = [31031] * r if r else []
                if not ids:
                    ids = []
                vals = [[rng.choice([0, 1]) for _ in range(r)]]
                js = G.sections_json(ed, ids, vals, 1, False, sec2)
                m = dict(json=js, ids=ids, values=vals, edition=ed, compressed=False, nsub=1, sec2=sec2)
                t.case('A.residues', (ed, sec2, r), sample={'edition': ed, 'sec2_bits': sec2, 'data_bits': r})
                res = safe(O.check_encode, enc, m)
                if res[0] != 'ok':
                    t.violation('C04.encode', 'encoder fails: %r' % (res[1],), {'json': js}, observed=res[2], key='C04.encode.fail|ed%d' % ed)
                    continue
                d, eb = res[1]
                if d:
                    t.violation('C04.encode', 'edition %d, %d data bits, section 2 %s: %s' % (ed, r, 'absent' if sec2 is None else '%d bits' % len(sec2), d[0]),
                                {'json': js}, observed=d, key='C04.encode|ed%d|%s' % (min(ed, 3), d[0].split(':')[1][:30] if ':' in d[0] else d[0][:30]))
                    continue
                if quick and r % 5 not in (0, 3):
                    continue
                rm = R.RefDecoder(eb, fallback=False).decode()
                # decoder: trailing bytes do not matter; serialized_bytes is the span
                for tail in (b'', b'\r\r\n', b'7777', b'BUFR\x00\x00'):
                    dm = safe(dec.process, eb + tail)
                    t.case('B.trailing', (ed, sec2, r, tail))
                    if dm[0] != 'ok' or dm[1].serialized_bytes != eb or not triple_eq(decoded_triple(dm[1])[0], (rm.subsets[0]['labels'], [None if v is None else int(v) for v in rm.subsets[0]['values']], rm.subsets[0]['links'])):
                        t.violation('C04.decode', 'bytes after 7777 (%r) change the decoding or the reported bytes' % tail, {'bytes': (eb + tail).hex()},
                                    key='C04.decode.trailing')
                # surplus octets
                for idx in (1, 2, 3, 4):
                    if idx not in rm.extents:
                        continue
                    for k in ((1,) if idx == 3 else (1, 2, 3)):
                        if idx == 3 and (rm.extents[3][1] - 7) % 2:
                            continue      # with the pad octet already there, one more octet makes a descriptor (000000) by the format's rule
                        if ed <= 3 and k % 2:
                            pass          # odd section lengths are not produced by an edition <= 3 encoder but a decoder must cope
                        data = with_surplus(eb, rm, idx, k)
                        t.case('B.surplus', (ed, sec2, r, idx, k))
                        dm = safe(dec.process, data + b'xy')
                        if dm[0] != 'ok':
                            t.violation('C04.decode', 'section %d with %d surplus octets is not decodable: %r' % (idx, k, dm[1]), {'bytes': data.hex()},
                                        key='C04.decode.surplus|s%d' % idx)
                            continue
                        if dm[1].serialized_bytes != data or decoded_triple(dm[1])[0][1] != decoded_triple(dec.process(eb))[0][1]:
                            t.violation('C04.decode', 'section %d with %d surplus octets: wrong span or values' % (idx, k), {'bytes': data.hex()},
                                        key='C04.decode.surplus.span|s%d' % idx)
                        # the encoder honouring these declared lengths reproduces the bytes
                        jd = declare_json_lengths(js, rm, {idx: k})
                        he = safe(lambda: honour.process(jd, wire_template_data=False).serialized_bytes)
                        t.case('C.honour', (ed, sec2, r, idx, k))
                        if he[0] != 'ok' or he[1] != data:
                            t.violation('C04.honour', 'declared lengths honoured: section %d declared %d octets longer is not zero-filled to the declared '
                                        'extent (%s)' % (idx, k, repr(he[1])[:120] if he[0] != 'ok' else 'bytes differ'), {'json': jd}, key='C04.honour|s%d' % idx)
                        # declared total 0 -> computed
                        jz = copy.deepcopy(jd)
                        jz[0][1] = 0
                        hz = safe(lambda: honour.process(jz, wire_template_data=False).serialized_bytes)
                        if hz[0] != 'ok' or hz[1] != data:
                            t.violation('C04.honour', 'declared section lengths honoured with total length 0 (to be computed): wrong bytes / %r' % (hz[1] if hz[0] != 'ok' else ''),
                                        {'json': jz}, key='C04.honour.total0')
                    # shorter declared -> refused by the encoder, error in the decoder
                    start, ln = rm.extents[idx]
                    if ln > 8:
                        js_short = declare_json_lengths(js, rm, {idx: -2})
                        he = safe(lambda: honour.process(js_short, wire_template_data=False))
                        t.case('C.shorter', (ed, sec2, r, idx))
                        if he[0] == 'ok' or not isinstance(he[1], PyBufrKitError):
                            t.violation('C04.honour', 'section %d declared shorter than its content is not refused with the library error (%r)' % (idx, he[1]),
                                        {'json': js_short}, key='C04.honour.shorter|s%d' % idx)
                # wrong declared total
                jt = declare_json_lengths(js, rm, {})
                jt[0][1] += 2
                he = safe(lambda: honour.process(jt, wire_template_data=False))
                if he[0] == 'ok' or not isinstance(he[1], PyBufrKitError):
                    t.violation('C04.honour', 'a wrong declared total length is not refused (%r)' % (he[1],), {'json': jt}, key='C04.honour.total')
                # decoder: section declared shorter than content -> library error
                for idx in (1, 3, 4):
                    start, ln = rm.extents[idx]
                    if idx == 4 and r == 0:
                        continue
                    short = ln - 2 if idx != 3 else ln
                    if idx == 3:
                        continue
                    bad = eb[:start] + short.to_bytes(3, 'big') + eb[start + 3:]
                    if idx == 4 and r <= 16:
                        continue          # the data still fit when two padding octets are dropped
                    dm = safe(dec.process, bad)
                    t.case('B.shorter', (ed, sec2, r, idx))
                    if dm[0] == 'ok':
                        same = dm[1].serialized_bytes == eb
                        if idx == 1:
                            t.violation('C04.decode', 'section 1 declared 2 octets shorter than its content decodes without error', {'bytes': bad.hex()},
                                        key='C04.decode.shorter|s1')
                    elif not isinstance(dm[1], PyBufrKitError):
                        t.violation('C04.decode', 'section %d declared shorter: %r instead of the library error' % (idx, dm[1]), {'bytes': bad.hex()},
                                    key='C04.decode.shorter.exc|s%d' % idx)
    if not quick:
        for _ in range(2000):
            m = G.gen_message(rng)
            t.case('D.generated', msg_key(m))
            res = safe(O.check_encode, enc, m)
            if res[0] == 'ok' and res[1][0]:
                t.violation('C04.encode', res[1][0][0], msg_input(m), key='C04.encode.gen|' + keyof(m, res[1][0][0]))
    return t.result()


# ---------------------------------------------------------------------------------------------- C06

UNCLOSED = [
    lambda rng: [204008, 31021, rng.choice(G.NUMERIC)],                       # 204 never cancelled
    lambda rng: [rng.choice(G.NUMERIC), 221004, 1001, 20011],                 # 221 count overruns the end
    lambda rng: [201132, rng.choice(G.NUMERIC)],
    lambda rng: [202129, rng.choice(G.NUMERIC)],
    lambda rng: [207002, rng.choice(G.NUMERIC)],
    lambda rng: [208004, rng.choice(G.STRINGS)],
    lambda rng: [203012, 12101, 203255, 12101],                               # new references never cancelled
    lambda rng: [206009],                                                     # hmm: skip register set, nothing follows
]


def c06_directed(rng):
    """two delayed replications of different elements before a marker-using bitmap construct; the subsets' counts differ but
    sum to the same number, the bitmaps have the same length and differ in pattern"""
    e1, e2 = rng.sample([12101, 10004, 7001, 11001, 5001, 12001], 2)
    op = rng.choice([224, 223, 232, 225])
    mean = 8024 if op == 225 else 8023
    ids = [101000, 31001, e1, 101000, 31001, e2, op * 1000, 236000, 101005, 31031, mean, 101000, 31001, op * 1000 + 255]
    pats = [(1, 0, 0, 1, 0), (1, 0, 1, 0, 0), (0, 0, 1, 1, 0), (1, 1, 0, 0, 0), (0, 1, 0, 1, 0)]
    per = []
    for counts in rng.sample([(2, 1), (1, 2), (3, 0), (0, 3)], rng.choice([2, 3])):
        bits = rng.choice(pats)
        per.append(([counts[0], counts[1], bits.count(0)], bits))
    return G.forced_message(rng, ids, per, compressed=False)


def gen_c06_message(rng, nsub):
    tabs = R.load_tables(G.VERSION)
    if rng.random() < 0.25:
        m = c06_directed(rng)
        if m is not None:
            return m
    for _ in range(80):
        ids = G.gen_template(rng, rng.randint(1, 2), only=[G.frag_delayed, G.frag_bitmap, G.frag_plain, G.frag_203, G.frag_204, G.frag_221,
                                                          G.frag_201, G.frag_208])
        if rng.random() < 0.5:
            ids = ids + rng.choice(UNCLOSED[:-1])(rng)
        try:
            values, infos = G.gen_values(rng, ids, tabs, nsub, False)
        except R.RefError:
            continue
        return dict(json=G.sections_json(4, ids, values, nsub, False), ids=ids, values=values, edition=4, compressed=False, nsub=nsub, sec2=None)
    raise RuntimeError('no conforming C06 message')


def nested_of(msg):
    from pybufrkit.renderer import NestedJsonRenderer
    nj = NestedJsonRenderer().render(msg)
    return [p['value'] for s in nj for p in s if p['name'] == 'template_data'][0]


def run_c06(job):
    from pybufrkit.encoder import Encoder
    from pybufrkit.decoder import Decoder
    quick = job['tier'] == 'quick'
    rng = random.Random(job.get('seed', 0))
    t = Tally('C06', 'uncompressed messages of 2-3 subsets whose replication counts and bitmaps differ from subset to subset (templates with '
              'delayed replication before a bitmap, bitmap reuse, 235000 / 237255, 203, and templates ending inside an open 201 / 202 / 203 / 204 / '
              '207 / 208 / 221 construct): each subset decoded / encoded alone vs together vs every order; compared: values, labels, links, nested '
              'JSON structure per subset, and the bytes of the data section; also against the reference decoder',
              'quick: 120 messages; thorough: 2500 messages')
    enc, dec = Encoder(), Decoder()
    for _ in range(120 if quick else 2500):
        nsub = rng.choice([2, 2, 3])
        m = gen_c06_message(rng, nsub)
        nsub = m['nsub']
        t.case('together-vs-alone', msg_key(m) + (tuple(len(v) for v in m['values']),), nontrivial=len(set(len(v) for v in m['values'])) > 1 or True,
               sample=msg_sample(m))
        r = safe(lambda: enc.process(json.loads(json.dumps(m['json']))))
        if r[0] != 'ok':
            t.violation('C06', 'encoder fails on subsets that each conform to the template: %r' % (r[1],), msg_input(m), observed=r[2],
                        key='C06.encode.fail|' + keyof(m, r[1]))
            continue
        together_b = r[1].serialized_bytes
        dtog = safe(dec.process, together_b)
        if dtog[0] != 'ok':
            t.violation('C06', 'decoder fails on the multi-subset message: %r' % (dtog[1],), msg_input(m), key='C06.decode.fail|' + keyof(m, dtog[1]))
            continue
        trip = decoded_triple(dtog[1])
        nest = nested_of(dtog[1])
        enc_nest = nested_of(r[1])
        ok = True
        for i in range(nsub):
            js1 = G.sections_json(4, m['ids'], [m['values'][i]], 1, False)
            e1 = safe(lambda: enc.process(json.loads(json.dumps(js1))))
            if e1[0] != 'ok':
                continue
            d1 = dec.process(e1[1].serialized_bytes)
            t1 = decoded_triple(d1)[0]
            if not triple_eq(trip[i], t1):
                t.violation('C06', 'subset %d of %d decodes differently together than alone (values / labels / links)' % (i, nsub), msg_input(m),
                            observed=repr(trip[i])[:300], expected=repr(t1)[:300], key='C06.decode|' + keyof(m, 'diff'))
                ok = False
                break
            if O.nested_diff(O.norm_real_nested(nest[i]), O.norm_real_nested(nested_of(d1)[0])):
                t.violation('C06', 'subset %d: hierarchical structure differs together vs alone: %s' % (
                    i, O.nested_diff(O.norm_real_nested(nest[i]), O.norm_real_nested(nested_of(d1)[0]))), msg_input(m), key='C06.structure|' + keyof(m, 'nest'))
                ok = False
                break
            if O.nested_diff(O.norm_real_nested(enc_nest[i]), O.norm_real_nested(nested_of(e1[1])[0])):
                t.violation('C06', 'subset %d: hierarchical structure of the encoder-built message differs together vs alone' % i, msg_input(m),
                            key='C06.structure.enc|' + keyof(m, 'nest'))
                ok = False
                break
        if not ok:
            continue
        # reference
        rm = R.RefDecoder(together_b, fallback=False).decode()
        d = O.compare_decoded(dtog[1], rm)
        if d:
            t.violation('C06', d[0], msg_input(m), key='C06.ref|' + keyof(m, d[0]))
            continue
        # every order
        for perm in itertools.permutations(range(nsub)):
            if perm == tuple(range(nsub)):
                continue
            jp = G.sections_json(4, m['ids'], [m['values'][k] for k in perm], nsub, False)
            rp = safe(lambda: decoded_triple(dec.process(enc.process(json.loads(json.dumps(jp))).serialized_bytes)))
            t.case('permutation', (msg_key(m), perm), nontrivial=False)
            if rp[0] != 'ok' or not all(triple_eq(rp[1][pos], trip[k]) for pos, k in enumerate(perm)):
                t.violation('C06', 'permuting the subsets %r does not permute the result' % (perm,), {'json': jp}, key='C06.permute|' + keyof(m, 'perm'))
                break
    return t.result()


# ---------------------------------------------------------------------------------------------- C07

def run_c07(job):
    from pybufrkit.encoder import Encoder
    from pybufrkit.decoder import Decoder
    quick = job['tier'] == 'quick'
    rng = random.Random(job.get('seed', 0))
    t = Tally('C07', 'templates with bitmap constructs (222000 / 223 / 224 / 225 / 232 with 236000 definition, 237000 recall, 237255, 235000, '
              'replication and sequences before the operator) and 204YYY associated fields, bitmaps of 1..5 bits with random 0/1 patterns, '
              'both storage modes, 1-3 subsets: links and marker labels / widths / references against the reference decoder (k-th value -> '
              'k-th zero bit over the N preceding elements; 225255 coded with width+1 and reference -2^width); the nested JSON must show each '
              'such value as attribute of its owner with its 031021 / 008023 / 008024 meaning (expected hierarchical view); plus a directed '
              'enumeration of all bit patterns of bitmaps of length 1..4 (quick) / 1..6 (thorough) for the four marker operators',
              'quick: 250 random + 120 directed; thorough: 5000 random + 2000 directed')
    enc, dec = Encoder(), Decoder()
    tabs = R.load_tables(G.VERSION)

    def check(m, part):
        r = safe(lambda: enc.process(json.loads(json.dumps(m['json']))))
        if r[0] != 'ok':
            t.violation('C07', 'encoder fails on a conforming bitmap template: %r' % (r[1],), msg_input(m), observed=r[2], key='C07.encode.fail|' + keyof(m, r[1]))
            return
        ref_bytes, _ = R.ref_encode(m['json'])
        if not m['compressed'] and r[1].serialized_bytes != ref_bytes:
            t.violation('C07', 'encoded bytes differ from the independently built message (marker width / reference?)', msg_input(m),
                        key='C07.encode.bytes|' + keyof(m, 'bytes'))
            return
        rm = R.RefDecoder(ref_bytes, fallback=False).decode()
        dm = safe(dec.process, ref_bytes)
        if dm[0] != 'ok':
            t.violation('C07', 'decoder fails: %r' % (dm[1],), msg_input(m), key='C07.decode.fail|' + keyof(m, dm[1]))
            return
        d = O.compare_decoded(dm[1], rm)
        if d:
            t.violation('C07', d[0], msg_input(m), observed=d, key='C07.links|' + keyof(m, d[0]))
            return
        for which, msg in (('decoded', dm[1]), ('encoded', r[1])):
            nest = nested_of(msg)
            for i in range(rm.n_subsets):
                dd = O.nested_diff(O.norm_real_nested(nest[i]), O.norm_ref_nested(rm.structures[i], rm.subsets[i]['values']),
                                   eq=O.input_val_eq if which == 'encoded' else None)
                if dd:
                    t.violation('C07', '%s message, subset %d: hierarchical view: %s' % (which, i, dd), msg_input(m), observed=dd,
                                key='C07.attributes|%s|' % which + keyof(m, 'nest'))
                    return
    for _ in range(250 if quick else 5000):
        m = G.gen_message(rng, only=[G.frag_bitmap, G.frag_204, G.frag_plain], nfrag=rng.randint(1, 2), edition=4)
        t.case('random', msg_key(m) + (tuple(str(v) for v in m['values'][0][:30]),), sample=msg_sample(m))
        check(m, 'random')
    maxbits = 4 if quick else 6
    directed = 0
    for op in (223, 224, 225, 232, 222):
        for n in range(1, maxbits + 1):
            for bits in itertools.product([0, 1], repeat=n):
                if quick and rng.random() < 0.45:
                    continue
                zeros = bits.count(0)
                base = [rng.choice([7001, 12101, 5001, 10004, 11001]) for _ in range(n)]
                if op == 222:
                    ids = base + [222000, 236000, 101000 + n, 31031, 1031]
                    if zeros:
                        ids += [101000 + zeros, 33007]
                else:
                    ids = base + [op * 1000, 236000, 101000 + n, 31031, 8024 if op == 225 else 8023]
                    if zeros:
                        ids += [101000 + zeros, op * 1000 + 255]
                for comp in (False, True):
                    nsub = rng.choice([1, 2, 3])
                    mm = directed_values(rng, ids, bits, tabs, nsub, comp)
                    if mm is None:
                        continue
                    directed += 1
                    t.case('directed', (op, bits, comp), sample={'operator': op, 'bitmap': bits, 'compressed': comp})
                    check(mm, 'directed')
    res = t.result()
    return res


class FixedBitsIO(G.GenIO):
    def __init__(self, rng, nsub, compressed, bits):
        G.GenIO.__init__(self, rng, nsub, compressed)
        self.bits_iter = iter(bits)

    def structural(self, eid, nbits):
        if eid == 31031:
            return [next(self.bits_iter)] * self.nsub
        return G.GenIO.structural(self, eid, nbits)


def directed_values(rng, ids, bits, tabs, nsub, compressed):
    tree = R.build_tree(ids, tabs)
    try:
        if compressed:
            io = FixedBitsIO(rng, nsub, True, bits)
            R.Walker(tabs, io).walk(tree)
            values = io.values
        else:
            values = []
            for _ in range(nsub):
                io = FixedBitsIO(rng, 1, False, bits)
                R.Walker(tabs, io).walk(tree)
                values.append(io.values[0])
    except (R.RefError, StopIteration):
        return None
    return dict(json=G.sections_json(4, ids, values, nsub, compressed), ids=ids, values=values, edition=4, compressed=compressed, nsub=nsub, sec2=None)


# ---------------------------------------------------------------------------------------------- C08

def outcome_of(f):
    try:
        return ('ok', f())
    except Exception as ex:      # noqa
        return ('exc', type(ex).__name__)


def run_c08(job):
    from pybufrkit.encoder import Encoder
    from pybufrkit.decoder import Decoder
    from pybufrkit import templatecompiler as TC
    from pybufrkit.coder import CoderState
    from pybufrkit.bitops import get_bit_reader
    quick = job['tier'] == 'quick'
    rng = random.Random(job.get('seed', 0))
    t = Tally('C08', 'compiled vs direct, decoder and encoder, and the compiled template written to JSON and loaded back: generated templates '
              'with every operator (operators opened and closed within one replication scope), delayed factors 0..3, random bitmaps, both modes, '
              'plus every sample file; cache sizes {0, 1, 2, 50} with shuffled message order, including pairs of templates that agree on the '
              'top-level descriptors and differ inside a replication; thorough: every sequence of every bundled Table D version >= 19 as a '
              'template with generated data; compared: values, labels, links, bytes, or the error class',
              'quick: 200 generated + corpus sample; thorough: 4000 generated + corpus + Table D sequences')
    plain_dec, plain_enc = Decoder(), Encoder()
    pool = []
    n = 200 if quick else 4000
    for k in range(n):
        m = G.gen_message(rng)
        pool.append(m)
        if rng.random() < 0.25:
            # a sibling: same top-level descriptors, different descriptor inside a replication
            ids = list(m['ids'])
            reps = [i for i, d in enumerate(ids) if 100000 <= d < 200000 and i + 2 < len(ids)]
            if reps:
                i = rng.choice(reps)
                j = i + (2 if ids[i] % 1000 == 0 else 1)
                if j < len(ids) and ids[j] < 100000 and ids[j] // 1000 != 31:
                    ids2 = list(ids)
                    ids2[j] = rng.choice([x for x in G.NUMERIC + G.CODES if x != ids[j]])
                    try:
                        vals, _ = G.gen_values(rng, ids2, R.load_tables(G.VERSION), m['nsub'], m['compressed'])
                        pool.append(dict(m, ids=ids2, values=vals, json=G.sections_json(m['edition'], ids2, vals, m['nsub'], m['compressed'], m['sec2'])))
                    except R.RefError:
                        pass
    # directed: marker operators under operator state that changes between two markers (the state recorded for a marker must
    # be complete), and strings resized by 208 addressed by a marker
    for _ in range(12 if quick else 120):
        e1, e2 = rng.sample([12101, 10004, 7001, 11001, 5001], 2)
        op = rng.choice([224, 223, 232, 225])
        mean = 8024 if op == 225 else 8023
        mod = rng.choice([[201129], [201132], [202129], [207001], [201126], [202127]])
        off = [mod[0] // 1000 * 1000]
        fam = rng.random()
        if fam < 0.5:
            ids = [e1, e2, op * 1000, 236000, 101002, 31031, mean] + mod + [op * 1000 + 255] + off + [op * 1000 + 255]
        elif fam < 0.75:
            ids = [e1, e2, op * 1000, 236000, 101002, 31031, mean, op * 1000 + 255] + mod + [op * 1000 + 255] + off
        else:
            op = rng.choice([224, 223, 232])
            ids = [rng.choice(G.STRINGS), e1, 208000 + rng.choice([2, 5]), op * 1000, 236000, 101002, 31031, 8023, op * 1000 + 255, op * 1000 + 255, 208000]
        for comp in (False, True):
            mm = G.forced_message(rng, ids, [((), (0, 0))] * rng.choice([1, 2]), compressed=comp)
            if mm is not None:
                mm['directed'] = True
                pool.append(mm)
    # directed: a bitmap definition (the template's first one, or a later one) INSIDE a replication that is executed 0..3 times: whatever the
    # compiler resolves once per template must hold on every repetition (bit counters, back references, markers)
    for _ in range(10 if quick else 100):
        e1, e2 = rng.sample([12101, 10004, 7001, 11001, 5001, 1001, 1002], 2)
        op = rng.choice([222, 224, 223, 225, 232])
        nb = rng.choice([1, 2])
        if op == 222:
            body = [e1, e2, 222000, 101000 + nb, 31031] + [33007] * 1 + [235000]
        else:
            mean = 8024 if op == 225 else 8023
            body = [e1, e2, op * 1000, 101000 + nb, 31031, mean, op * 1000 + 255, 235000]
        for reps in (2, 3, 1):
            ids = [100000 + len(body) * 1000 + reps] + body
            if rng.random() < 0.5:
                ids = [rng.choice(G.NUMERIC)] + ids + [rng.choice(G.CODES)]
            bits = tuple(0 for _ in range(nb * reps))
            for comp in (False, True):
                mm = None
                try:
                    mm = G.forced_message(rng, ids, [((), bits)] * rng.choice([1, 2]), compressed=comp)
                except R.RefError:
                    pass
                if mm is not None:
                    mm['directed'] = True
                    pool.append(mm)
        # the same body under a delayed replication
        ids = [100000 + len(body) * 1000, 31001] + body
        for cnt in (0, 2, 3):
            try:
                mm = G.forced_message(rng, ids, [((cnt,), tuple(0 for _ in range(nb * cnt)))], compressed=False)
            except R.RefError:
                mm = None
            if mm is not None:
                mm['directed'] = True
                pool.append(mm)
    datas = []
    for m in pool:
        try:
            datas.append((m, R.ref_encode(m['json'])[0]))
        except R.RefError:
            pass
    for size in (0, 1, 2, 50):
        cdec, cenc = Decoder(compiled_template_cache_max=size), Encoder(compiled_template_cache_max=size)
        order = list(range(len(datas)))
        rng.shuffle(order)
        if quick:
            # the directed families are always run; the generated pool is sampled
            order = [k for k in order if datas[k][0].get('directed')] + [k for k in order if not datas[k][0].get('directed')][:120]
            rng.shuffle(order)
        for k in order:
            m, data = datas[k]
            t.case('decode.cache%d' % size, msg_key(m), nontrivial=(size == 0), sample=msg_sample(m))
            a = outcome_of(lambda: decoded_triple(plain_dec.process(data)))
            b = outcome_of(lambda: decoded_triple(cdec.process(data)))
            if a[0] != b[0] or (a[0] == 'ok' and not all(triple_eq(x, y) for x, y in zip(a[1], b[1]))) or (a[0] == 'exc' and a[1] != b[1]):
                t.violation('C08', 'decoder with compiled templates (cache size %d, message order shuffled) differs from the plain decoder: %s vs %s'
                            % (size, summarize(b), summarize(a)), dict(msg_input(m), bytes=data.hex()), key='C08.decode|cache%d|' % min(size, 1) + keyof(m, 'diff'))
                continue
            t.case('encode.cache%d' % size, msg_key(m), nontrivial=False)
            a = outcome_of(lambda: plain_enc.process(json.loads(json.dumps(m['json'])), wire_template_data=False).serialized_bytes)
            b = outcome_of(lambda: cenc.process(json.loads(json.dumps(m['json'])), wire_template_data=False).serialized_bytes)
            if a != b:
                t.violation('C08', 'encoder with compiled templates (cache size %d) differs from the plain encoder: %s vs %s' % (
                    size, summarize(b), summarize(a)), msg_input(m), key='C08.encode|cache%d|' % min(size, 1) + keyof(m, 'diff'))
    # save / load
    for m, data in (datas[:100] if quick else datas):
        t.case('reload', msg_key(m), nontrivial=False)
        try:
            msg = plain_dec.process(data)
        except Exception:      # noqa
            continue
        template, table_group = msg.build_template(plain_dec.tables_root_dir, normalize=1)
        try:
            ct = TC.TemplateCompiler().process(template, table_group)
        except Exception as ex:      # noqa
            continue
        text = json.dumps(ct.to_dict())
        r = safe(lambda: TC.loads_compiled_template(text))
        if r[0] != 'ok':
            t.violation('C08', 'a compiled template written as JSON cannot be loaded back: %r' % (r[1],), msg_input(m), key='C08.reload.load')
            continue

        def run_with(ctemplate):
            rm = R.RefDecoder(data, fallback=False).decode(data_section=False)
            reader = get_bit_reader(data)
            reader.read_bin(rm.data_start_bit)
            state = CoderState(m['compressed'], m['nsub'])
            if m['compressed']:
                TC.process_compiled_template(plain_dec, state, reader, ctemplate)
            else:
                for i in range(m['nsub']):
                    state.switch_subset_context(i)
                    TC.process_compiled_template(plain_dec, state, reader, ctemplate)
            return [([str(d) for d in state.decoded_descriptors_all_subsets[i]], list(state.decoded_values_all_subsets[i]),
                     dict(state.bitmap_links_all_subsets[i])) for i in range(m['nsub'])]
        a = outcome_of(lambda: run_with(ct))
        b = outcome_of(lambda: run_with(r[1]))
        c = outcome_of(lambda: decoded_triple(msg))
        if a[0] == 'ok' and (b[0] != 'ok' or not all(triple_eq(x, y) for x, y in zip(a[1], b[1]))):
            t.violation('C08', 'a compiled template loaded back from JSON behaves differently from the original: %s vs %s' % (summarize(b), summarize(a)),
                        dict(msg_input(m), bytes=data.hex()), key='C08.reload|' + keyof(m, 'diff'))
        elif a[0] == 'ok' and c[0] == 'ok' and not all(triple_eq(x, y) for x, y in zip(a[1], c[1])):
            t.violation('C08', 'compiled template differs from the direct walk', msg_input(m), key='C08.reload.direct|' + keyof(m, 'diff'))
    files = corpus_files()
    if quick:
        files = files[::5]
    cdec = Decoder(compiled_template_cache_max=3)
    for f in files:
        data = read_first_message(f)
        if data is None:
            continue
        t.case('corpus', os.path.basename(f))
        a = outcome_of(lambda: decoded_triple(plain_dec.process(data)))
        b = outcome_of(lambda: decoded_triple(cdec.process(data)))
        if a[0] != b[0] or (a[0] == 'ok' and not all(triple_eq(x, y) for x, y in zip(a[1], b[1]))):
            t.violation('C08', 'compiled decoding of %s differs' % os.path.basename(f), {'file': f}, key='C08.corpus|' + os.path.basename(f))
    return t.result()


def summarize(o):
    if o[0] == 'exc':
        return 'raises %s' % o[1]
    v = o[1]
    if isinstance(v, bytes):
        return '%d bytes' % len(v)
    return 'values %s...' % (repr(v[0][1][:6]) if v else '[]')


# ---------------------------------------------------------------------------------------------- C09

def run_c09(job):
    from pybufrkit.encoder import Encoder
    from pybufrkit.decoder import Decoder
    from pybufrkit.renderer import FlatJsonRenderer, NestedJsonRenderer, FlatTextRenderer, NestedTextRenderer
    from pybufrkit import utils
    quick = job['tier'] == 'quick'
    rng = random.Random(job.get('seed', 0))
    t = Tally('C09', 'generated messages (attributes on elements and on replication factors, chained attributes, zero-count replications, strings '
              'with quotes / blanks / 8-bit characters / trailing " b", flag tables, bitmaps incl. 237255) and every sample file: flat text, nested '
              'text and nested JSON converted back with pybufrkit.utils must equal the flat JSON and encode to the same bytes; the hierarchical '
              'view must contain every flat index exactly once as member / factor / non-virtual attribute and equal the expected view. Templates '
              'using 221YYY are excluded from the nested-text part (known finding D-11).',
              'quick: 150 generated + corpus sample; thorough: 3000 generated + corpus')
    enc, dec = Encoder(), Decoder()
    fj, nj, ft, nt = FlatJsonRenderer(), NestedJsonRenderer(), FlatTextRenderer(), NestedTextRenderer()

    def check(msg, data, label, inp, has221):
        flat = json.loads(json.dumps(fj.render(msg), cls=_Enc))
        k = [i for i, s in enumerate(msg.sections) if any(p.type == 'template_data' for p in s)][0]
        conv = [('nested-json', lambda: utils.nested_json_to_flat_json(json.loads(json.dumps(nj.render(msg), cls=_Enc)))),
                ('flat-text', lambda: utils.flat_text_to_flat_json(ft.render(msg)))]
        conv.append(('nested-text', lambda: utils.nested_text_to_flat_json(nt.render(msg))))
        for name, f in conv:
            r = safe(f)
            if r[0] != 'ok' and name == 'nested-text' and has221:
                # value-less element lines written for 221YYY are taken for value lines (finding D-11)
                t.violation('C09', '%s: nested text of a template using 221YYY cannot be converted back: %r' % (label, r[1]), inp,
                            key='C09.nested-text.221')
                continue
            if r[0] != 'ok':
                t.violation('C09', '%s: %s rendering cannot be converted back: %r' % (label, name, r[1]), inp, observed=r[2], key='C09.convert.fail|%s|%s' % (name, type(r[1]).__name__))
                continue
            back = json.loads(json.dumps(r[1], cls=_Enc))
            if not flat_json_eq(back, flat):
                t.violation('C09', '%s: %s rendering converted back differs from the flat JSON: %s' % (label, name, first_flat_diff(back, flat)), inp,
                            key='C09.convert|%s' % name)
                continue
            e = safe(lambda: enc.process(back, wire_template_data=False).serialized_bytes)
            e0 = safe(lambda: enc.process(flat, wire_template_data=False).serialized_bytes)
            if e0[0] == 'ok' and (e[0] != 'ok' or e[1] != e0[1]):
                t.violation('C09', '%s: encoding from the %s format gives different bytes' % (label, name), inp, key='C09.bytes|%s' % name)
        # conservation: every flat index exactly once (non-virtual)
        td = td_of(msg)
        for i in range(td.n_subsets):
            counts = {}
            count_indices(td.decoded_nodes_all_subsets[i], counts, False)
            nvals = len(td.decoded_values_all_subsets[i])
            bad = [j for j in range(nvals) if counts.get(j, 0) != 1] + [j for j in counts if j >= nvals]
            if bad:
                t.violation('C09', '%s: subset %d: flat indices %r occur %r times in the hierarchical view (each value must occur exactly once)' % (
                    label, i, bad[:6], [counts.get(j, 0) for j in bad[:6]]), inp, key='C09.conservation')
                break

    for _ in range(150 if quick else 3000):
        m = G.gen_message(rng)
        t.case('generated', msg_key(m), sample=msg_sample(m))
        data, _ = R.ref_encode(m['json'])
        r = safe(dec.process, data)
        if r[0] != 'ok':
            r0 = safe(dec.process, data, '<s>', b'BUFR', False, False, False)
            if r0[0] == 'ok':
                t.violation('C09', 'the hierarchical view of a decodable message cannot be built: %r' % (r[1],), msg_input(m), observed=r[2],
                            key='C09.wire.fail|' + type(r[1]).__name__)
            continue
        check(r[1], data, 'generated', msg_input(m), any(d // 1000 == 221 for d in m['ids']))
        rm = R.RefDecoder(data, fallback=False).decode()
        nest = nested_of(r[1])
        for i in range(rm.n_subsets):
            dd = O.nested_diff(O.norm_real_nested(nest[i]), O.norm_ref_nested(rm.structures[i], rm.subsets[i]['values']))
            if dd:
                t.violation('C09', 'subset %d: hierarchical view differs from the expected one: %s' % (i, dd), msg_input(m), key='C09.view|' + keyof(m, 'nest'))
                break
    # directed: uncompressed messages of 2-3 subsets whose template leaves an operator in force at its end (open 204 / 221 / 222000 ...):
    # the hierarchical view of every subset is built from that subset alone
    for _ in range(60 if quick else 800):
        m = gen_c06_message(rng, rng.choice([2, 2, 3]))
        t.case('directed.multi-subset', msg_key(m) + (tuple(len(v) for v in m['values']),), sample=msg_sample(m))
        try:
            data, _ = R.ref_encode(m['json'])
        except R.RefError:
            continue
        r = safe(dec.process, data)
        if r[0] != 'ok':
            r0 = safe(dec.process, data, '<s>', b'BUFR', False, False, False)
            if r0[0] == 'ok':
                t.violation('C09', 'the hierarchical view of a decodable %d-subset message cannot be built: %r' % (m['nsub'], r[1]), msg_input(m),
                            observed=r[2], key='C09.wire.fail|' + type(r[1]).__name__)
            continue
        check(r[1], data, 'multi-subset', msg_input(m), any(d // 1000 == 221 for d in m['ids']))
        rm = R.RefDecoder(data, fallback=False).decode()
        nest = nested_of(r[1])
        for i in range(rm.n_subsets):
            dd = O.nested_diff(O.norm_real_nested(nest[i]), O.norm_ref_nested(rm.structures[i], rm.subsets[i]['values']))
            if dd:
                t.violation('C09', 'subset %d of %d: hierarchical view differs from the expected one: %s' % (i, rm.n_subsets, dd), msg_input(m),
                            key='C09.view.multi|' + keyof(m, 'nest'))
                break
    # directed: operators that occupy a flat slot and are followed by more elements (237255, 235000, 236000 ...)
    for _ in range(10 if quick else 100):
        e1, e2 = rng.sample([12101, 10004, 7001, 11001], 2)
        ids = [e1, e2, 222000, 236000, 101002, 31031, 33007, 33007, 224000, 237000, 8023, 224255, 224255, 237255, 8002, rng.choice(G.NUMERIC)]
        if rng.random() < 0.5:
            ids = [e1, e2, 224000, 236000, 101002, 31031, 8023, 224255, 224255, 237255, rng.choice(G.NUMERIC), 235000, rng.choice(G.CODES)]
        m = G.forced_message(rng, ids, [((), (0, 0))] * rng.choice([1, 2]), compressed=rng.random() < 0.5)
        if m is None:
            continue
        t.case('directed', msg_key(m), sample=msg_sample(m))
        data, _ = R.ref_encode(m['json'])
        r = safe(dec.process, data)
        if r[0] == 'ok':
            check(r[1], data, 'directed', msg_input(m), False)
    # directed string shapes
    for s in ("it's", 'say "hi"', 'part b', " b'x", 'x b', "b'", 'caf\xe9', '', '   ', "a'b\"c", 'OBS SITE 12 - part b'):
        for eid, nb in ((1015, 20), (1019, 32), (1011, 9)):
            v = (s + ' ' * nb)[:nb] if rng.random() < 0.5 else (s * 5)[:nb].ljust(nb)
            js = G.sections_json(4, [eid, 12001], [[v, 12.5], [None, None]], 2, False)
            t.case('strings', (s, eid))
            r = safe(lambda: dec.process(enc.process(js, wire_template_data=False).serialized_bytes))
            if r[0] == 'ok':
                check(r[1], None, 'string %r' % v, {'json': js}, False)
    files = corpus_files()
    if quick:
        files = files[::4]
    for f in files:
        data = read_first_message(f)
        if data is None:
            continue
        r = safe(dec.process, data)
        if r[0] != 'ok':
            continue
        t.case('corpus', os.path.basename(f))
        ids = r[1].unexpanded_descriptors.value
        flat_ids = []
        try:
            rm = R.RefDecoder(data).decode()
            has221 = any(lbl.startswith('221') for s in rm.subsets[:1] for lbl in flatten_labels(rm.structures[0]))
        except R.RefError:
            has221 = True
        check(r[1], data, os.path.basename(f), {'file': f}, has221)
    return t.result()


def flatten_labels(nodes):
    for n in nodes:
        if isinstance(n, list):
            for x in flatten_labels(n):
                yield x
            continue
        yield n.get('id') or ''
        for k in ('members',):
            if k in n:
                for x in flatten_labels(n[k]):
                    yield x


def count_indices(nodes, counts, virtual):
    for n in nodes:
        idx = getattr(n, 'index', None)
        if idx is not None and not virtual:
            counts[idx] = counts.get(idx, 0) + 1
        if hasattr(n, 'factor') and n.factor is not None:
            count_indices([n.factor], counts, False)
        if hasattr(n, 'members'):
            count_indices(n.members, counts, False)
        if hasattr(n, 'attributes'):
            for a in n.attributes:
                # an attribute that is also a member elsewhere (bitmapped values, meanings) is virtual here
                is_assoc = type(a).__name__ == 'AssociatedFieldNode'
                count_indices([a], counts, not is_assoc)


def flat_json_eq(a, b):
    if type(a) != type(b) and not (isinstance(a, (int, float)) and isinstance(b, (int, float))):
        if isinstance(a, (str, bytes)) and isinstance(b, (str, bytes)):
            return O.json_val_eq(a, b)
        return False
    if isinstance(a, list):
        return len(a) == len(b) and all(flat_json_eq(x, y) for x, y in zip(a, b))
    if isinstance(a, (int, float)) and not isinstance(a, bool):
        return abs(a - b) <= 1e-9 * max(1.0, abs(b))
    return a == b


def first_flat_diff(a, b, path='$'):
    if isinstance(a, list) and isinstance(b, list):
        if len(a) != len(b):
            return '%s: %d vs %d entries' % (path, len(a), len(b))
        for i, (x, y) in enumerate(zip(a, b)):
            if not flat_json_eq(x, y):
                return first_flat_diff(x, y, '%s[%d]' % (path, i))
    return '%s: %r vs %r' % (path, a, b)


# ---------------------------------------------------------------------------------------------- C10

def run_c10(job):
    from pybufrkit.encoder import Encoder
    from pybufrkit.decoder import Decoder
    from pybufrkit.errors import PyBufrKitError
    quick = job['tier'] == 'quick'
    rng = random.Random(job.get('seed', 0))
    t = Tally('C10', 'generated messages (both modes, 1-6 subsets) and sample files with several subsets x index collections: every list of '
              'length <= 3 over the subsets (order, repeats), single, full, first / last, sparse picks from files with many subsets, and out of '
              'range by one (-1, n, n+1): encode(subset) decodes to exactly the selected subsets in increasing index order, count = number of '
              'distinct indices, template / identification / compression flag unchanged, source message unchanged, out-of-range refused',
              'quick: 40 generated + 4 files; thorough: 600 generated + all multi-subset files')
    enc, dec = Encoder(), Decoder()

    def check(msg_bytes, label, inp):
        src = dec.process(msg_bytes)
        n = src.n_subsets.value
        before = decoded_triple(src)
        meta_before = [(p.name, p.value) for s in src.sections for p in s if p.type != 'template_data' and p.name not in ('n_subsets', 'section_length', 'length')]
        cands = []
        rng_idx = list(range(n))
        for L in (1, 2, 3):
            if n ** L <= 40:
                cands += [list(c) for c in itertools.product(rng_idx, repeat=L)]
            else:
                cands += [[rng.randrange(n) for _ in range(L)] for _ in range(12)]
        cands += [rng_idx, rng_idx[::-1], [0], [n - 1], [n - 1, 0]]
        if n > 8:
            cands += [sorted(rng.sample(rng_idx, 2)), sorted(rng.sample(rng_idx, 3), reverse=True), [1, 8], [n - 1, 3], rng.sample(rng_idx, min(5, n))]
        seen = set()
        for idx in cands:
            if tuple(idx) in seen:
                continue
            seen.add(tuple(idx))
            t.case('select', (label, tuple(idx)), sample={'message': label, 'indices': idx})
            exp_idx = sorted(set(idx))
            r = safe(lambda: dec.process(enc.process(src.subset(idx), wire_template_data=False).serialized_bytes))
            if r[0] != 'ok':
                t.violation('C10', '%s: subset(%r) of %d subsets cannot be encoded and decoded: %r' % (label, idx, n, r[1]), dict(inp, indices=idx),
                            observed=r[2], key='C10.fail|%s' % ('repeat' if len(set(idx)) < len(idx) else 'norepeat'))
                continue
            out = r[1]
            got = decoded_triple(out)
            if out.n_subsets.value != len(exp_idx) or len(got) != len(exp_idx):
                t.violation('C10', '%s: subset(%r) declares %d subsets, %d distinct indices selected' % (label, idx, out.n_subsets.value, len(exp_idx)),
                            dict(inp, indices=idx), key='C10.count')
                continue
            for pos, k in enumerate(exp_idx):
                if not triple_eq(got[pos], before[k]):
                    t.violation('C10', '%s: subset(%r): output subset %d is not source subset %d' % (label, idx, pos, k), dict(inp, indices=idx),
                                key='C10.order|%s' % ('sorted' if idx == sorted(idx) else 'unsorted'))
                    break
            meta_after = [(p.name, p.value) for s in out.sections for p in s if p.type != 'template_data' and p.name not in ('n_subsets', 'section_length', 'length')]
            if meta_after != meta_before:
                t.violation('C10', '%s: subset(%r) changes template / identification / flags' % (label, idx), dict(inp, indices=idx), key='C10.meta')
            if not all(triple_eq(a, b) for a, b in zip(decoded_triple(src), before)):
                t.violation('C10', '%s: subset(%r) modifies the source message' % (label, idx), dict(inp, indices=idx), key='C10.source')
        for bad in ([-1], [n], [0, n], [n, n - 1], [n + 1], [0, -1]):
            t.case('refuse', (label, tuple(bad)))
            r = safe(lambda: src.subset(bad))
            if r[0] == 'ok' or not isinstance(r[1], PyBufrKitError):
                t.violation('C10', '%s: index list %r (n = %d) is not refused with the library error: %r' % (label, bad, n, r[1] if r[0] != 'ok' else 'accepted'),
                            dict(inp, indices=bad), key='C10.refuse|%s' % ('n' if n in bad else ('neg' if min(bad) < 0 else 'n+1')))

    for _ in range(40 if quick else 600):
        m = G.gen_message(rng, nsub=rng.choice([1, 2, 3, 4, 6]))
        data, _ = R.ref_encode(m['json'])
        if safe(dec.process, data)[0] != 'ok':
            continue
        check(data, 'generated', msg_input(m))
    multi = []
    for f in corpus_files():
        data = read_first_message(f)
        if data is None:
            continue
        r = safe(dec.process, data)
        if r[0] == 'ok' and r[1].n_subsets.value >= 2 and safe(lambda: enc.process(r[1].subset([0]), wire_template_data=False))[0] == 'ok':
            multi.append((f, data))
    if quick:
        # the files with the most subsets (sparse selections need room) plus a spread of the others
        multi.sort(key=lambda fd: -dec.process(fd[1]).n_subsets.value)
        multi = multi[:2] + multi[2::max(1, len(multi) // 3)][:2]
    for f, data in multi:
        check(data, os.path.basename(f), {'file': f})
    return t.result()


# ---------------------------------------------------------------------------------------------- C12

def run_c12(job):
    from pybufrkit.decoder import Decoder, generate_bufr_message
    from pybufrkit.errors import PyBufrKitError
    import subprocess
    import tempfile
    quick = job['tier'] == 'quick'
    rng = random.Random(job.get('seed', 0))
    t = Tally('C12', 'A: every truncation point (every proper prefix, byte granularity) of generated and sample messages must fail to decode, '
              'with the library error type; bytes appended after a message never change its decoding; B: streams of 2-3 messages, every '
              'non-empty subset of messages damaged by {stop signature overwritten, undefined element / sequence substituted in section 3, '
              'section length of section 1 / 3 / 4 decreased or increased by 1..4 (total length intact)}: with continue_on_error the damaged '
              'messages are skipped and all others delivered unchanged in order; without it the earlier messages are delivered and then a '
              'PyBufrKitError surfaces; info-only scanning for damage inside sections 0-3; C: the command line reports the error without a traceback',
              'quick: 25 messages x all prefixes, 60 streams; thorough: 300 messages, 1500 streams')
    dec = Decoder()
    msgs = []
    for _ in range(25 if quick else 300):
        m = G.gen_message(rng)
        data, _ = R.ref_encode(m['json'])
        if safe(dec.process, data)[0] == 'ok':
            msgs.append((m, data))
    files = corpus_files()
    for f in (files[::12] if quick else files[::3]):
        data = read_first_message(f)
        if data is not None and safe(dec.process, data)[0] == 'ok' and len(data) < 6000:
            rm = safe(lambda: R.RefDecoder(data).decode(data_section=False))
            if rm[0] == 'ok' and rm[1].total_bytes == len(data):
                msgs.append((dict(ids=[os.path.basename(f)], edition=0, compressed=False, nsub=0, values=[[]], json=None), data))
    for m, data in msgs:
        good = decoded_triple(dec.process(data))
        step = 1 if len(data) < 400 or not quick else 7
        for cut in range(0, len(data), step):
            t.case('A.truncation', (msg_key(m), cut), nontrivial=True)
            r = safe(dec.process, data[:cut])
            if r[0] == 'ok':
                t.violation('C12', 'a proper prefix (%d of %d bytes) decodes successfully' % (cut, len(data)), {'bytes': data[:cut].hex()}, key='C12.prefix.ok')
                break
            if not isinstance(r[1], PyBufrKitError):
                t.violation('C12', 'truncation at byte %d of %d raises %s instead of the library error' % (cut, len(data), type(r[1]).__name__),
                            {'bytes': data[:cut].hex()}, observed=r[2], key='C12.prefix.exc|%s|%s' % (type(r[1]).__name__, 'early' if cut < 8 else 'late'))
                break
        for tail in (b'\x00', b'BUFR', b'7777', bytes(rng.getrandbits(8) for _ in range(9))):
            t.case('A.trailing', (msg_key(m), tail))
            r = safe(dec.process, data + tail)
            if r[0] != 'ok' or not all(triple_eq(a, b) for a, b in zip(decoded_triple(r[1]), good)) or r[1].serialized_bytes != data:
                t.violation('C12', 'bytes following a message influence its decoding', {'bytes': (data + tail).hex()}, key='C12.trailing')
    # B: streams
    small = [(m, d) for m, d in msgs if m['json'] is not None]
    kinds = ['stop', 'undef-elem', 'undef-seq', 'len1-', 'len1+', 'len3-', 'len3+', 'len4-', 'len4+']
    for _ in range(60 if quick else 1500):
        k = rng.choice([2, 3])
        chosen = [rng.choice(small) for _ in range(k)]
        seps = [rng.choice([b'', b'\r\r\n', b'ZCZC 001\r\r\nISMD01 OKPR 010000\r\r\n', b'BUF', b'\x00\x01']) for _ in range(k + 1)]
        dmg_set = [i for i in range(k) if rng.random() < 0.5] or [rng.randrange(k)]
        kind = rng.choice(kinds)
        parts = []
        detectable_info = kind.startswith('len1') or kind.startswith('len3')
        for i, (m, d) in enumerate(chosen):
            parts.append(damage(d, kind, rng) if i in dmg_set else d)
        if any(p is None for p in parts):
            continue
        # a damaged message must itself fail to decode, otherwise the damage is not a fault (e.g. surplus octets are legal)
        if any(safe(dec.process, parts[i])[0] == 'ok' for i in dmg_set):
            continue
        stream = b''.join(s + p for s, p in zip(seps, parts)) + seps[-1]
        expected = [chosen[i][1] for i in range(k) if i not in dmg_set]
        t.case('B.stream', (kind, tuple(dmg_set), k), sample={'damage': kind, 'damaged': dmg_set, 'messages': k})
        # the same stream through a decoder object that has a history of every public decoding mode (lenient, metadata-only, a failed decode):
        # damage must be detected by ANY decoder object, not only by a new one
        used = Decoder()
        safe(used.process, chosen[0][1], '<s>', b'BUFR', False, True)
        safe(used.process, chosen[0][1], '<s>', b'BUFR', True, False)
        safe(used.process, chosen[0][1][: len(chosen[0][1]) // 2])
        r = safe(lambda: [mm.serialized_bytes for mm in generate_bufr_message(used, stream, continue_on_error=True)])
        t.case('B.stream.used-decoder', (kind, tuple(dmg_set), k))
        if r[0] != 'ok' or r[1] != expected:
            t.violation('C12', 'continue_on_error through a decoder used before in lenient / metadata-only mode: %s damage in message(s) %r of %d: %s, '
                        'expected the %d undamaged ones unchanged' % (kind, dmg_set, k, ('delivered %d messages' % len(r[1])) if r[0] == 'ok' else type(r[1]).__name__,
                                                                      len(expected)), {'stream': stream.hex()}, key='C12.stream.used-decoder|%s' % kind.rstrip('+-'))
        r = safe(lambda: [mm.serialized_bytes for mm in generate_bufr_message(Decoder(), stream, continue_on_error=True)])
        if r[0] != 'ok':
            t.violation('C12', 'continue_on_error: %s damage in message(s) %r of %d aborts the stream with %s' % (kind, dmg_set, k, type(r[1]).__name__),
                        {'stream': stream.hex()}, observed=r[2], key='C12.stream.abort|%s|%s' % (kind.rstrip('+-'), type(r[1]).__name__))
        elif r[1] != expected:
            t.violation('C12', 'continue_on_error: %s damage in message(s) %r of %d: delivered %d messages, expected the %d undamaged ones unchanged' % (
                kind, dmg_set, k, len(r[1]), len(expected)), {'stream': stream.hex()}, key='C12.stream.deliver|%s' % kind.rstrip('+-'))
        # without continue_on_error: earlier messages delivered, then the library error
        got = []
        err = None
        try:
            for mm in generate_bufr_message(Decoder(), stream, continue_on_error=False):
                got.append(mm.serialized_bytes)
        except Exception as ex:      # noqa
            err = ex
        first = min(dmg_set)
        if got != [chosen[i][1] for i in range(first)] or not isinstance(err, PyBufrKitError):
            t.violation('C12', 'without continue_on_error: %s damage in message %d: delivered %d messages then %r (expected %d then the library error)' % (
                kind, first, len(got), err, first), {'stream': stream.hex()}, key='C12.stream.strict|%s|%s' % (kind.rstrip('+-'), type(err).__name__))
        if detectable_info:
            r = safe(lambda: [mm.serialized_bytes for mm in generate_bufr_message(Decoder(), stream, info_only=True, continue_on_error=True)])
            t.case('B.stream.info', (kind, tuple(dmg_set), k))
            if r[0] != 'ok':
                t.violation('C12', 'info-only, continue_on_error: %s damage aborts the stream with %s' % (kind, type(r[1]).__name__), {'stream': stream.hex()},
                            key='C12.stream.info.abort|%s' % kind.rstrip('+-'))
    # C: command line
    if small:
        m, d = small[0]
        bad = damage(d, 'stop', rng)
        with tempfile.NamedTemporaryFile(suffix='.bufr', delete=False) as fh:
            fh.write(bad)
            path = fh.name
        try:
            env = dict(os.environ, PYTHONPATH=REPO)
            p = subprocess.run(['/venv/bin/python', '-m', 'pybufrkit', 'decode', path], capture_output=True, text=True, env=env, timeout=120, cwd=REPO)
            t.case('C.cli', 'stop')
            if 'Traceback' in p.stderr or 'Traceback' in p.stdout:
                t.violation('C12', 'the command line reports a damaged message with a traceback', {'bytes': bad.hex()}, observed=p.stderr[-600:], key='C12.cli.traceback')
            bad2 = d[:len(d) // 2]
            with open(path, 'wb') as fh2:
                fh2.write(bad2)
            p = subprocess.run(['/venv/bin/python', '-m', 'pybufrkit', 'decode', path], capture_output=True, text=True, env=env, timeout=120, cwd=REPO)
            t.case('C.cli', 'truncated')
            if 'Traceback' in p.stderr or 'Traceback' in p.stdout:
                t.violation('C12', 'the command line reports a truncated message with a traceback', {'bytes': bad2.hex()}, observed=p.stderr[-600:], key='C12.cli.traceback.trunc')
        finally:
            os.unlink(path)
    return t.result()


def damage(data, kind, rng):
    """damage a message keeping its total length; None when the kind does not apply"""
    rm = R.RefDecoder(data, fallback=False).decode(data_section=False)
    b = bytearray(data)
    if kind == 'stop':
        b[-4:] = rng.choice([b'7778', b'777\x00', b'XXXX'])
        return bytes(b)
    if kind in ('undef-elem', 'undef-seq'):
        s3, ln3 = rm.extents[3]
        nd = (ln3 - 7) // 2
        if nd < 1:
            return None
        k = rng.randrange(nd)
        did = 63250 if kind == 'undef-elem' else 363250
        b[s3 + 7 + 2 * k] = ((did // 100000) << 6) | ((did // 1000) % 100)
        b[s3 + 7 + 2 * k + 1] = did % 1000
        return bytes(b)
    idx = int(kind[3])
    delta = rng.randint(1, 4) * (1 if kind.endswith('+') else -1)
    if idx not in rm.extents:
        return None
    start, ln = rm.extents[idx]
    if ln + delta < 4:
        return None
    b[start:start + 3] = (ln + delta).to_bytes(3, 'big')
    return bytes(b)


RUN = {'C04': run_c04, 'C06': run_c06, 'C07': run_c07, 'C08': run_c08, 'C09': run_c09, 'C10': run_c10, 'C12': run_c12}


def run(job):
    return RUN[job['property']](job)


if __name__ == '__main__':
    io_main(run)
