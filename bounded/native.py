"""Run-time evaluation of the sidecar contracts on the real code (CPython, /venv/bin/python).

The same contract strings that PyVC turns into SMT obligations are evaluated natively here:
 * replay of solver counterexamples on the real functions (bounded/replay.py),
 * the bounded stand-in layer (contracts as run-time monitors over enumerated inputs).

`old(e)` sub-expressions are evaluated before the call on deep snapshots; `implies`, `ite`,
`forall`, `exists` are rewritten to lazy Python.  Spec functions come from /verif/spec; the bit
stream abstraction functions are overridden so they work on real bitstring objects.
"""
import ast
import copy


class Unspecified(Exception):
    """The expression has no defined value for this input (e.g. bits beyond the stream)."""


def pow2(n):
    return 2 ** n


class Bits(object):
    """Immutable snapshot of a bit stream as a '01' string."""

    def __init__(self, s):
        self.s = s

    def __eq__(self, other):
        return isinstance(other, Bits) and self.s == other.s


def _bits_of(stream):
    return Bits(stream.bin)


def rpos(r):
    return r.bit_stream.pos


def rlen(r):
    return r.bit_stream.len


def rbits(r):
    return _bits_of(r.bit_stream)


def wlen(w):
    return w.bit_stream.len


def wbits(w):
    return _bits_of(w.bit_stream)


def U(bits, p, n):
    if n <= 0 or p < 0 or p + n > len(bits.s):
        raise Unspecified('U outside the stream')
    return int(bits.s[p:p + n], 2)


def Bst(bits, p, n):
    if n < 0 or p < 0 or p + 8 * n > len(bits.s):
        raise Unspecified('Bst outside the stream')
    return bytes(int(bits.s[p + 8 * i: p + 8 * i + 8], 2) for i in range(n))


def Bin(bits, p, n):
    if n < 0 or p < 0 or p + n > len(bits.s):
        raise Unspecified('Bin outside the stream')
    return bits.s[p:p + n]


def prefix_same(b2, b1, upto):
    return b2.s[:upto] == b1.s[:upto]


def outside_same(b2, b1, lo, hi):
    return b2.s[:lo] == b1.s[:lo] and b2.s[hi:] == b1.s[hi:]


def _chars(x):
    return x.decode('latin-1') if isinstance(x, bytes) else x


def chars_eq(a, b):
    return _chars(a) == _chars(b)


def substr(s, a, n):
    if n <= 0 or a < 0 or a >= len(s):
        return s[:0]
    return s[a:a + n]


def allspaces(s):
    return all(c == ' ' for c in _chars(s))


def allchar(s, c):
    return all(x == c for x in _chars(s))


def is_binstr(s):
    return isinstance(s, str) and all(c in '01' for c in s)


def is_none(x):
    return x is None


def is_int(x):
    return isinstance(x, int) and not isinstance(x, bool)


def is_bool(x):
    return isinstance(x, bool)


def is_flt(x):
    return isinstance(x, float)


def is_byt(x):
    return isinstance(x, bytes)


def is_txt(x):
    return isinstance(x, str)


def ident(x):
    return x


def typeis(x, name):
    return type(x).__name__ == name


def isinst(x, name):
    return any(c.__name__ == name for c in type(x).__mro__)


def str_prefixof(a, b):
    return _chars(b).startswith(_chars(a))


def str_suffixof(a, b):
    return _chars(b).endswith(_chars(a))


def str_contains(a, b):
    return _chars(b) in _chars(a)


def str_indexof(a, b, i):
    return _chars(a).find(_chars(b), i)


def str_at(s, i):
    return s[i:i + 1] if 0 <= i < len(s) else s[:0]


def isintlit(s):
    try:
        int(s)
        return True
    except ValueError:
        return False


def intlit(s):
    return int(s)


def int2str(n):
    return str(n)


def zpad(n, w):
    return '{:0{w}d}'.format(n, w=w)


def allws(s):
    return all(c in ' \t\n\r\x0b\x0c' for c in s)


def pystrip(s):
    return s.strip()


def isdigits(s):
    return len(s) > 0 and all(c in '0123456789' for c in s)


def str2int(s):
    return int(s) if isdigits(s) else -1


BASE_NS = dict(
    pow2=pow2, pow10=lambda n: 10 ** n, rpos=rpos, rlen=rlen, rbits=rbits, wlen=wlen, wbits=wbits, U=U, Bst=Bst, Bin=Bin,
    prefix_same=prefix_same, outside_same=outside_same, chars_eq=chars_eq, substr=substr, allspaces=allspaces,
    allchar=allchar, is_binstr=is_binstr, is_none=is_none, is_int=is_int, is_bool=is_bool, is_flt=is_flt,
    is_byt=is_byt, is_txt=is_txt, ival=ident, bval=ident, tval=ident, fval=ident, oval=ident, typeis=typeis,
    isinst=isinst, str_prefixof=str_prefixof, str_suffixof=str_suffixof, str_contains=str_contains,
    str_indexof=str_indexof, str_at=str_at, strlen=len, isintlit=isintlit, intlit=intlit, int2str=int2str,
    zpad=zpad, isdigits=isdigits, str2int=str2int, allws=allws, wsonly=allws, pystrip=pystrip, fresh=lambda x: True, isfresh=lambda x: True,
    Eq=lambda a, b: a == b, vnone=lambda: None, vint=ident, val_eq=lambda a, b: a == b and type(a) is type(b),
    joined=lambda l: ''.join(l), sumof=sum, haskey=lambda d, k: k in d, dsize=len, select=lambda l, i: l[i],
    abs=abs, len=len, min=min, max=max, int=int, str=str, bool=bool, isinstance=isinstance, type=type,
    True_=True,
)


class Rewrite(ast.NodeTransformer):
    """old(e) -> __old[k];  implies / ite / forall / exists -> lazy Python."""

    def __init__(self):
        self.olds = []

    def visit_Call(self, node):
        if isinstance(node.func, ast.Name):
            n = node.func.id
            if n == 'old':
                k = len(self.olds)
                self.olds.append(node.args[0])
                return ast.Subscript(value=ast.Name(id='__old', ctx=ast.Load()), slice=ast.Constant(value=k), ctx=ast.Load())
            if n == 'implies':
                a, b = [self.visit(x) for x in node.args]
                return ast.BoolOp(op=ast.Or(), values=[ast.UnaryOp(op=ast.Not(), operand=a), b])
            if n == 'ite':
                c, a, b = [self.visit(x) for x in node.args]
                return ast.IfExp(test=c, body=a, orelse=b)
            if n in ('forall', 'exists'):
                var = node.args[0].id
                lo, hi, body = [self.visit(x) for x in node.args[1:]]
                gen = ast.GeneratorExp(
                    elt=body,
                    generators=[ast.comprehension(target=ast.Name(id=var, ctx=ast.Store()),
                                                  iter=ast.Call(func=ast.Name(id='range', ctx=ast.Load()), args=[lo, hi], keywords=[]),
                                                  ifs=[], is_async=0)])
                return ast.Call(func=ast.Name(id='all' if n == 'forall' else 'any', ctx=ast.Load()), args=[gen], keywords=[])
        self.generic_visit(node)
        return node


def compile_expr(src):
    tree = ast.parse(src.strip(), mode='eval')
    rw = Rewrite()
    body = rw.visit(tree.body)
    expr = ast.Expression(body=body)
    ast.fix_missing_locations(expr)
    code = compile(expr, '<contract>', 'eval')
    olds = []
    for o in rw.olds:
        e = ast.Expression(body=o)
        ast.fix_missing_locations(e)
        olds.append(compile(e, '<old>', 'eval'))
    return code, olds


def snapshot(v):
    try:
        return copy.deepcopy(v)
    except Exception:
        return v


class Outcome(object):
    def __init__(self):
        self.ok = True
        self.failures = []      # (clause kind, clause text, detail)
        self.skipped = False    # precondition not met
        self.result = None
        self.exception = None


class NativeContract(object):
    def __init__(self, cj, extra_ns=None, exc_mro=None):
        self.cj = cj
        self.ns = dict(BASE_NS)
        self.ns['all'] = all
        self.ns['any'] = any
        self.ns['range'] = range
        if extra_ns:
            self.ns.update(extra_ns)
        self.requires = [(r, compile_expr(r)) for r in cj.get('requires', [])]
        self.ensures = [(e, compile_expr(e)) for e in cj.get('ensures', [])]
        self.cases = [(n, compile_expr(w), [(e, compile_expr(e)) for e in es]) for n, w, es in cj.get('cases', [])]
        self.raises = {k: (compile_expr(v) if v else None) for k, v in (cj.get('raises') or {}).items()}
        self.must_raise = [(k, compile_expr(v)) for k, v in cj.get('must_raise', [])]
        self.exc_ensures = {k: [(e, compile_expr(e)) for e in es] for k, es in (cj.get('exc_ensures') or {}).items()}

    def _eval(self, compiled, env, olds=None):
        code, _ = compiled
        ns = dict(self.ns)
        ns.update(env)
        ns['__old'] = olds or {}
        return eval(code, ns)

    def _olds(self, compiled, env):
        _, old_codes = compiled
        ns = dict(self.ns)
        ns.update(env)
        out = {}
        for k, c in enumerate(old_codes):
            try:
                out[k] = snapshot(eval(c, ns))
            except Exception as ex:      # noqa
                out[k] = ex
        return out

    @staticmethod
    def exc_names(ex):
        names = []
        for c in type(ex).__mro__:
            names.append(c.__name__)
            if c.__module__.startswith('bitstring'):
                names.append('bitstring.' + c.__name__)
        return names

    def check(self, func, env, call):
        """env: parameter name -> value (incl. self); call(): performs the real call. Returns Outcome."""
        out = Outcome()
        for text, comp in self.requires:
            try:
                if not self._eval(comp, env):
                    out.skipped = True
                    return out
            except Exception:
                out.skipped = True
                return out
        # snapshots for old()
        clauses = list(self.ensures)
        for n, w, es in self.cases:
            clauses += es
        for k, es in self.exc_ensures.items():
            clauses += es
        olds = {id(comp): self._olds(comp, env) for _, comp in clauses}
        pre_env = {k: snapshot(v) if not hasattr(v, '__dict__') else v for k, v in env.items()}
        case_on = []
        for n, w, es in self.cases:
            try:
                case_on.append(bool(self._eval(w, env)))
            except Exception:
                case_on.append(False)
        must = []
        for k, comp in self.must_raise:
            try:
                must.append((k, bool(self._eval(comp, env))))
            except Exception:
                must.append((k, False))
        rcond = {}
        for k, comp in self.raises.items():
            try:
                rcond[k] = True if comp is None else bool(self._eval(comp, env))
            except Exception:
                rcond[k] = True
        try:
            res = call()
        except Exception as ex:      # noqa: real code raised
            out.exception = ex
            names = self.exc_names(ex)
            allowed = [k for k in list(self.raises) + [m[0] for m in self.must_raise] if k in names]
            if not allowed:
                out.ok = False
                out.failures.append(('raises', 'unexpected', '%s escapes: %r' % (type(ex).__name__, ex)))
            else:
                conds = [rcond.get(k, True) for k in allowed if k in rcond] + \
                        [c for k, c in must if k in allowed]
                if conds and not any(conds):
                    out.ok = False
                    out.failures.append(('raises', 'cond', '%s escapes outside its stated condition' % type(ex).__name__))
            for k, c in must:
                if c and k not in names:
                    out.ok = False
                    out.failures.append(('raises', 'must', 'expected %s, got %s' % (k, type(ex).__name__)))
            for k, es in self.exc_ensures.items():
                if k in names:
                    for text, comp in es:
                        self._clause(out, 'post.exc', text, comp, env, olds, None)
            return out
        out.result = res
        for k, c in must:
            if c:
                out.ok = False
                out.failures.append(('raises', 'must', 'returned normally although %s was demanded' % k))
        env2 = dict(env)
        env2['result'] = res
        for text, comp in self.ensures:
            self._clause(out, 'post', text, comp, env2, olds, res)
        for (n, w, es), on in zip(self.cases, case_on):
            if on:
                for text, comp in es:
                    self._clause(out, 'post.' + n, text, comp, env2, olds, res)
        return out

    def _clause(self, out, kind, text, comp, env, olds, res):
        try:
            v = self._eval(comp, env, olds.get(id(comp)))
        except Unspecified:
            return
        except Exception as ex:      # noqa
            out.ok = False
            out.failures.append((kind, text, 'evaluation error: %r' % (ex,)))
            return
        if not v:
            out.ok = False
            out.failures.append((kind, text, 'false'))
