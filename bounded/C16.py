"""C16 bounded layer: DataQuerent against an evaluator of child / attribute paths over the nested JSON rendering."""
import json
import os
import random

from bounded.common import Tally, io_main
from bounded.codec import safe, msg_key, msg_sample, msg_input, corpus_files, read_first_message, keyof
from bounded.codec2 import nested_of
from bounded import refcodec as R, gen as G, oracle as O


class NoValue(Exception):
    pass


def is_rep(node):
    return 'members' in node and node['id'].startswith('1')


def select(matched, slc):
    """the slice picks among the matches; the selected ones are kept in document order"""
    if isinstance(slc, int):
        return [matched[slc]] if slc < len(matched) else []
    picked = set(range(len(matched))[slc])
    return [m for i, m in enumerate(matched) if i in picked]


def leaf_value(node):
    if 'value' not in node:
        raise NoValue(node['id'])
    return node['value']


def proceed(nodes, comps):
    """nodes matched by comps[0]; continue with the remaining components (document order, flat concatenation)"""
    if len(comps) == 1:
        return [leaf_value(n) for n in nodes]
    out = []
    for n in nodes:
        out += eval_step(n, comps[1:])
    return out


def eval_step(node, comps):
    sep, ident, slc = comps[0]
    if sep == '/':
        if 'members' not in node:
            raise NoValue('no children: ' + node['id'])
        if is_rep(node):
            reps = node['members']
            if not reps:
                return []
            first = reps[0]
            idxs = select([i for i, m in enumerate(first) if m['id'] == ident], slc)
            if not idxs:
                return []
            env = []
            for rep in reps:
                r = proceed([rep[i] for i in idxs], comps)
                if r:
                    env.append(r)
            return [env] if env else []
        matched = select([m for m in node['members'] if m['id'] == ident], slc)
        return proceed(matched, comps) if matched else []
    if sep == '.':
        if 'attributes' not in node and 'factor' not in node:
            raise NoValue('no attributes: ' + node['id'])
        cands = []
        if 'factor' in node:
            cands += select([m for m in [node['factor']] if m['id'] == ident], slc)
        if 'attributes' in node:
            cands += select([m for m in node['attributes'] if m['id'] == ident], slc)
        return proceed(cands, comps) if cands else []
    raise ValueError('separator %r not evaluated by the oracle' % sep)


def eval_path(subset_nodes, comps):
    root = {'id': 'TEMPLATE', 'members': subset_nodes}
    return eval_step(root, comps)


def enum_paths(nodes, rng, prefix, depth, out, limit):
    """existing child / attribute paths through the structure (as component lists without slices)"""
    if depth > 6 or len(out) >= limit:
        return
    seen = set()
    for n in nodes:
        if isinstance(n, list):
            continue
        if n['id'] in seen:
            continue
        seen.add(n['id'])
        p = prefix + [('/', n['id'])]
        out.append(p)
        if 'members' in n:
            kids = n['members'][0] if (is_rep(n) and n['members']) else (n['members'] if not is_rep(n) else [])
            enum_paths(kids, rng, p, depth + 1, out, limit)
        for a in ([n['factor']] if 'factor' in n else []) + n.get('attributes', []):
            pa = p + [('.', a['id'])]
            out.append(pa)
            for b in a.get('attributes', []):
                out.append(pa + [('.', b['id'])])


SLICES = [None, 0, 1, -1, -2, slice(None, None, None), slice(1, None, None), slice(None, None, 2), slice(None, None, -1), slice(0, 1, None),
          slice(-2, None, None), slice(None, 1, None), 5]


def slice_text(s):
    if s is None:
        return ''
    if isinstance(s, int):
        return '[%d]' % s
    return '[%s:%s:%s]' % ('' if s.start is None else s.start, '' if s.stop is None else s.stop, '' if s.step is None else s.step)


def slice_sem(s):
    """the slice object the grammar assigns (C15)"""
    if s is None:
        return slice(None, None, None)
    if isinstance(s, int) and s < 0:
        return slice(s, s + 1 if s != -1 else None, None)
    return s


def values_eq(a, b):
    if isinstance(a, list) or isinstance(b, list):
        return isinstance(a, list) and isinstance(b, list) and len(a) == len(b) and all(values_eq(x, y) for x, y in zip(a, b))
    return O.json_val_eq(a, b)


def run(job):
    from pybufrkit.decoder import Decoder
    from pybufrkit.dataquery import DataQuerent, NodePathParser
    from pybufrkit.errors import QueryError, PyBufrKitError
    quick = job['tier'] == 'quick'
    rng = random.Random(job.get('seed', 0))
    t = Tally('C16', 'generated messages (C01 / C07 fragments, both modes, 1-4 subsets) and sample files x every child / attribute path that exists '
              'in their structure (depth <= 6, through sequences, fixed / delayed replications incl. zero counts, factors, associated / marker / '
              'quality attributes) x slices {none, k, -k, a:b:c incl. negative steps} at one or two steps x subset selectors: query == evaluation '
              'of the path over the nested JSON rendering (one envelope per replication, one list per repetition, document order); bare IDs of '
              'ordinary elements == flat values carrying the ID; selector == exactly the selected subsets; compressed == uncompressed; compiled == '
              'direct; one querent reused across messages', 'quick: 60 messages x <= 40 paths; thorough: 1200 messages x <= 150 paths + 60 files')
    dec = Decoder()
    cdec = Decoder(compiled_template_cache_max=20)
    shared = DataQuerent(NodePathParser())
    msgs = []
    for _ in range(60 if quick else 1200):
        m = G.gen_message(rng, edition=4)
        try:
            data, _ = R.ref_encode(m['json'])
        except R.RefError:
            continue
        msgs.append((m, data, msg_input(m)))
        if rng.random() < 0.3 and m['compressed']:
            # the same template with other replication counts (a second message for the shared querent)
            try:
                vals, _ = G.gen_values(rng, m['ids'], R.load_tables(G.VERSION), m['nsub'], True)
                m2 = dict(m, values=vals, json=G.sections_json(4, m['ids'], vals, m['nsub'], True, m['sec2']))
                msgs.append((m2, R.ref_encode(m2['json'])[0], msg_input(m2)))
            except R.RefError:
                pass
    # directed family: nested delayed replications whose inner count differs between the outer repetitions, zero in the FIRST one and
    # not later (and the other way round): every repetition must be searched, whatever the first one holds
    directed = 0
    nested_ids = [[1001, 104000, 31001, 1002, 101000, 31001, 12001, 2001],
                  [104000, 31001, 102000, 31001, 12001, 12002, 1001],
                  [104003, 1001, 101000, 31001, 12001],
                  [106000, 31001, 1001, 103000, 31001, 101000, 31001, 12001, 2001]]
    for ids in nested_ids:
        for pattern in ([2, 0, 2], [3, 0, 0, 1], [3, 0, 1, 2], [2, 2, 0], [2, 1, 1], [1, 0], [2, 0, 0]):
            if ids[0] == 104003:
                fac = (pattern[1:] + [1, 2, 0])[:3]
            elif ids[0] == 106000:
                # outer count, then per outer repetition: middle count, then per middle repetition an inner count
                fac = [pattern[0]]
                for c in pattern[1:pattern[0] + 1]:
                    fac += [c] + [(0 if j == 0 else 2) for j in range(c)]
            else:
                fac = pattern[:1 + pattern[0]]
            for comp in (False, True):
                per = [(fac, [])] * 2 if comp else [(fac, []), (list(reversed(fac[1:])) and [fac[0]] + list(reversed(fac[1:])), [])]
                try:
                    fm = G.forced_message(rng, ids, per, compressed=comp)
                except R.RefError:
                    fm = None
                if fm is None:
                    continue
                directed += 1
                try:
                    msgs.append((fm, R.ref_encode(fm['json'])[0], msg_input(fm)))
                except R.RefError:
                    pass
    if directed < 20:
        return {'error': 'directed nested-replication family could not be built (%d messages)' % directed}
    files = corpus_files()
    for f in (files[::16] if quick else files[::3]):
        data = read_first_message(f)
        if data is not None and len(data) < 30000:
            msgs.append((dict(ids=[os.path.basename(f)], edition=0, compressed=None, nsub=0, values=[[]]), data, {'file': f}))
    carry = []
    for m, data, inp in msgs:
        r = safe(dec.process, data)
        if r[0] != 'ok':
            continue
        msg = r[1]
        n = msg.n_subsets.value
        if n == 0:
            continue
        nest = nested_of(msg)
        td = msg.template_data.value
        paths = []
        enum_paths(nest[0], rng, [], 1, paths, 400)
        if n > 1:
            enum_paths(nest[-1], rng, [], 1, paths, 600)
        rng.shuffle(paths)
        paths = paths[:40 if quick else 150]
        cmsg = safe(cdec.process, data)
        # the same plain paths on consecutive messages through ONE querent (a querent must not remember earlier messages)
        plain = [''.join(sep + ident for sep, ident in p) for p in paths[:10]] + sorted(set(l for l in
                 [str(d) for d in td.decoded_descriptors_all_subsets[0]] if l[0] == '0'))[:6]
        for text in carry + plain:
            try:
                parsed = NodePathParser().parse(text)
                comps0 = [(c.separator, c.id, c.slice) for c in parsed.components]
                if any(c[0] == '>' for c in comps0):
                    raise NoValue('descendant')
                exp0 = [eval_path(nest[i], comps0) for i in range(n)]
            except (NoValue, PyBufrKitError):
                exp0 = None
            q = safe(shared.query, msg, text)
            t.case('shared-querent', (msg_key(m) if m['edition'] else m['ids'][0], text), nontrivial=False)
            if exp0 is not None and (q[0] != 'ok' or not values_eq(q[1].all_values(), exp0)):
                t.violation('C16', '%s (querent reused across messages): returns %r, evaluation over the nested JSON gives %r' % (
                    text, q[1].all_values() if q[0] == 'ok' else q[1], exp0), dict(inp, path=text), key='C16.shared-querent')
            elif exp0 is None and '/' not in text and '.' not in text and q[0] == 'ok':
                # bare id: against the flat data
                for i in range(n):
                    labels = [str(d) for d in td.decoded_descriptors_all_subsets[i]]
                    expv = [v for l, v in zip(labels, td.decoded_values_all_subsets[i]) if l == text]
                    if text not in bare_excluded(nest[0]) and not values_eq(q[1].get_values(i, flat=True), expv):
                        t.violation('C16', 'bare id %s (querent reused across messages), subset %d: %r, the flat data carry %r' % (
                            text, i, q[1].get_values(i, flat=True), expv), dict(inp, path=text), key='C16.shared-querent.bare')
                        break
        carry = plain
        for p in paths:
            comps = []
            k_sl = rng.sample(range(len(p)), min(len(p), rng.choice([0, 1, 1, 2])))
            text = ''
            for i, (sep, ident) in enumerate(p):
                s = rng.choice(SLICES) if i in k_sl else None
                comps.append((sep, ident, slice_sem(s)))
                text += sep + ident + slice_text(s)
            sel = rng.choice([None, None, 0, n - 1, slice(None, None, None), slice(1, None, None), slice(None, None, -1), -1])
            if sel is not None:
                text = '@' + slice_text(sel) + text
            sel_sem = slice_sem(sel)
            exp_subsets = [sel_sem] if isinstance(sel_sem, int) else list(range(n))[sel_sem]
            t.case('path', (msg_key(m) if m['edition'] else m['ids'][0], text), sample={'path': text})
            q = safe(shared.query, msg, text)
            exp = {}
            failed = None
            try:
                for i in exp_subsets:
                    exp[i] = eval_path(nest[i], comps)
            except NoValue as ex:
                failed = ex
            if failed is not None:
                if q[0] == 'ok':
                    t.violation('C16', '%s: query of a value-less node returns %r' % (text, q[1].all_values()), dict(inp, path=text), key='C16.novalue')
                elif not isinstance(q[1], PyBufrKitError):
                    t.violation('C16', '%s: %r instead of the library error' % (text, q[1]), dict(inp, path=text), key='C16.exception')
                continue
            if q[0] != 'ok':
                t.violation('C16', '%s: query fails with %r, evaluation over the nested JSON gives %r' % (text, q[1], exp), dict(inp, path=text),
                            observed=q[2], key='C16.fail|%s' % type(q[1]).__name__)
                continue
            got_idx = q[1].subset_indices()
            if got_idx != exp_subsets:
                t.violation('C16', '%s: result covers subsets %r, selector designates %r' % (text, got_idx, exp_subsets), dict(inp, path=text), key='C16.selector')
                continue
            bad = [i for i in exp_subsets if not values_eq(q[1].get_values(i), exp[i])]
            if bad:
                i = bad[0]
                t.violation('C16', '%s: subset %d: query returns %r, evaluation over the nested JSON gives %r' % (text, i, q[1].get_values(i), exp[i]),
                            dict(inp, path=text), observed=repr(q[1].get_values(i)), expected=repr(exp[i]),
                            key='C16.values|%s' % ('negstep' if ':-' in text else ('slice' if '[' in text.split(']', 1)[-1] or '[' in text else 'plain')))
                continue
            if cmsg[0] == 'ok':
                q2 = safe(DataQuerent(NodePathParser()).query, cmsg[1], text)
                if q2[0] != 'ok' or q2[1].all_values() != q[1].all_values():
                    t.violation('C16', '%s: result differs when the message was decoded with template compilation' % text, dict(inp, path=text), key='C16.compiled')
        # bare ids
        flat_labels = [str(d) for d in td.decoded_descriptors_all_subsets[0]]
        attr_ids = set()
        collect_attr_ids(nest[0], attr_ids)
        cands = sorted(set(l for l in flat_labels if l[0] == '0' and l not in attr_ids))
        for ident in (rng.sample(cands, min(len(cands), 4 if quick else 10)) if cands else []):
            t.case('bare-id', (m['ids'][0] if not m['edition'] else msg_key(m), ident))
            q = safe(shared.query, msg, ident)
            if q[0] != 'ok':
                t.violation('C16', 'bare id %s: query fails with %r' % (ident, q[1]), dict(inp, path=ident), key='C16.bare.fail')
                continue
            for i in range(n):
                labels = [str(d) for d in td.decoded_descriptors_all_subsets[i]]
                vals = td.decoded_values_all_subsets[i]
                expv = [v for l, v in zip(labels, vals) if l == ident]
                got = q[1].get_values(i, flat=True)
                if not values_eq(got, expv):
                    t.violation('C16', 'bare id %s, subset %d: %r, the flat data carry %r' % (ident, i, got, expv), dict(inp, path=ident), key='C16.bare')
                    break
        # compressed vs uncompressed storage of the same data
        if m['edition'] and m['compressed']:
            ju = json.loads(json.dumps(m['json']))
            ju[len(ju) - 3][4] = False
            ru = safe(lambda: dec.process(R.ref_encode(ju)[0]))
            if ru[0] == 'ok':
                for p in paths[:8]:
                    text = ''.join(sep + ident for sep, ident in p)
                    a, b = safe(shared.query, msg, text), safe(DataQuerent(NodePathParser()).query, ru[1], text)
                    t.case('modes', (msg_key(m), text), nontrivial=False)
                    if a[0] == 'ok' and (b[0] != 'ok' or not values_eq(a[1].all_values(), b[1].all_values())):
                        t.violation('C16', '%s: result differs between compressed and uncompressed storage' % text, dict(inp, path=text), key='C16.modes')
    return t.result()


def bare_excluded(nodes):
    out = set()
    collect_attr_ids(nodes, out)
    return out


def collect_attr_ids(nodes, out):
    for n in nodes:
        if isinstance(n, list):
            collect_attr_ids(n, out)
            continue
        for a in n.get('attributes', []):
            out.add(a['id'])
            collect_attr_ids([a], out)
        if 'factor' in n:
            out.add(n['factor']['id'])          # reached through an attribute step: not an ordinary element
            collect_attr_ids([n['factor']], out)
        if 'members' in n:
            collect_attr_ids(n['members'], out)


if __name__ == '__main__':
    io_main(run)
