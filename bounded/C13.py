"""C13 bounded layer (sanity run for the frame argument): results must not depend on what was processed before."""
import json
import os
import random
import subprocess
import sys
import tempfile

from bounded.common import Tally, io_main
from bounded.codec import safe, corpus_files, read_first_message, _Enc
from bounded import refcodec as R, gen as G, oracle as O

REPO = os.environ.get('PYVC_REPO', '/repo')


def digest(msg):
    """observable result of a decode: labels, values, links, flat text rendering, two query results"""
    from pybufrkit.renderer import FlatTextRenderer, NestedJsonRenderer
    from pybufrkit.dataquery import DataQuerent, NodePathParser
    td = msg.template_data.value
    out = {'labels': [[str(d) for d in ds] for ds in td.decoded_descriptors_all_subsets],
           'values': json.loads(json.dumps(td.decoded_values_all_subsets, cls=_Enc)),
           'links': [sorted(d.items()) for d in td.bitmap_links_all_subsets],
           'attrs': [[(str(d), getattr(d, 'nbits', None), getattr(d, 'scale', None), getattr(d, 'refval', None)) for d in ds[:40]]
                     for ds in td.decoded_descriptors_all_subsets[:1]],
           'text': FlatTextRenderer().render(msg)[-600:],
           'nested': json.dumps(NestedJsonRenderer().render(msg), cls=_Enc)[-800:]}
    labels = out['labels'][0]
    for ident in [l for l in labels if l[0] == '0'][:2]:
        try:
            out['q' + ident] = json.loads(json.dumps(DataQuerent(NodePathParser()).query(msg, ident).all_values(), cls=_Enc))
        except Exception as ex:      # noqa
            out['q' + ident] = 'exc %s' % type(ex).__name__
    return json.loads(json.dumps(out))


def local_messages(rng):
    """pairs of messages that differ only in the originating centre (98 has local tables, 7 has none) and use descriptors the
    local table redefines"""
    root = os.path.join(REPO, 'pybufrkit', 'tables', '0')
    out = []
    for lv in sorted(os.listdir(os.path.join(root, '98_0'))):
        lb = json.load(open(os.path.join(root, '98_0', lv, 'TableB.json')))
        for mv in rng.sample([13, 14, 18, 25, 33], 2):
            wb = json.load(open(os.path.join(root, '0_0', str(mv), 'TableB.json')))
            both = [k for k in lb if k in wb and lb[k][1:5] != wb[k][1:5] and lb[k][1] not in ('CCITT IA5',) and wb[k][1] not in ('CCITT IA5',)
                    and 2 <= lb[k][4] <= 32 and 2 <= wb[k][4] <= 32]
            if not both:
                continue
            ids = [int(k) for k in rng.sample(both, min(2, len(both)))] + [1001]
            for centre in (98, 7):
                vals = [[1] * len(ids)]
                js = G.sections_json(4, ids, vals, 1, False, None, version=mv, centre=centre)
                js[1][11] = int(lv)        # local table version
                try:
                    data, _ = R.ref_encode(js)
                except (R.RefError, KeyError):
                    continue
                out.append(data)
    return out


BASELINE_SNIPPET = r'''
import json, sys
sys.path.insert(0, %r); sys.path.insert(0, %r)
from bounded.C13 import digest
from pybufrkit.decoder import Decoder
from pybufrkit.tables import TableGroupCacheManager
res = []
for h in json.load(open(sys.argv[1])):
    data = bytes.fromhex(h)
    TableGroupCacheManager.invalidate()
    try:
        res.append(digest(Decoder().process(data)))
    except Exception as ex:
        res.append('exc ' + type(ex).__name__)
json.dump(res, open(sys.argv[2], 'w'))
'''


def run(job):
    from pybufrkit.decoder import Decoder
    from pybufrkit.encoder import Encoder
    from pybufrkit import tables
    from pybufrkit.renderer import NestedTextRenderer, FlatJsonRenderer
    from pybufrkit.dataquery import DataQuerent, NodePathParser
    quick = job['tier'] == 'quick'
    rng = random.Random(job.get('seed', 0))
    t = Tally('C13', 'a pool of sample and generated messages over more table versions than the table-group cache holds (limit forced to 2, and '
              'the real limit 50), incl. pairs that differ only in the originating centre (local tables) and templates that agree on top-level '
              'descriptors; random interleavings of successful and failing decode / encode / query / render operations through shared decoder and '
              'encoder objects with compiled-template cache sizes {none, 0, 1, 2, 50}; every decode is compared (values, labels, links, '
              'descriptor attributes, renderings, queries) with the decode of the same bytes first in a fresh process',
              'quick: 60 pool messages, 400 operations; thorough: 400 pool messages, 8000 operations')
    pool = []
    pairs = []
    files = corpus_files()
    for f in (files[::5] if quick else files):
        data = read_first_message(f)
        if data is not None and len(data) < 40000:
            pool.append(data)
    for _ in range(25 if quick else 200):
        m = G.gen_message(rng)
        ver = rng.choice([13, 14, 16, 19, 22, 25, 28, 31, 33])
        k = 1
        m['json'][1][{2: 8, 3: 9, 4: 10}[m['edition']]] = ver
        try:
            pool.append(R.ref_encode(m['json'])[0])
        except (R.RefError, KeyError):
            continue
        first = len(pool) - 1
        if rng.random() < 0.4:
            ids = list(m['ids'])
            reps = [i for i, d in enumerate(ids) if 100000 <= d < 200000 and i + 2 < len(ids) and ids[i + (2 if d % 1000 == 0 else 1)] < 100000
                    and ids[i + (2 if d % 1000 == 0 else 1)] // 1000 != 31]
            if reps:
                i = rng.choice(reps)
                j = i + (2 if ids[i] % 1000 == 0 else 1)
                ids[j] = rng.choice([x for x in G.NUMERIC if x != ids[j]])
                try:
                    vals, _ = G.gen_values(rng, ids, R.load_tables(G.VERSION), m['nsub'], m['compressed'])
                    js2 = G.sections_json(m['edition'], ids, vals, m['nsub'], m['compressed'], m['sec2'])
                    js2[1][{2: 8, 3: 9, 4: 10}[m['edition']]] = ver
                    pool.append(R.ref_encode(js2)[0])
                    pairs.append((first, len(pool) - 1))
                except (R.RefError, KeyError):
                    pass
    # messages that violate a section expectation (damaged stop signature): their fresh-process result is the library error, and must stay so
    for i in range(min(4, len(pool))):
        d = pool[rng.randrange(len(pool))]
        if d.endswith(b'7777'):
            pool.append(d[:-1] + b'8')
    loc = local_messages(rng)
    for k in range(0, len(loc) - 1, 2):
        pairs.append((len(pool) + k, len(pool) + k + 1))
    pool += loc
    # baseline in a fresh process
    tmp = tempfile.mkdtemp(prefix='c13_')
    try:
        with open(os.path.join(tmp, 'in.json'), 'w') as f:
            json.dump([d.hex() for d in pool], f)
        code = BASELINE_SNIPPET % (REPO, os.path.dirname(os.path.dirname(os.path.abspath(__file__))))
        env = dict(os.environ, PYTHONPATH=REPO)
        p = subprocess.run([sys.executable, '-B', '-c', code, os.path.join(tmp, 'in.json'), os.path.join(tmp, 'out.json')],
                           capture_output=True, text=True, env=env, timeout=1800)
        if not os.path.exists(os.path.join(tmp, 'out.json')):
            return {'error': 'baseline process failed: ' + p.stderr[-1500:]}
        baseline = json.load(open(os.path.join(tmp, 'out.json')))
    finally:
        import shutil
        shutil.rmtree(tmp, ignore_errors=True)
    for limit in (2, 50):
        tables.MAXIMUM_NUMBER_OF_CACHED_TABLE_GROUPS = limit
        decoders = [Decoder()] + [Decoder(compiled_template_cache_max=k) for k in (0, 1, 2, 50)]
        encoders = [Encoder(), Encoder(compiled_template_cache_max=1)]
        kept = {}
        nops = (200 if quick else 4000)
        for step in range(nops):
            op = rng.random()
            i = rng.randrange(len(pool))
            if op < 0.2 and pairs:
                # two related messages back to back through one decoder (same top-level descriptors / same table numbers)
                a, b = rng.choice(pairs)
                if rng.random() < 0.5:
                    a, b = b, a
                dec = rng.choice(decoders[2:])
                for i2 in (a, b):
                    r = safe(dec.process, pool[i2])
                    t.case('decode-pair', (limit, step, i2), sample={'cache_limit': limit, 'message': i2})
                    got = digest(r[1]) if r[0] == 'ok' else 'exc ' + type(r[1]).__name__
                    if got != baseline[i2]:
                        t.violation('C13', 'message %d decoded right after a related message (same decoder, compiled cache %r, table cache limit %d) '
                                    'differs from its decode in a fresh process' % (i2, dec.compiled_template_manager.cache_max, limit),
                                    {'bytes': pool[i2].hex(), 'previous': pool[a if i2 == b else b].hex()}, key='C13.decode-pair')
                continue
            if op < 0.55:
                dec = rng.choice(decoders)
                r = safe(dec.process, pool[i])
                t.case('decode', (limit, step), sample={'cache_limit': limit, 'message': i})
                got = digest(r[1]) if r[0] == 'ok' else 'exc ' + type(r[1]).__name__
                if got != baseline[i]:
                    diff = [k for k in (got if isinstance(got, dict) else {}) if isinstance(baseline[i], dict) and got.get(k) != baseline[i].get(k)]
                    t.violation('C13', 'message %d decoded after %d other operations (table cache limit %d, decoder with compiled cache %r) differs from '
                                'its decode in a fresh process: %s' % (i, step, limit, getattr(getattr(dec, 'compiled_template_manager', None), 'cache_max', None),
                                                                       diff or got if not isinstance(got, dict) else diff),
                                {'bytes': pool[i].hex(), 'history_seed': job.get('seed', 0), 'step': step}, key='C13.decode|%s' % ('compiled' if getattr(dec, 'compiled_template_manager', None) else 'plain'))
                if r[0] == 'ok':
                    kept[i] = r[1]
            elif op < 0.65:
                safe(rng.choice(decoders).process, pool[i][: max(8, len(pool[i]) // 2)])      # a failing decode
            elif op < 0.72:
                # a decode in one of the other public modes (metadata only / lenient about expected values / no wiring): history only
                safe(rng.choice(decoders).process, pool[i], '<s>', b'BUFR', rng.random() < 0.5, rng.random() < 0.7, rng.random() < 0.5)
            elif op < 0.8 and kept:
                j = rng.choice(list(kept))
                safe(lambda: NestedTextRenderer().render(kept[j]))
                safe(lambda: DataQuerent(NodePathParser()).query(kept[j], [str(d) for d in kept[j].template_data.value.decoded_descriptors_all_subsets[0]][0]))
                # earlier renderings / queries of the same message object must not change a later digest
                t.case('revisit', (limit, step), nontrivial=False)
                if digest(kept[j]) != baseline[j]:
                    t.violation('C13', 'message %d observed again after renderings and queries differs from its first decode' % j, {'bytes': pool[j].hex()},
                                key='C13.revisit')
            elif kept:
                j = rng.choice(list(kept))
                flat = safe(lambda: json.loads(json.dumps(FlatJsonRenderer().render(kept[j]), cls=_Enc)))
                if flat[0] == 'ok':
                    e1 = safe(lambda: rng.choice(encoders).process(flat[1], wire_template_data=False).serialized_bytes)
                    e2 = safe(lambda: Encoder().process(flat[1], wire_template_data=False).serialized_bytes)
                    t.case('encode', (limit, step), nontrivial=False)
                    if (e1[0], e1[1] if e1[0] == 'ok' else type(e1[1]).__name__) != (e2[0], e2[1] if e2[0] == 'ok' else type(e2[1]).__name__):
                        t.violation('C13', 'encoding message %d with a used encoder differs from a fresh encoder' % j, {'bytes': pool[j].hex()}, key='C13.encode')
    tables.MAXIMUM_NUMBER_OF_CACHED_TABLE_GROUPS = 50
    return t.result()


if __name__ == '__main__':
    io_main(run)
