"""C11 bounded layer: splitting byte streams into the messages they contain."""
import argparse
import json
import os
import random
import shutil
import tempfile

from bounded.common import Tally, io_main
from bounded.codec import safe
from bounded import refcodec as R, gen as G

REPO = os.environ.get('PYVC_REPO', '/repo')

SEPS = [b'', b'\r\r\n', b'ZCZC 123\r\r\nISMD01 OKPR 010000\r\r\n', b'BUF', b'BUFBUF', b'\x00\x01\xfe7777', b'NNNN\n', b'BUFRX'[:3] + b'R'[:0]]


def payload_message(rng, edition, compressed, text, category, sec2=None, nsub=None):
    """a message whose character data contain the given text (e.g. b'BUFR', b'7777')"""
    nsub = nsub or rng.choice([1, 2, 3])
    ids = [1015, rng.choice(G.NUMERIC), 1019]
    s = text.decode('latin-1')
    vals = []
    for i in range(nsub):
        vals.append([(s + ' ' * 20)[:20], None, ('x' + s + 'y' + ' ' * 32)[:32]])
    if compressed:
        vals = [vals[0]] * nsub
    js = G.sections_json(edition, ids, vals, nsub, compressed, sec2, category=category)
    return R.ref_encode(js)[0]


def run(job):
    from pybufrkit.decoder import Decoder, generate_bufr_message
    from pybufrkit import commands
    quick = job['tier'] == 'quick'
    rng = random.Random(job.get('seed', 0))
    t = Tally('C11', 'streams of 0..4 messages (editions 2-4, both modes, payloads containing BUFR and 7777, embedded complete messages, total '
              'lengths swept over a contiguous range incl. lengths whose octets are 0x0A / 0x0D) x separators {empty, CR CR LF, GTS header, BUF, '
              'BUFBUF, binary noise} x {full, info-only} x filter expressions over metadata (both polarities): yielded == exactly the '
              'messages (bytes, order); split + concatenation reproduces the messages',
              'quick: 150 streams + length sweep 240..300; thorough: 3000 streams + sweep 200..900 and 2540..2830')
    dec = Decoder()
    pool = []
    for _ in range(30 if quick else 200):
        ed = rng.choice([2, 3, 4])
        comp = rng.random() < 0.5
        cat = rng.choice([0, 2, 2, 7])
        kind = rng.random()
        if kind < 0.35:
            data = payload_message(rng, ed, comp, rng.choice([b'BUFR', b'7777', b'xBUFRx7777', b'BUFR\x00\x00\x1a\x04']), cat)
        elif kind < 0.5:
            inner = payload_message(rng, 4, False, b'in', 2, nsub=1)
            # a complete small message embedded in the character data of another one
            ids = [205000 + min(len(inner), 255)] if len(inner) <= 255 else [1019]
            js = G.sections_json(ed, ids, [[inner[:255].decode('latin-1') if len(inner) <= 255 else 'x' * 32]], 1, False, None, category=cat)
            data = R.ref_encode(js)[0]
        else:
            m = G.gen_message(rng, edition=ed, compressed=comp)
            m['json'][1][6 if ed == 2 else 7] = cat
            data = R.ref_encode(m['json'])[0]
        if safe(dec.process, data)[0] == 'ok':
            rm = R.RefDecoder(data, fallback=False).decode(data_section=False)
            pool.append(dict(bytes=data, edition=ed, category=cat, n_subsets=rm.n_subsets, compressed=bool(rm.compressed)))
    filters = [(None, lambda m: True),
               ('${%edition} == 4', lambda m: m['edition'] == 4),
               ('${%edition} != 4', lambda m: m['edition'] != 4),
               ('${%data_category} == 2', lambda m: m['category'] == 2),
               ('${%data_category} != 2', lambda m: m['category'] != 2),
               ('${%n_subsets} > 1', lambda m: m['n_subsets'] > 1),
               ('${%is_compressed}', lambda m: m['compressed'])]

    def check_stream(chosen, seps, part):
        stream = b''.join(s + m['bytes'] for s, m in zip(seps, chosen)) + seps[-1]
        for info in (False, True):
            for fexpr, pred in (filters if not quick else rng.sample(filters, 3)):
                exp = [m['bytes'] for m in chosen if pred(m)]
                t.case(part, (len(chosen), info, fexpr, hash(stream)), sample={'messages': len(chosen), 'info_only': info, 'filter': fexpr,
                                                                             'lengths': [len(m['bytes']) for m in chosen]})
                r = safe(lambda: [mm.serialized_bytes for mm in generate_bufr_message(Decoder(), stream, info_only=info, filter_expr=fexpr)])
                if r[0] != 'ok':
                    t.violation('C11', 'scanning a stream of %d valid messages (info_only=%s, filter=%r) fails: %r' % (len(chosen), info, fexpr, r[1]),
                                {'stream': stream.hex(), 'filter': fexpr, 'info_only': info}, observed=r[2],
                                key='C11.fail|%s|%s' % ('filter' if fexpr else 'nofilter', 'info' if info else 'full'))
                elif r[1] != exp:
                    t.violation('C11', 'stream of %d messages (lengths %r), info_only=%s, filter=%r: yielded %d messages of lengths %r, expected %r' % (
                        len(chosen), [len(m['bytes']) for m in chosen], info, fexpr, len(r[1]), [len(x) for x in r[1]], [len(x) for x in exp]),
                        {'stream': stream.hex(), 'filter': fexpr, 'info_only': info},
                        key='C11.split|%s|%s' % ('filter' if fexpr else 'nofilter', 'info' if info else 'full'))
        return stream

    for _ in range(150 if quick else 3000):
        k = rng.choice([0, 1, 2, 2, 3, 4])
        chosen = [rng.choice(pool) for _ in range(k)]
        seps = [rng.choice(SEPS) for _ in range(k + 1)]
        check_stream(chosen, seps, 'random')
    # sweep of total lengths (the declared length is what an info-only scan relies on)
    ranges = [(240, 300)] if quick else [(200, 900), (2540, 2830)]
    tail = rng.choice(pool)
    for lo, hi in ranges:
        base = payload_message(rng, 4, False, b'len', 2, sec2='', nsub=1)
        base_len = len(base)
        for extra in range(max(0, lo - base_len), hi - base_len):
            js = G.sections_json(4, [1015, G.NUMERIC[0], 1019], [['len' + ' ' * 17, None, 'x' * 32]], 1, False, '0' * (8 * extra), category=2)
            data = R.ref_encode(js)[0]
            total = len(data)
            m = dict(bytes=data, edition=4, category=2, n_subsets=1, compressed=False)
            stream = b'GTS\r\r\n' + data + b'\x00\x0a' + tail['bytes'] + b'NNNN'
            for info in (False, True):
                t.case('length-sweep', (total, info), nontrivial=False)
                r = safe(lambda: [mm.serialized_bytes for mm in generate_bufr_message(Decoder(), stream, info_only=info)])
                if r[0] != 'ok' or r[1] != [data, tail['bytes']]:
                    t.violation('C11', 'a message of total length %d (0x%06x) is not delivered (info_only=%s): %r' % (
                        total, total, info, r[1] if r[0] != 'ok' else [len(x) for x in r[1]]), {'stream': stream.hex(), 'info_only': info}, key='C11.length')
    # command_split: pieces concatenated == messages concatenated
    tmp = tempfile.mkdtemp(prefix='c11_')
    try:
        for i in range(5 if quick else 60):
            k = rng.choice([1, 2, 3])
            chosen = [rng.choice(pool) for _ in range(k)]
            seps = [rng.choice(SEPS) for _ in range(k + 1)]
            stream = b''.join(s + m['bytes'] for s, m in zip(seps, chosen)) + seps[-1]
            path = os.path.join(tmp, 's%d.bufr' % i)
            with open(path, 'wb') as f:
                f.write(stream)
            ns = argparse.Namespace(definitions_directory=None, tables_root_directory=None, filenames=[path], continue_on_error=False)
            import io
            import contextlib
            with contextlib.redirect_stdout(io.StringIO()):
                r = safe(commands.command_split, ns)
            t.case('split', (k, hash(stream)))
            pieces = b''
            j = 0
            while os.path.exists('%s.%d' % (path, j)):
                pieces += open('%s.%d' % (path, j), 'rb').read()
                j += 1
            if r[0] != 'ok' or pieces != b''.join(m['bytes'] for m in chosen) or j != k:
                t.violation('C11', 'split of a %d-message stream writes %d pieces; their concatenation %s the messages' % (
                    k, j, 'equals' if pieces == b''.join(m['bytes'] for m in chosen) else 'differs from'), {'stream': stream.hex()}, key='C11.command_split')
    finally:
        shutil.rmtree(tmp, ignore_errors=True)
    return t.result()


if __name__ == '__main__':
    io_main(run)
