"""Reference FM-94 BUFR codec, written from the FM-94 rules and the property statements (C01, C02, C04, C05, C07),
NOT from pybufrkit's code: it shares nothing with pybufrkit except the table *files* (Table B / D JSON), which it
reads directly.  It is the oracle of the bounded (run-time) layer; it is not verified itself, and a disagreement
is reported only after the real code's answer and the oracle's answer are both written into the replay file.

  build_tree(ids, tabs)                      descriptor list -> template tree (FM-94 replication ownership)
  RefDecoder(bytes).decode()                 -> RefMessage (sections, per-subset labels / values / links, field trace)
  ref_encode(sections_json, tabs)            -> bytes   (canonical encoding of a pybufrkit-style JSON message)
"""
import json
import os
from fractions import Fraction

REPO = os.environ.get('PYVC_REPO', '/repo')


class RefError(Exception):
    """The input is not a well-formed message under the reference rules."""


# ------------------------------------------------------------------------------------------------
# tables (files only)

_tab_cache = {}


DEFAULT_MASTER_VERSION = 33      # documented fall-back when the declared master table version is not bundled


def load_tables(master_version, master_number=0, root=None, centre=0, subcentre=0, local_version=0, fallback=True):
    """WMO tables of the declared version (fall-back: default version when not bundled and `fallback`), extended /
    overridden by the local tables of (centre, sub-centre) -- else (centre, 0) -- when a local version is declared."""
    root = root or os.path.join(REPO, 'pybufrkit', 'tables')
    key = (root, master_number, master_version, centre, subcentre, local_version, fallback)
    if key not in _tab_cache:
        mn = str(master_number) if os.path.isdir(os.path.join(root, str(master_number))) else '0'
        d = os.path.join(root, mn, '0_0', str(master_version))
        if not os.path.isdir(d):
            if not fallback:
                raise RefError('table version %r not bundled' % master_version)
            d = os.path.join(root, mn, '0_0', str(DEFAULT_MASTER_VERSION))
        dirs = [d]
        if local_version != 0:
            for c in ('%d_%d' % (centre, subcentre), '%d_0' % centre):
                ld = os.path.join(root, mn, c, str(local_version))
                if os.path.isdir(ld):
                    dirs.append(ld)
                    break
        tb, td = {}, {}
        for dd_ in dirs:
            with open(os.path.join(dd_, 'TableB.json')) as f:
                b = json.load(f)
            with open(os.path.join(dd_, 'TableD.json')) as f:
                dd = json.load(f)
            tb.update({int(k): dict(name=v[0], unit=v[1], scale=v[2], ref=v[3], nbits=v[4]) for k, v in b.items()})
            td.update({int(k): [int(x) for x in v[1]] for k, v in dd.items()})
        _tab_cache[key] = (tb, td)
    return _tab_cache[key]


# ------------------------------------------------------------------------------------------------
# template tree

class Node(object):
    __slots__ = ('kind', 'id', 'members', 'factor')

    def __init__(self, kind, id_, members=None, factor=None):
        self.kind = kind          # 'elem' | 'op' | 'rep' | 'seq'
        self.id = id_
        self.members = members
        self.factor = factor

    def __repr__(self):
        return '%s%06d%s' % (self.kind[0], self.id, self.members if self.members is not None else '')


def replication_only(d, td):
    m = td.get(d)
    if not m:
        return False
    if len(m) == 1 and 100000 <= m[0] < 200000 and m[0] % 1000 != 0:
        return True
    return len(m) == 2 and 100000 <= m[0] < 200000 and m[0] % 1000 == 0 and m[1] // 1000 == 31


def build_tree(ids, tabs, _depth=0, ncep=False):
    """FM-94: 1XXYYY replicates the next XX descriptors (the class-31 factor that follows a delayed replication
    is not counted); 3XXYYY expands to its Table D members.  ncep=True: a sequence that consists of a replication
    descriptor only (NCEP in-stream tables, e.g. 360001 = 101000 031002) stands for that replication, which then owns
    the descriptors that follow the sequence."""
    tb, td = tabs
    if _depth > 30:
        raise RefError('sequence nesting too deep')
    out = []
    i = 0
    ids = list(ids)
    if ncep:
        flat = []
        for d in ids:
            if d >= 300000 and replication_only(d, td):
                flat.extend(td[d])
            else:
                flat.append(d)
        ids = flat
    while i < len(ids):
        d = ids[i]
        i += 1
        f, x, y = d // 100000, (d // 1000) % 100, d % 1000
        if f == 0:
            out.append(Node('elem', d))
        elif f == 2:
            out.append(Node('op', d))
        elif f == 3:
            if d not in td:
                raise RefError('undefined sequence %06d' % d)
            out.append(Node('seq', d, members=build_tree(td[d], tabs, _depth + 1, ncep)))
        elif f == 1:
            factor = None
            if y == 0:
                if i >= len(ids):
                    raise RefError('delayed replication without factor')
                factor = ids[i]
                i += 1
            body = ids[i:i + x]
            if len(body) < x:
                raise RefError('replication %06d owns %d descriptors, %d left' % (d, x, len(body)))
            i += x
            out.append(Node('rep', d, members=build_tree(body, tabs, _depth + 1, ncep), factor=factor))
        else:
            raise RefError('bad descriptor %d' % d)
    return out


def flatten_tree(nodes, expand=False):
    out = []
    for n in nodes:
        if n.kind == 'seq':
            if expand:
                out.extend(flatten_tree(n.members, True))
            else:
                out.append(n.id)
        elif n.kind == 'rep':
            out.append(n.id)
            if n.factor is not None:
                out.append(n.factor)
            out.extend(flatten_tree(n.members, expand))
        else:
            out.append(n.id)
    return out


# ------------------------------------------------------------------------------------------------
# bits

class BitsIn(object):
    def __init__(self, data, pos=0):
        self.data = data
        self.pos = pos
        self.nbits = 8 * len(data)

    def read(self, n):
        if n < 0 or self.pos + n > self.nbits:
            raise RefError('read past the end (%d bits at %d of %d)' % (n, self.pos, self.nbits))
        v = 0
        p = self.pos
        for i in range(n):
            byte = self.data[(p + i) >> 3]
            v = (v << 1) | ((byte >> (7 - ((p + i) & 7))) & 1)
        self.pos += n
        return v

    def read_bytes(self, n):
        return bytes(self.read(8) for _ in range(n))


class BitsOut(object):
    def __init__(self):
        self.bits = []

    @property
    def pos(self):
        return len(self.bits)

    def write(self, n, v):
        if v < 0 or v >= (1 << n):
            raise RefError('value %r does not fit %d bits' % (v, n))
        for i in range(n):
            self.bits.append((v >> (n - 1 - i)) & 1)

    def write_bytes(self, b):
        for c in b:
            self.write(8, c)

    def set(self, pos, n, v):
        for i in range(n):
            self.bits[pos + i] = (v >> (n - 1 - i)) & 1

    def to_bytes(self):
        assert len(self.bits) % 8 == 0
        out = bytearray()
        for i in range(0, len(self.bits), 8):
            v = 0
            for b in self.bits[i:i + 8]:
                v = (v << 1) | b
            out.append(v)
        return bytes(out)


def all_ones(n):
    return (1 << n) - 1


# ------------------------------------------------------------------------------------------------
# the template walk (operators, replication, bitmaps): one implementation, two IO back ends

MARKER_PREFIX = {223255: 'T', 224255: 'F', 225255: 'D', 232255: 'R'}


class Regs(object):
    def __init__(self):
        self.dw = 0            # 201
        self.ds = 0            # 202
        self.newref_bits = 0   # 203
        self.newrefs = {}
        self.assoc = []        # 204
        self.skip_bits = 0     # 206
        self.inc = (0, 0, 1)   # 207: (bits, scale, factor)
        self.nbytes = 0        # 208
        self.dnp = 0           # 221
        self.qa = 0            # 0 none, 1 waiting for first class 33, 2 linking
        self.bm_state = 0      # 0 none, 1 operator seen, 2 waiting for first bit, 3 counting bits
        self.bm_reuse = False
        self.bm_nbits = 0
        self.bitmap_saved = None
        self.backrefs = None
        self.sel = None        # zero-bit selection [(flat index, elem id)]
        self.sel_pos = 0
        self.boundary = 0


class Walker(object):
    """io must provide: numeric(label, eid, nbits, scale, ref), code(label, eid, nbits), string(label, eid, nbytes),
    signed(label, eid, nbits) -> value used as new reference, constant(label, value), count() flat entries so far,
    entry_kinds (list of kinds per flat entry), factor_value(), last_bits(n)"""

    def __init__(self, tabs, io, sink=None):
        self.tb, self.td = tabs
        self.io = io
        self.r = Regs()
        self.sink = sink or NullSink()

    def elem_info(self, eid):
        if eid not in self.tb:
            raise RefError('undefined element %06d' % eid)
        return self.tb[eid]

    def walk(self, nodes):
        for n in nodes:
            self.step(n)

    def step(self, n):
        r = self.r
        io = self.io
        # 221YYY: of the next YYY descriptors only classes 1-9 and 31 carry data
        if r.dnp:
            r.dnp -= 1
            if n.kind == 'elem':
                x = (n.id // 1000) % 100
                if not (1 <= x <= 9 or x == 31):
                    self.sink.novalue('%06d' % n.id)
                    return
        # 203YYY: element descriptors define new reference values
        if r.newref_bits and n.kind == 'elem':
            info = self.elem_info(n.id)
            if info['unit'] == 'CCITT IA5':
                raise RefError('new reference value for a character element')
            self.sink.value(io.count())
            v = io.signed('%06d' % n.id, n.id, r.newref_bits)
            r.newrefs[n.id] = v
            return
        # 206YYY: the next descriptor is a local one of YYY bits
        if r.skip_bits:
            self.sink.value(io.count())
            io.code('S%05d' % n.id, n.id, r.skip_bits, kind='skipped')
            r.skip_bits = 0
            return
        if r.bm_state:
            self.bitmap_step(n)
        if n.kind == 'elem':
            self.element(n.id)
        elif n.kind == 'rep':
            y = n.id % 1000
            if n.factor is None:
                count = y
                self.sink.enter_rep('%06d' % n.id, None)
            else:
                if n.factor in (31011, 31012):
                    raise RefError('delayed repetition not covered')
                fidx = io.count()
                self.sink.hold = True          # the factor belongs to the replication node, not to the member list
                self.element(n.factor)
                self.sink.hold = False
                count = io.factor_value()
                if count is None or count < 0:
                    raise RefError('bad replication factor %r' % (count,))
                self.sink.enter_rep('%06d' % n.id, fidx)
            for _ in range(count):
                self.sink.repetition()
                self.walk(n.members)
            self.sink.leave()
        elif n.kind == 'seq':
            self.sink.enter_seq('%06d' % n.id)
            self.walk(n.members)
            self.sink.leave()
        elif n.kind == 'op':
            self.operator(n.id)
        else:
            raise RefError('unknown node')

    def bitmap_step(self, n):
        r = self.r
        if r.bm_state == 1:
            if n.id == 236000:
                r.bm_reuse = True
                r.bm_state = 2
                r.bm_nbits = 0
            elif n.id == 237000:
                r.bm_state = 0
            else:
                r.bm_reuse = False
                r.bm_state = 2
                r.bm_nbits = 0
        if r.bm_state == 2:
            if n.kind == 'elem' and n.id == 31031:
                r.bm_state = 3
                r.bm_nbits = 1
        elif r.bm_state == 3:
            if n.kind == 'elem' and n.id == 31031:
                r.bm_nbits += 1
            else:
                bits = self.io.last_bits(r.bm_nbits)
                self.define_bitmap(bits, r.bm_reuse)
                r.bm_state = 0

    def define_bitmap(self, bits, reuse):
        r = self.r
        if any(b not in (0, 1) for b in bits):
            raise RefError('bitmap bit not 0/1: %r' % (bits,))
        if reuse:
            r.bitmap_saved = list(bits)
        if not r.backrefs:
            kinds = self.io.entry_kinds()
            refs = []
            for idx in range(r.boundary - 1, -1, -1):
                if kinds[idx][0] == 'elem':
                    refs.insert(0, (idx, kinds[idx][1]))
                    if len(refs) == len(bits):
                        break
            r.backrefs = refs
        if len(r.backrefs) != len(bits):
            raise RefError('bitmap of %d bits but %d preceding elements' % (len(bits), len(r.backrefs)))
        r.sel = [ref for b, ref in zip(bits, r.backrefs) if b == 0]
        r.sel_pos = 0

    def next_selected(self):
        r = self.r
        if r.sel is None or r.sel_pos >= len(r.sel):
            raise RefError('more bitmapped values than zero bits')
        x = r.sel[r.sel_pos]
        r.sel_pos += 1
        return x

    def element(self, eid, marker=None, over_bits=None, over_ref=None):
        r = self.r
        io = self.io
        info = self.elem_info(eid)
        x = (eid // 1000) % 100
        assoc_idx = None
        if r.assoc and x != 31:
            assoc_idx = io.count()
            io.code('A%05d' % eid, eid, sum(r.assoc), kind='assoc')
        self.sink.element(io.count(), eid, assoc_idx, marker, self)
        if x == 33 and marker is None:
            # quality information after 222000: the k-th class-33 value belongs to the k-th zero bit
            if r.qa == 1:
                r.qa = 2
            if r.qa == 2:
                idx, _ = self.next_selected()
                io.link(idx)
        elif r.qa == 2:
            r.qa = 0
        if marker is not None:
            label = '%s%05d' % (MARKER_PREFIX.get(marker, 'M'), eid)
            kind = 'marker'
        else:
            label = '%06d' % eid
            kind = 'elem'
        nbits0 = info['nbits'] if over_bits is None else over_bits
        ref0 = info['ref'] if over_ref is None else over_ref
        unit = info['unit']
        if unit == 'CCITT IA5':
            io.string(label, eid, r.nbytes if r.nbytes else nbits0 // 8, kind=kind)
        elif unit in ('FLAG TABLE', 'CODE TABLE'):
            io.code(label, eid, nbits0, kind=kind)
        else:
            nbits = nbits0 + r.dw + r.inc[0]
            scale = info['scale'] + r.ds + r.inc[1]
            if eid in r.newrefs:
                ref = r.newrefs[eid] * r.inc[2]
            else:
                ref = ref0 * r.inc[2]
            io.numeric(label, eid, nbits, scale, ref, kind=kind)

    def operator(self, oid):
        r = self.r
        io = self.io
        code, y = oid // 1000, oid % 1000
        self.sink.operator(oid, io.count(), self)
        if code == 201:
            r.dw = y - 128 if y else 0
        elif code == 202:
            r.ds = y - 128 if y else 0
        elif code == 203:
            if y == 255:
                r.newref_bits = 0
            else:
                r.newref_bits = y
                if y == 0:
                    r.newrefs = {}
        elif code == 204:
            if y == 0:
                if not r.assoc:
                    raise RefError('204000 without open 204YYY')
                r.assoc.pop()
            else:
                r.assoc.append(y)
        elif code == 205:
            io.string('%06d' % oid, oid, y, kind='op')
        elif code == 206:
            r.skip_bits = y
        elif code == 207:
            r.inc = ((10 * y + 2) // 3, y, 10 ** y) if y else (0, 0, 1)
        elif code == 208:
            r.nbytes = y
        elif code == 221:
            r.dnp = y
        elif code in (222, 223, 224, 225, 232):
            if y == 0:
                r.bm_state = 1
                r.boundary = io.count()
                io.constant('%06d' % oid, 0)
                if code == 222:
                    r.qa = 1
            else:
                if r.assoc:
                    raise RefError('marker operator inside an associated-field scope is not covered')
                idx, eid = self.next_selected()
                io.link(idx)
                info = self.elem_info(eid)
                if oid == 225255:
                    self.element_marker(eid, oid, info['nbits'] + 1, -(1 << info['nbits']))
                else:
                    self.element_marker(eid, oid, None, None)
        elif code == 235:
            r.backrefs = None
            r.bitmap_saved = None
            r.sel = None
        elif code == 236:
            io.constant('%06d' % oid, 0)
        elif code == 237:
            if y == 0:
                if r.bitmap_saved is None and r.sel is None:
                    raise RefError('237000 without a bitmap')
                r.sel_pos = 0
            else:
                if r.bm_reuse:
                    r.bitmap_saved = None
            io.constant('%06d' % oid, 0)
        else:
            raise RefError('operator %06d not covered' % oid)

    def element_marker(self, eid, marker, over_bits, over_ref):
        # the marker value is coded as the designated element (under the operators in force)
        r = self.r
        saved_assoc = r.assoc
        r.assoc = []           # the associated field of a marker was emitted by the caller
        try:
            self.element(eid, marker=marker, over_bits=over_bits, over_ref=over_ref)
        finally:
            r.assoc = saved_assoc


class NullSink(object):
    hold = False

    def novalue(self, label):
        pass

    def value(self, index):
        pass

    def enter_rep(self, label, factor_index):
        pass

    def repetition(self):
        pass

    def enter_seq(self, label):
        pass

    def leave(self):
        pass

    def element(self, index, eid, assoc_index, marker, walker):
        pass

    def operator(self, oid, index, walker):
        pass


class StructSink(NullSink):
    """Expected hierarchical view (C07 / C09 / C16), from the statements: every value is a member, a replication
    factor or an attribute of its owner; one envelope per replication with one list per repetition; sequences keep
    their members; an associated field (with its 031021 meaning) is an attribute of the element it precedes; a
    bitmapped value (with its 008023 / 008024 meaning for first-order / difference statistics) is an attribute of the
    element its zero bit designates and stays a member where it stands.

    Nodes are dicts: {'id': label-or-None, 'index': flat index | None, 'members': [...], 'factor': node,
    'attributes': [node...], 'virtual': bool}; ids of value nodes are filled in from the labels afterwards."""

    def __init__(self):
        self.root = []
        self.frames = [['root', self.root, None]]
        self.by_index = {}
        self.hold = False
        self.meaning_assoc = None
        self.meaning = {}
        self.wait = {}

    def _cur(self):
        f = self.frames[-1]
        return f[2] if f[0] == 'rep' else f[1]

    def _add(self, node):
        self._cur().append(node)
        return node

    def _vnode(self, index):
        n = {'index': index}
        self.by_index[index] = n
        return n

    def novalue(self, label):
        self._add({'id': label})

    def value(self, index):
        self._add(self._vnode(index))

    def enter_rep(self, label, factor_index):
        n = {'id': label, 'members': []}
        if factor_index is not None:
            n['factor'] = self.by_index[factor_index]
        self._add(n)
        self.frames.append(['rep', n['members'], None])

    def repetition(self):
        f = self.frames[-1]
        cur = []
        f[1].append(cur)          # one list per repetition inside the envelope
        f[2] = cur

    def enter_seq(self, label):
        n = {'id': label, 'members': []}
        self._add(n)
        self.frames.append(['seq', n['members'], None])

    def leave(self):
        self.frames.pop()

    def element(self, index, eid, assoc_index, marker, walker):
        node = self._vnode(index)
        if assoc_index is not None:
            a = self._vnode(assoc_index)
            if self.meaning_assoc is not None:
                a['attributes'] = [dict(self.meaning_assoc, virtual=True)]
            node['attributes'] = [a]
        if marker is not None:
            code = marker // 1000
            if code in (224, 225) and self.meaning.get(code) is not None:
                node.setdefault('attributes', []).append(dict(self.meaning[code], virtual=True))
        if not self.hold:
            self._add(node)
        if marker is None:
            if eid == 31021 and walker.r.assoc:
                self.meaning_assoc = node
            elif eid == 8023 and self.wait.get(224):
                self.meaning[224] = node
                self.wait[224] = False
            elif eid == 8024 and self.wait.get(225):
                self.meaning[225] = node
                self.wait[225] = False

    def operator(self, oid, index, walker):
        code, y = oid // 1000, oid % 1000
        if code in (201, 202, 203, 204, 206, 207, 208, 221, 235):
            self.novalue('%06d' % oid)
        elif code == 205:
            self.value(index)
        elif code in (222, 223, 224, 225, 232) and y == 0:
            self.value(index)
            if code in (224, 225):
                self.wait[code] = True
        elif code in (236, 237):
            self.value(index)
        # 2XX255 markers arrive through element()

    def finish(self, labels, links):
        """attach bitmapped values to their owners and fill in the ids"""
        for j, owner in sorted(links.items()):
            self.by_index[owner].setdefault('attributes', []).append(dict(self.by_index[j], virtual=True))

        def fill(nodes):
            for n in nodes:
                if isinstance(n, list):
                    fill(n)
                    continue
                if 'index' in n and n['index'] is not None:
                    n['id'] = labels[n['index']]
                if 'members' in n:
                    fill(n['members'])
                if 'factor' in n:
                    fill([n['factor']])
                if 'attributes' in n:
                    fill(n['attributes'])
        fill(self.root)
        return self.root


# ------------------------------------------------------------------------------------------------
# decode back end

def raw_to_value(raw, scale, ref):
    """(raw + ref) / 10**scale as an exact rational (int when it is one)."""
    v = Fraction(raw + ref) / (Fraction(10) ** scale)
    return v


class DecodeIO(object):
    def __init__(self, bits, nsub, compressed):
        self.b = bits
        self.nsub = nsub
        self.compressed = compressed
        # per subset: labels, values, links; compressed: one shared walk, values per subset
        self.labels = []
        self.kinds = []
        self.links = {}
        self.values = [[] for _ in range(nsub)] if compressed else [[]]
        self.fields = []          # trace: (label, bit position, width, raw) of every field read
        self.has_bits = []        # per flat entry: does it occupy bits (operator slots do not)

    # bookkeeping
    def count(self):
        return len(self.labels)

    def entry_kinds(self):
        return self.kinds

    def link(self, idx):
        self.links[len(self.labels)] = idx

    def _entry(self, label, kind, eid, bits=True):
        self.labels.append(label)
        self.kinds.append((kind, eid))
        self.has_bits.append(bits)

    def _put(self, vals):
        if self.compressed:
            for i, v in enumerate(vals):
                self.values[i].append(v)
        else:
            self.values[0].append(vals[0])

    def _uint_column(self, label, nbits, missing_width=None):
        """-> list of raw values (None = missing) for all subsets (1 if uncompressed)"""
        b = self.b
        if nbits < 0 or nbits > 64 * 8:
            raise RefError('bad width %d' % nbits)
        if not self.compressed:
            p = b.pos
            raw = b.read(nbits)
            self.fields.append((label, p, nbits, raw))
            return [None if (nbits > 1 and raw == all_ones(nbits)) else raw]
        p = b.pos
        mn = b.read(nbits)
        self.fields.append((label + ':min', p, nbits, mn))
        p = b.pos
        w = b.read(6)
        self.fields.append((label + ':nbinc', p, 6, w))
        mn_missing = nbits > 1 and mn == all_ones(nbits)
        if mn_missing:
            if w != 0:
                raise RefError('missing minimum with non-zero increment width')
            return [None] * self.nsub
        if w == 0:
            return [mn] * self.nsub
        out = []
        for _ in range(self.nsub):
            p = b.pos
            inc = b.read(w)
            self.fields.append((label + ':inc', p, w, inc))
            if inc == all_ones(w):
                out.append(None)
            else:
                out.append(mn + inc)
        return out

    def numeric(self, label, eid, nbits, scale, ref, kind='elem'):
        self._entry(label, kind, eid)
        raws = self._uint_column(label, nbits)
        self._put([None if x is None else raw_to_value(x, scale, ref) for x in raws])

    def code(self, label, eid, nbits, kind='elem'):
        self._entry(label, kind, eid)
        raws = self._uint_column(label, nbits)
        self._put([None if (x is None or (nbits > 1 and x == all_ones(nbits))) else x for x in raws])

    def signed(self, label, eid, nbits):
        self._entry(label, 'newref', eid)
        b = self.b
        p = b.pos
        sign = b.read(1)
        mag = b.read(nbits - 1)
        self.fields.append((label + ':newref', p, nbits, (sign << (nbits - 1)) | mag))
        v = -mag if sign else mag
        if self.compressed:
            p = b.pos
            w = b.read(6)
            self.fields.append((label + ':nbinc', p, 6, w))
            if w != 0:
                raise RefError('new reference values differ between subsets')
        self._put([v] * (self.nsub if self.compressed else 1))
        return v

    def string(self, label, eid, nbytes, kind='elem'):
        self._entry(label, kind, eid)
        b = self.b
        if not self.compressed:
            p = b.pos
            s = b.read_bytes(nbytes)
            self.fields.append((label, p, 8 * nbytes, s))
            self._put([s])
            return
        p = b.pos
        base = b.read_bytes(nbytes)
        self.fields.append((label + ':min', p, 8 * nbytes, base))
        p = b.pos
        w = b.read(6)
        self.fields.append((label + ':nbinc', p, 6, w))
        if w == 0:
            self._put([base] * self.nsub)
            return
        out = []
        for _ in range(self.nsub):
            p = b.pos
            s = b.read_bytes(w)
            self.fields.append((label + ':inc', p, 8 * w, s))
            out.append(s)
        self.string_base = base
        self._put(out)

    def constant(self, label, value):
        self._entry(label, 'op', int(label), bits=False)
        self._put([value] * (self.nsub if self.compressed else 1))

    def factor_value(self):
        if self.compressed:
            vals = [v[-1] for v in self.values]
            if any(v != vals[0] for v in vals):
                raise RefError('replication factors differ between compressed subsets')
            v = vals[0]
        else:
            v = self.values[0][-1]
        return None if v is None else int(v)

    def last_bits(self, n):
        vals = self.values[0][-n:]
        return [None if v is None else int(v) for v in vals]


# ------------------------------------------------------------------------------------------------
# sections

# FM-94 section 1 layouts (octets), by edition: (name, bits)
SEC1 = {
    2: [('section_length', 24), ('master_table_number', 8), ('originating_centre', 16), ('update_sequence_number', 8),
        ('is_section2_presents', 1), ('flag_bits', 7), ('data_category', 8), ('data_local_subcategory', 8),
        ('master_table_version', 8), ('local_table_version', 8), ('year', 8), ('month', 8), ('day', 8), ('hour', 8),
        ('minute', 8)],
    3: [('section_length', 24), ('master_table_number', 8), ('originating_subcentre', 8), ('originating_centre', 8),
        ('update_sequence_number', 8), ('is_section2_presents', 1), ('flag_bits', 7), ('data_category', 8),
        ('data_local_subcategory', 8), ('master_table_version', 8), ('local_table_version', 8), ('year', 8),
        ('month', 8), ('day', 8), ('hour', 8), ('minute', 8)],
    4: [('section_length', 24), ('master_table_number', 8), ('originating_centre', 16), ('originating_subcentre', 16),
        ('update_sequence_number', 8), ('is_section2_presents', 1), ('flag_bits', 7), ('data_category', 8),
        ('data_i18n_subcategory', 8), ('data_local_subcategory', 8), ('master_table_version', 8),
        ('local_table_version', 8), ('year', 16), ('month', 8), ('day', 8), ('hour', 8), ('minute', 8), ('second', 8)],
}


class RefMessage(object):
    pass


class RefDecoder(object):
    def __init__(self, data, tables_root=None, fallback=True, tabs=None, ncep=False):
        self.data = data
        self.tables_root = tables_root
        self.fallback = fallback
        self.tabs = tabs
        self.ncep = ncep

    def decode(self, data_section=True):
        d = self.data
        if d[:4] != b'BUFR':
            raise RefError('no start signature')
        b = BitsIn(d)
        m = RefMessage()
        m.sections = {}
        m.extents = {}          # section index -> (start byte, length in bytes)
        b.read(32)
        m.length = b.read(24)
        m.edition = b.read(8)
        m.extents[0] = (0, 8)
        if m.edition not in SEC1:
            raise RefError('edition %r not covered' % m.edition)
        # section 1
        s1 = {}
        start = b.pos
        for name, n in SEC1[m.edition]:
            s1[name] = b.read(n)
        self._to_end(b, start, s1['section_length'], 1)
        m.sections[1] = s1
        m.extents[1] = (start // 8, s1['section_length'])
        m.has_sec2 = bool(s1['is_section2_presents'])
        if m.has_sec2:
            start = b.pos
            ln = b.read(24)
            b.read(8)
            self._to_end(b, start, ln, 2)
            m.extents[2] = (start // 8, ln)
        # section 3
        start = b.pos
        ln = b.read(24)
        b.read(8)
        m.n_subsets = b.read(16)
        m.observed = b.read(1)
        m.compressed = b.read(1)
        b.read(6)
        nd = (ln - 7) // 2
        if ln < 7:
            raise RefError('section 3 too short')
        m.descriptors = []
        for _ in range(nd):
            f = b.read(2)
            x = b.read(6)
            y = b.read(8)
            m.descriptors.append(f * 100000 + x * 1000 + y)
        self._to_end(b, start, ln, 3)
        m.extents[3] = (start // 8, ln)
        # section 4
        start = b.pos
        ln = b.read(24)
        b.read(8)
        m.extents[4] = (start // 8, ln)
        m.data_start_bit = b.pos
        if data_section:
            tabs = self.tabs or load_tables(s1['master_table_version'], s1['master_table_number'], self.tables_root,
                                            s1['originating_centre'], s1.get('originating_subcentre', 0), s1['local_table_version'],
                                            fallback=self.fallback)
            m.tabs = tabs
            tree = build_tree(m.descriptors, tabs, ncep=self.ncep)
            m.tree = tree
            m.subsets = []
            m.structures = []
            if m.compressed:
                io = DecodeIO(b, m.n_subsets, True)
                sink = StructSink()
                Walker(tabs, io, sink).walk(tree)
                st = sink.finish(io.labels, io.links)
                for i in range(m.n_subsets):
                    m.structures.append(st)
                    m.subsets.append(dict(labels=io.labels, values=io.values[i], links=io.links, kinds=io.kinds,
                                          has_bits=io.has_bits))
                m.fields = io.fields
            else:
                m.fields = []
                for i in range(m.n_subsets):
                    io = DecodeIO(b, 1, False)
                    sink = StructSink()
                    Walker(tabs, io, sink).walk(tree)
                    m.structures.append(sink.finish(io.labels, io.links))
                    m.subsets.append(dict(labels=io.labels, values=io.values[0], links=io.links, kinds=io.kinds,
                                          has_bits=io.has_bits))
                    m.fields.extend(io.fields)
            m.data_end_bit = b.pos
            if b.pos - start > 8 * ln:
                raise RefError('data exceed declared section 4 length')
            m.padding_bits = [b.read(1) for _ in range(8 * ln - (b.pos - start))]
        else:
            b.pos = start + 8 * ln
            if b.pos > b.nbits:
                raise RefError('section 4 runs past the end')
        # section 5
        start = b.pos
        end = b.read_bytes(4)
        if end != b'7777':
            raise RefError('no stop signature')
        m.extents[5] = (start // 8, 4)
        m.total_bytes = b.pos // 8
        m.bytes = d[:m.total_bytes]
        return m

    @staticmethod
    def _to_end(b, start, length, idx):
        used = b.pos - start
        if used > 8 * length:
            raise RefError('section %d declared shorter (%d octets) than its content' % (idx, length))
        b.read(8 * length - used)


# ------------------------------------------------------------------------------------------------
# encode back end

class EncodeIO(object):
    """values: list of per-subset flat value lists (as in pybufrkit's JSON)."""

    def __init__(self, out, values, nsub, compressed, subset=0):
        self.o = out
        self.nsub = nsub
        self.compressed = compressed
        self.vals = values if compressed else [values[subset]]
        self.k = 0
        self.labels = []
        self.kinds = []
        self.links = {}

    def count(self):
        return len(self.labels)

    def entry_kinds(self):
        return self.kinds

    def link(self, idx):
        self.links[len(self.labels)] = idx

    def _next(self, label, kind, eid):
        self.labels.append(label)
        self.kinds.append((kind, eid))
        col = []
        for v in self.vals:
            if self.k >= len(v):
                raise RefError('value list too short')
            col.append(v[self.k])
        self.k += 1
        return col

    def _uint_column(self, raws, nbits):
        o = self.o
        miss = all_ones(nbits)
        if not self.compressed:
            o.write(nbits, miss if raws[0] is None else raws[0])
            return
        present = [x for x in raws if x is not None]
        if not present:
            o.write(nbits, miss)
            o.write(6, 0)
            return
        if len(present) == len(raws) and all(x == raws[0] for x in raws):
            o.write(nbits, raws[0])
            o.write(6, 0)
            return
        mn, mx = min(present), max(present)
        w = 1
        while mx - mn > all_ones(w) - 1:
            w += 1
        self.col_width = w
        o.write(nbits, mn)
        o.write(6, w)
        for x in raws:
            o.write(w, all_ones(w) if x is None else x - mn)

    @staticmethod
    def to_raw(v, scale, ref):
        if v is None:
            return None
        x = Fraction(v) * (Fraction(10) ** scale)
        n = int(round(float(x))) if x.denominator != 1 else int(x)
        return n - ref

    def numeric(self, label, eid, nbits, scale, ref, kind='elem'):
        col = self._next(label, kind, eid)
        self._uint_column([self.to_raw(v, scale, ref) for v in col], nbits)

    def code(self, label, eid, nbits, kind='elem'):
        col = self._next(label, kind, eid)
        self._uint_column([None if v is None else int(v) for v in col], nbits)

    def signed(self, label, eid, nbits):
        col = self._next(label, 'newref', eid)
        v = col[0]
        if v is None or any(x != v for x in col):
            raise RefError('new reference value missing or differing')
        v = int(v)
        if abs(v) >= (1 << (nbits - 1)):
            raise RefError('new reference does not fit')
        self.o.write(1, 1 if v < 0 else 0)
        self.o.write(nbits - 1, abs(v))
        if self.compressed:
            self.o.write(6, 0)
        return v

    @staticmethod
    def to_field(v, nbytes):
        if v is None:
            return b'\xff' * nbytes
        if isinstance(v, str):
            v = v.encode('latin-1')
        return (v + b' ' * nbytes)[:nbytes]

    def string(self, label, eid, nbytes, kind='elem'):
        col = self._next(label, kind, eid)
        o = self.o
        fs = [self.to_field(v, nbytes) for v in col]
        if not self.compressed:
            o.write_bytes(fs[0])
            return
        if all(f == fs[0] for f in fs):
            o.write_bytes(fs[0])
            o.write(6, 0)
            return
        o.write_bytes(b'\0' * nbytes)
        o.write(6, nbytes)
        for f in fs:
            o.write_bytes(f)

    def constant(self, label, value):
        col = self._next(label, 'op', int(label))
        if any(v != value for v in col):
            raise RefError('operator slot must hold %r' % (value,))

    def factor_value(self):
        col = [v[self.k - 1] for v in self.vals]
        if any(c != col[0] for c in col):
            raise RefError('replication factors differ between compressed subsets')
        return None if col[0] is None else int(col[0])

    def last_bits(self, n):
        return [None if v is None else int(v) for v in self.vals[0][self.k - n:self.k]]


def ref_encode(sections, tables_root=None, edition=None, tabs=None, ncep=False):
    """sections: pybufrkit-style JSON (list of per-section value lists; optional section 2 simply absent).
    Lengths are recomputed.  -> bytes"""
    s0 = sections[0]
    edition = s0[2]
    o = BitsOut()
    o.write_bytes(b'BUFR')
    len_pos = o.pos
    o.write(24, 0)
    o.write(8, edition)
    layout = SEC1[edition]
    s1 = dict(zip([n for n, _ in layout], sections[1]))

    def pad(start):
        while (o.pos - start) % 8:
            o.write(1, 0)
        if edition <= 3 and ((o.pos - start) // 8) % 2:
            o.write(8, 0)

    def fix_len(start):
        o.set(start, 24, (o.pos - start) // 8)

    start = o.pos
    for (name, n), v in zip(layout, sections[1]):
        if name == 'flag_bits':
            o.write(n, int(v, 2) if isinstance(v, str) else v)
        elif name == 'is_section2_presents':
            o.write(1, 1 if v else 0)
        else:
            o.write(n, v)
    pad(start)
    fix_len(start)
    k = 2
    if s1['is_section2_presents']:
        sec2 = sections[2]
        k = 3
        start = o.pos
        o.write(24, 0)
        o.write(8, int(sec2[1], 2) if isinstance(sec2[1], str) else sec2[1])
        for c in sec2[2]:
            o.write(1, int(c))
        pad(start)
        fix_len(start)
    s3 = sections[k]
    start = o.pos
    o.write(24, 0)
    o.write(8, 0)
    nsub = s3[2]
    o.write(16, nsub)
    o.write(1, 1 if s3[3] else 0)
    compressed = bool(s3[4])
    o.write(1, 1 if compressed else 0)
    o.write(6, int(s3[5], 2) if isinstance(s3[5], str) else s3[5])
    ids = s3[6]
    for d in ids:
        o.write(2, d // 100000)
        o.write(6, (d // 1000) % 100)
        o.write(8, d % 1000)
    pad(start)
    fix_len(start)
    s4 = sections[k + 1]
    start = o.pos
    o.write(24, 0)
    o.write(8, 0)
    tabs = tabs or load_tables(s1['master_table_version'], s1['master_table_number'], tables_root,
                               s1['originating_centre'], s1.get('originating_subcentre', 0), s1['local_table_version'],
                               fallback=False)
    tree = build_tree(ids, tabs, ncep=ncep)
    values = s4[2]
    info = []
    if compressed:
        io = EncodeIO(o, values, nsub, True)
        Walker(tabs, io).walk(tree)
        info.append(io)
    else:
        for i in range(nsub):
            io = EncodeIO(o, values, nsub, False, i)
            Walker(tabs, io).walk(tree)
            info.append(io)
    pad(start)
    fix_len(start)
    o.write_bytes(b'7777')
    o.set(len_pos, 24, o.pos // 8)
    return o.to_bytes(), info
