"""Replay of solver counterexamples on the real code (run under /venv/bin/python).

in.json: {contract, model, obligation, seed, [fixed_input]}   out.json: {reproduced, input, observed, expected, detail}

The model's scalar inputs (ints, strings) are used as they are; object inputs (streams, states,
messages) are rebuilt by the harness of the contract's target from a small grid around the model
plus random fill, and the contract is evaluated natively on the real function (native.py).
"""
import importlib
import json
import random
import re
import sys

from bounded.native import NativeContract
from bounded import harness as H


def parse_smt_value(s):
    s = s.strip()
    if s in ('true', 'false'):
        return s == 'true'
    m = re.match(r'^\(- (\d+)\)$', s)
    if m:
        return -int(m.group(1))
    if re.match(r'^-?\d+$', s):
        return int(s)
    if s.startswith('"') and s.endswith('"'):
        body = s[1:-1].replace('""', '"')
        body = re.sub(r'\\u\{([0-9a-fA-F]+)\}', lambda mm: chr(int(mm.group(1), 16)), body)
        body = re.sub(r'\\x([0-9a-fA-F]{2})', lambda mm: chr(int(mm.group(1), 16)), body)
        return body
    return None


def model_scalars(model):
    out = {}
    for k, v in (model or {}).items():
        if k.startswith('in!'):
            pv = parse_smt_value(v)
            if pv is not None:
                out[k[3:]] = pv
        elif k.startswith('gh!'):
            pv = parse_smt_value(v)
            if pv is not None:
                out['ghost:' + k[3:]] = pv
    return out


def main():
    inp, outp = sys.argv[1], sys.argv[2]
    with open(inp) as f:
        job = json.load(f)
    cj = job['contract']
    rng = random.Random(job.get('seed', 0))
    scalars = model_scalars(job.get('model'))
    res = {'reproduced': False, 'detail': '', 'tried': 0}
    try:
        harness = H.find(cj['target'])
        if harness is None:
            res['detail'] = 'no replay harness for %s' % cj['target']
        else:
            nc = NativeContract(cj, extra_ns=H.extra_ns())
            budget = 4000 if job.get('tier') == 'quick' else 40000
            fixed = job.get('fixed_input')
            for case in harness(cj, scalars, rng, fixed):
                res['tried'] += 1
                env, call, desc = case
                out = nc.check(None, env, call)
                if out.skipped:
                    continue
                if not out.ok:
                    res.update(reproduced=True, input=desc,
                               observed=[list(map(str, f)) for f in out.failures][:5],
                               expected='contract of %s' % cj['name'],
                               detail='real %s violates its contract on this input' % cj['target'])
                    break
                if res['tried'] >= budget:
                    break
            if not res['reproduced'] and not res['detail']:
                res['detail'] = 'contract held on %d concrete inputs around the model' % res['tried']
    except Exception as ex:      # noqa
        import traceback
        res['detail'] = 'replay harness error: %r\n%s' % (ex, traceback.format_exc()[-1500:])
    with open(outp, 'w') as f:
        json.dump(res, f, default=str)


if __name__ == '__main__':
    main()
