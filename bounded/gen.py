"""Generator of templates and conforming value lists for the bounded layer (shared by C01-C10, C12, C16).

Templates are assembled from fragments over the bundled Table B / D (version 25 unless stated): plain elements of
assorted widths / scales / references, code and flag tables (incl. 1-bit), strings, Table D sequences, fixed and
delayed replication (nested, zero counts), operators 201-208, 221 and the bitmap operators 222-225 / 232 / 235-237.
Values are chosen by running the *reference* walker (bounded/refcodec.py) with a value-choosing back end, so the
flat value lists conform to the template by construction (factors, bitmaps, operator slots, associated fields).
Every random choice comes from the rng given (VERIF_SEED).
"""
import random
from fractions import Fraction

from bounded import refcodec as R

VERSION = 25

NUMERIC = [12101, 7004, 5001, 10004, 11001, 12001, 7001, 6001, 4001, 4002, 13003, 11002, 10051, 22042]
CODES = [2001, 8002, 20011, 8042, 20003, 2002, 8021]
STRINGS = [1015, 1019, 1011, 1026]
SEQS = [301011, 301012, 301021, 301013]
CLASS33 = [33007, 33002, 33003]


def f_value(raw, scale, ref):
    """JSON value of a raw field: int when the scale is 0, else the correctly rounded float."""
    v = Fraction(raw + ref) / (Fraction(10) ** scale)
    if scale == 0:
        return int(v)
    return float(v)


class GenIO(object):
    """Walker back end that chooses values. Compressed: one walk producing columns; uncompressed: one walk per subset."""

    def __init__(self, rng, nsub, compressed, plan=None, max_rep=3):
        self.rng = rng
        self.nsub = nsub if compressed else 1
        self.compressed = compressed
        self.values = [[] for _ in range(self.nsub)]
        self.labels = []
        self.kinds = []
        self.links = {}
        self.plan = plan or {}
        self.max_rep = max_rep
        self.raws = []            # per entry: list of raws (None = missing) or bytes

    def count(self):
        return len(self.labels)

    def entry_kinds(self):
        return self.kinds

    def link(self, idx):
        self.links[len(self.labels)] = idx

    def _entry(self, label, kind, eid):
        self.labels.append(label)
        self.kinds.append((kind, eid))

    def _put(self, col):
        for i in range(self.nsub):
            self.values[i].append(col[i])

    def column(self, nbits, allow_missing=True, same=False):
        """raw column over [0, 2^n-2] plus missing, with the shapes the properties name."""
        rng = self.rng
        top = (1 << nbits) - 2 if nbits > 1 else 1
        if nbits == 1:
            allow_missing = False

        def one():
            r = rng.random()
            if r < 0.15:
                return 0
            if r < 0.25:
                return min(1, top)
            if r < 0.40:
                return top
            if r < 0.50 and allow_missing:
                return None
            return rng.randint(0, max(top, 0))
        if self.nsub == 1 or same:
            return [one()] * self.nsub
        shape = rng.random()
        if shape < 0.2:
            return [one()] * self.nsub
        if shape < 0.3 and allow_missing:
            return [None] * self.nsub
        if shape < 0.45:
            base = rng.randint(0, max(top - 1, 0))
            return [min(top, base + rng.randint(0, 1)) for _ in range(self.nsub)]       # 1-bit differences
        if shape < 0.6 and allow_missing:
            v = one()
            return [v if rng.random() < 0.6 else None for _ in range(self.nsub)]          # equal next to missing
        if shape < 0.7:
            base = rng.randint(0, max(top - 6, 0))
            k = rng.choice([2, 6])                                                        # range 2^k - 2
            return [min(top, base + rng.choice([0, k])) for _ in range(self.nsub)]
        return [one() for _ in range(self.nsub)]

    def numeric(self, label, eid, nbits, scale, ref, kind='elem'):
        self._entry(label, kind, eid)
        x = (eid // 1000) % 100
        if x == 31 and kind == 'elem':
            col = self.structural(eid, nbits)
        else:
            col = self.column(nbits)
        self.raws.append(col)
        self._put([None if r is None else f_value(r, scale, ref) for r in col])

    def structural(self, eid, nbits):
        """class 31: replication factors and bitmap bits are equal across compressed subsets"""
        rng = self.rng
        if eid == 31031:
            v = rng.choice([0, 0, 1])
        elif eid in (31021,):
            v = rng.randint(0, min(62, (1 << nbits) - 2))
        else:
            v = rng.choice([0, 1, 1, 2, self.max_rep])
            v = min(v, (1 << nbits) - 2 if nbits > 1 else 1)
        return [v] * self.nsub

    def code(self, label, eid, nbits, kind='elem'):
        self._entry(label, kind, eid)
        x = (eid // 1000) % 100
        if x == 31 and kind == 'elem':
            col = self.structural(eid, nbits)
        else:
            col = self.column(nbits)
        self.raws.append(col)
        self._put(col)

    def signed(self, label, eid, nbits):
        self._entry(label, 'newref', eid)
        lim = (1 << (nbits - 1)) - 1
        v = self.rng.choice([0, 1, -1, lim, -lim, self.rng.randint(-lim, lim)])
        self.raws.append([v] * self.nsub)
        self._put([v] * self.nsub)
        return v

    def string(self, label, eid, nbytes, kind='elem'):
        self._entry(label, kind, eid)
        rng = self.rng
        alphabet = 'ABCxyz 09\'"b\\'

        def one():
            r = rng.random()
            if r < 0.12:
                return None
            n = nbytes if r < 0.5 else rng.randint(0, nbytes)
            s = ''.join(rng.choice(alphabet) for _ in range(n))
            if r > 0.9 and nbytes >= 2:
                s = s[:-2] + '\xe9\xfc'
            return (s + ' ' * nbytes)[:nbytes]
        if self.nsub == 1:
            col = [one()]
        else:
            shape = rng.random()
            if shape < 0.3:
                col = [one()] * self.nsub
            elif shape < 0.4:
                col = [None] * self.nsub
            else:
                col = [one() for _ in range(self.nsub)]
        self.raws.append(col)
        self._put(col)

    def constant(self, label, value):
        self._entry(label, 'op', int(label))
        self.raws.append([value] * self.nsub)
        self._put([value] * self.nsub)

    def factor_value(self):
        return self.values[0][-1]

    def last_bits(self, n):
        return self.values[0][-n:]


# ---- template fragments ---------------------------------------------------------------------------

def frag_plain(rng):
    k = rng.randint(1, 4)
    return [rng.choice(NUMERIC + CODES + STRINGS) for _ in range(k)]


def frag_seq(rng):
    return [rng.choice(SEQS)]


def frag_fixed(rng):
    body = frag_plain(rng)[:3]
    return [100000 + len(body) * 1000 + rng.randint(1, 3)] + body


def frag_delayed(rng, depth=0):
    body = frag_plain(rng)[:2]
    if depth < 2 and rng.random() < 0.4:
        body = body + frag_delayed(rng, depth + 1)
    fac = rng.choice([31001, 31001, 31002, 31000])
    return [100000 + len(body) * 1000, fac] + body


def frag_201(rng):
    e = [rng.choice(NUMERIC) for _ in range(rng.randint(1, 2))]
    return [201000 + rng.choice([129, 132, 126, 138])] + e + [201000]


def frag_202(rng):
    e = [rng.choice(NUMERIC) for _ in range(rng.randint(1, 2))]
    return [202000 + rng.choice([129, 127, 130])] + e + [202000]


def frag_207(rng):
    e = [rng.choice(NUMERIC) for _ in range(rng.randint(1, 2))]
    return [207000 + rng.choice([1, 2, 3])] + e + [207000]


def frag_203(rng):
    e = rng.sample([12101, 7001, 11001, 10004], 2)
    y = rng.choice([8, 12, 16])
    out = [203000 + y] + e + [203255] + e + [rng.choice(NUMERIC)]
    if rng.random() < 0.5:
        # a second definition block: the first definitions stay in force until 203000
        e2 = [rng.choice([12001, 6001])]
        out += [203000 + rng.choice([10, 14])] + e2 + [203255] + e + e2
    return out + [203000] + e[:1]


def frag_204(rng):
    e = [rng.choice(NUMERIC + CODES) for _ in range(rng.randint(1, 2))]
    out = [204000 + rng.choice([1, 2, 6, 8]), 31021] + e
    if rng.random() < 0.3:
        out += [204000 + rng.choice([1, 3]), 31021, rng.choice(NUMERIC), 204000]
    return out + [204000]


def frag_205(rng):
    return [205000 + rng.choice([1, 4, 9])]


def frag_206(rng):
    return [206000 + rng.choice([1, 8, 13, 24]), rng.choice([63255, 2192, 48001])]


def frag_208(rng):
    return [208000 + rng.choice([2, 5, 30]), rng.choice(STRINGS), 208000, rng.choice(STRINGS)]


def frag_221(rng):
    e = [rng.choice([1001, 1002, 4001, 5001, 12101, 7004, 20011, 8002]) for _ in range(3)]
    return [221000 + len(e)] + e


def rep_count(rng, nb):
    """fixed replication of one descriptor, 1..nb times (a count above the number of zero bits is rejected later)"""
    return 101000 + rng.randint(1, max(nb, 1))


def frag_bitmap(rng):
    """elements, then 222000 quality block and / or statistics blocks sharing, redefining or cancelling bitmaps"""
    n = rng.randint(1, 5)
    base = [rng.choice(NUMERIC) for _ in range(n)]
    pre = []
    if rng.random() < 0.4:
        pre = frag_delayed(rng, 2)                 # replication before the operator
    out = pre + base

    def bits(k, delayed=False):
        if delayed:
            return [101000, 31001, 31031]
        return [101000 + k, 31031]
    nb = n
    variant = rng.random()
    if variant < 0.35:
        out += [222000, 236000] + bits(nb) + [1031, 1032, rep_count(rng, nb), rng.choice(CLASS33)]
        if rng.random() < 0.6:
            op = rng.choice([224, 223, 225, 232])
            out += [op * 1000, 237000, 1031, 1032, 8023 if op != 225 else 8024, rep_count(rng, nb), op * 1000 + 255]
            if rng.random() < 0.5:
                out += [237255]
    elif variant < 0.6:
        op = rng.choice([224, 223, 225, 232])
        out += [op * 1000, 236000] + bits(nb) + [8023 if op != 225 else 8024, rep_count(rng, nb), op * 1000 + 255]
        if rng.random() < 0.5:
            op2 = rng.choice([224, 225])
            out += [op2 * 1000, 237000, 8023 if op2 != 225 else 8024, rep_count(rng, nb), op2 * 1000 + 255, 237255]
    elif variant < 0.8:
        op = rng.choice([224, 225])
        out += [op * 1000] + bits(nb) + [8023 if op != 225 else 8024, rep_count(rng, nb), op * 1000 + 255]
        out += [235000] + [rng.choice(NUMERIC)] + [224000] + bits(1) + [8023, 101001, 224255]
    else:
        out += [222000] + bits(nb) + [1031, rep_count(rng, nb), 33007]
    return out


FRAGMENTS = [frag_plain, frag_seq, frag_fixed, frag_delayed, frag_201, frag_202, frag_207, frag_203, frag_204, frag_205,
             frag_206, frag_208, frag_221, frag_bitmap]


def fix_bitmap_counts(ids):
    return ids


class Conform(object):
    """Chooses replication counts so that bitmapped value counts equal the number of zero bits: done by generating
    values with the reference walker and retrying on RefError (rejection sampling keeps the generator simple)."""


def gen_template(rng, nfrag=None, only=None):
    nfrag = nfrag or rng.randint(1, 3)
    ids = []
    has_bitmap = False
    for _ in range(nfrag):
        f = rng.choice(only or FRAGMENTS)
        if f is frag_bitmap:
            if has_bitmap:
                continue
            has_bitmap = True
        ids += f(rng)
    if not ids:
        ids = frag_plain(rng)
    return ids


def gen_values(rng, ids, tabs, nsub, compressed, max_rep=3):
    """-> (values per subset, walk info per subset) or raises RefError when the random choices do not conform
    (e.g. more bitmapped values than zero bits)"""
    tree = R.build_tree(ids, tabs)
    if compressed:
        io = GenIO(rng, nsub, True, max_rep=max_rep)
        R.Walker(tabs, io).walk(tree)
        return io.values, [io] * nsub
    vals, infos = [], []
    for _ in range(nsub):
        io = GenIO(rng, 1, False, max_rep=max_rep)
        R.Walker(tabs, io).walk(tree)
        vals.append(io.values[0])
        infos.append(io)
    return vals, infos


def sections_json(edition, ids, values, nsub, compressed, sec2=None, version=VERSION, centre=0, category=0):
    """pybufrkit-style JSON (list of per-section value lists)."""
    s0 = ['BUFR', 0, edition]
    has2 = sec2 is not None
    if edition == 4:
        s1 = [0, 0, centre, 0, 0, has2, '0000000', category, 0, 0, version, 0, 2020, 1, 2, 3, 4, 5]
    elif edition == 3:
        s1 = [0, 0, 0, centre, 0, has2, '0000000', category, 0, version, 0, 20, 1, 2, 3, 4, 0]
    else:
        s1 = [0, 0, centre, 0, has2, '0000000', category, 0, version, 0, 20, 1, 2, 3, 4, 0]
    out = [s0, s1]
    if has2:
        out.append([0, '00000000', sec2])
    out.append([0, '00000000', nsub, True, compressed, '000000', list(ids)])
    out.append([0, '00000000', values])
    out.append(['7777'])
    return out


def gen_message(rng, edition=None, compressed=None, nsub=None, sec2='random', only=None, nfrag=None, tries=60):
    """-> dict(json=..., ids=..., values=..., infos=..., edition, compressed, nsub)"""
    tabs = R.load_tables(VERSION)
    edition = edition or rng.choice([2, 3, 4])
    compressed = rng.random() < 0.5 if compressed is None else compressed
    nsub = nsub or rng.choice([1, 1, 2, 3, 4])
    if sec2 == 'random':
        sec2 = None if rng.random() < 0.6 else ''.join(rng.choice('01') for _ in range(rng.choice([0, 5, 8, 19, 32])))
    for _ in range(tries):
        ids = gen_template(rng, nfrag, only)
        try:
            values, infos = gen_values(rng, ids, tabs, nsub, compressed)
        except R.RefError:
            continue
        return dict(json=sections_json(edition, ids, values, nsub, compressed, sec2), ids=ids, values=values, infos=infos,
                    edition=edition, compressed=compressed, nsub=nsub, sec2=sec2)
    raise RuntimeError('generator could not build a conforming message')


class ForcedIO(GenIO):
    """GenIO whose structural choices (replication factors, bitmap bits) are given"""

    def __init__(self, rng, nsub, compressed, factors=(), bits=()):
        GenIO.__init__(self, rng, nsub, compressed)
        self.f_iter = iter(factors)
        self.b_iter = iter(bits)

    def structural(self, eid, nbits):
        if eid == 31031:
            return [next(self.b_iter)] * self.nsub
        if eid in (31000, 31001, 31002):
            return [next(self.f_iter)] * self.nsub
        return GenIO.structural(self, eid, nbits)


def forced_message(rng, ids, per_subset, compressed=False, edition=4):
    """per_subset: list of (factors, bits) per subset (one entry, shared, when compressed) -> message dict or None"""
    tabs = R.load_tables(VERSION)
    tree = R.build_tree(ids, tabs)
    try:
        if compressed:
            factors, bits = per_subset[0]
            nsub = len(per_subset)
            io = ForcedIO(rng, nsub, True, factors, bits)
            R.Walker(tabs, io).walk(tree)
            values = io.values
        else:
            values = []
            for factors, bits in per_subset:
                io = ForcedIO(rng, 1, False, factors, bits)
                R.Walker(tabs, io).walk(tree)
                values.append(io.values[0])
            nsub = len(per_subset)
    except (R.RefError, StopIteration):
        return None
    return dict(json=sections_json(edition, ids, values, nsub, compressed), ids=list(ids), values=values, edition=edition,
                compressed=compressed, nsub=nsub, sec2=None)
