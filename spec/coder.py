"""Spec functions for pybufrkit/coder.py, transcribed from the property statements (C01, C06, C07)."""


def registers_initial(s):
    """C06: every subset is a fresh application of the template -- the operator and bitmap registers a new CoderState has"""
    return (s.nbits_offset == 0 and s.scale_offset == 0 and s.nbits_of_new_refval == 0 and dsize(s.new_refvals) == 0
            and len(s.nbits_of_associated) == 0 and s.nbits_of_skipped_local_descriptor == 0
            and s.bsr_modifier[0] == 0 and s.bsr_modifier[1] == 0 and s.bsr_modifier[2] == 1
            and s.new_nbytes == 0 and s.data_not_present_count == 0 and s.status_qa_info_follows == 0
            and s.bitmap is None and s.bitmapped_descriptors is None and s.bitmap_definition_state == 0
            and s.most_recent_bitmap_is_for_reuse == False and s.n_031031 == 0 and s.next_bitmapped_descriptor is None
            and s.back_reference_boundary == 0 and s.back_referenced_descriptors is None)
