"""L7: abstract model of the parts of `bitstring` 4.4 that pybufrkit.bitops uses.

One source, two uses:
 * PyVC executes these functions symbolically (inlined at the library call sites of bitops.py);
   the primitives U / app / splice / Bst / appb / Bin / appbin / binval / pow2 are then SMT terms;
 * CPython executes them natively on `MStream` objects (lists of bits) in the conformance run
   (bounded/conformance_bitstring.py), which compares every outcome with the real library for
   every width 1..64, every offset 0..7 and the special values.

Exceptions: bitstring raises ReadError (a bitstring.Error) when the stream is too short, and plain
ValueError (InterpretError / CreationError are ValueError subclasses in 4.x) for zero or negative
widths, byte-alignment violations and out-of-range values.
"""


class ReadError(Exception):
    pass


# ---- native primitives (never executed symbolically: the engine maps them to SMT terms) -------

def pow2(n):
    return 2 ** n


def U(bits, p, n):
    v = 0
    for i in range(n):
        v = v * 2 + bits[p + i]
    return v


def app(bits, l, n, v):
    return list(bits[:l]) + [(v >> (n - 1 - i)) & 1 for i in range(n)]


def splice(bits, a, b, n2, v2):
    return list(bits[:a]) + [(v2 >> (n2 - 1 - i)) & 1 for i in range(n2)] + list(bits[b:])


def Bst(bits, p, n):
    return bytes(U(bits, p + 8 * i, 8) for i in range(n))


def appb(bits, l, s):
    out = list(bits[:l])
    for c in s:
        out += [(c >> (7 - i)) & 1 for i in range(8)]
    return out


def Bin(bits, p, n):
    return ''.join(str(bits[p + i]) for i in range(n))


def appbin(bits, l, s):
    return list(bits[:l]) + [int(c) for c in s]


def is_binstr(s):
    return all(c in '01' for c in s)


class MStream(object):
    def __init__(self, bits=(), pos=0):
        self.bits = list(bits)
        self.len = len(self.bits)
        self.pos = pos


class MBits(object):
    def __init__(self, n, v):
        self.len = n
        self.val = v


# ---- the model proper (verified subset of Python) ----------------------------------------------

def bs_read_uint(stream, kind, n):
    if n <= 0:
        raise ValueError
    if kind == 'uintbe' and n % 8 != 0:
        raise ValueError
    if stream.pos + n > stream.len:
        raise ReadError
    v = U(stream.bits, stream.pos, n)
    stream.pos = stream.pos + n
    return v


def bs_read_bool(stream):
    if stream.pos + 1 > stream.len:
        raise ValueError
    v = U(stream.bits, stream.pos, 1)
    stream.pos = stream.pos + 1
    return v == 1


def bs_read_bytes(stream, n):
    if n < 0:
        raise ValueError
    if stream.pos + 8 * n > stream.len:
        raise ReadError
    v = Bst(stream.bits, stream.pos, n)
    stream.pos = stream.pos + 8 * n
    return v


def bs_read_bin(stream, n):
    if n < 0:
        raise ValueError
    if stream.pos + n > stream.len:
        raise ReadError
    v = Bin(stream.bits, stream.pos, n)
    stream.pos = stream.pos + n
    return v


def bs_append_uint(stream, kind, n, v):
    if n <= 0:
        raise ValueError
    if kind == 'uintbe' and n % 8 != 0:
        raise ValueError
    if v < 0 or v >= pow2(n):
        raise ValueError
    stream.bits = app(stream.bits, stream.len, n, v)
    stream.len = stream.len + n


def bs_append_bool(stream, v):
    stream.bits = app(stream.bits, stream.len, 1, 1 if v else 0)
    stream.len = stream.len + 1


def bs_append_bin(stream, n, s):
    if n < 0 or n != len(s) or not is_binstr(s):
        raise ValueError
    stream.bits = appbin(stream.bits, stream.len, s)
    stream.len = stream.len + n


def bs_append_bytes(stream, s):
    stream.bits = appb(stream.bits, stream.len, s)
    stream.len = stream.len + 8 * len(s)


def bits_uint(kind, v, n):
    """bitstring.Bits(uint=v, length=n) / Bits(uintbe=v, length=n) -> (n, v)"""
    if n <= 0:
        raise ValueError
    if kind == 'uintbe' and n % 8 != 0:
        raise ValueError
    if v < 0 or v >= pow2(n):
        raise ValueError
    return MBits(n, v)


def bs_setslice(stream, a, b, bins):
    """stream[a:b] = bins for 0 <= a <= b <= len (the only way bitops calls it)."""
    stream.bits = splice(stream.bits, a, b, bins.len, bins.val)
    stream.len = stream.len - (b - a) + bins.len
