"""Abstraction functions from bitops reader / writer objects to the bit-stream model (L7)."""


def rpos(r):
    return r.bit_stream.pos


def rlen(r):
    return r.bit_stream.len


def rbits(r):
    return r.bit_stream.bits


def wlen(w):
    return w.bit_stream.len


def wbits(w):
    return w.bit_stream.bits
