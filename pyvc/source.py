"""Extraction of the real source: every run re-reads /repo (or $PYVC_REPO).

The functions under contract are located by qualified name in the parsed module;
nothing is copied by hand.  `normalise` drops exactly what DESIGN.md 3.1 lists:
docstrings, log.* expression statements, function-local imports, `print(...)` to
stderr/stdout expression statements.  Module-level constants (NAME = literal) are
collected so that names such as NBITS_PER_BYTE or STATE_START_ID denote the value the
running code uses.
"""
import ast
import hashlib
import os

REPO = os.environ.get('PYVC_REPO', '/repo')


class FuncInfo(object):
    def __init__(self, module, qualname, node, cls, src):
        self.module = module          # 'pybufrkit.bitops'
        self.qualname = qualname      # 'pybufrkit.bitops.BitStringBitReader.read_uint'
        self.node = node              # ast.FunctionDef (normalised)
        self.cls = cls                # class name or None
        self.src = src                # source segment
        self.sha = hashlib.sha256(src.encode()).hexdigest()
        self.decorators = [ast.unparse(d) for d in node.decorator_list]

    @property
    def argnames(self):
        a = self.node.args
        return [x.arg for x in a.posonlyargs + a.args]

    @property
    def defaults(self):
        a = self.node.args
        names = self.argnames
        ds = a.defaults
        return dict(zip(names[len(names) - len(ds):], ds))


class ModuleInfo(object):
    def __init__(self, name, path):
        self.name = name
        self.path = path
        with open(path) as f:
            self.text = f.read()
        self.tree = ast.parse(self.text)
        self.functions = {}     # local qualname ('Cls.meth' / 'func') -> FuncInfo
        self.classes = {}       # class name -> (bases [str], ast.ClassDef)
        self.constants = {}     # NAME -> python literal value
        self.const_exprs = {}   # NAME -> ast expr (non-literal module-level assignments)
        self.imports = {}       # local name -> 'module.attr' or 'module'
        self._scan()

    def _scan(self):
        for node in self.tree.body:
            if isinstance(node, (ast.FunctionDef,)):
                self._add_func(node, None)
            elif isinstance(node, ast.ClassDef):
                bases = [ast.unparse(b) for b in node.bases]
                self.classes[node.name] = (bases, node)
                for sub in node.body:
                    if isinstance(sub, ast.FunctionDef):
                        self._add_func(sub, node.name)
                    elif isinstance(sub, ast.Assign) and len(sub.targets) == 1 and isinstance(sub.targets[0], ast.Name):
                        self.const_exprs[node.name + '.' + sub.targets[0].id] = sub.value
            elif isinstance(node, ast.Assign) and len(node.targets) == 1 and isinstance(node.targets[0], ast.Name):
                name = node.targets[0].id
                try:
                    self.constants[name] = ast.literal_eval(node.value)
                except Exception:
                    self.const_exprs[name] = node.value
            elif isinstance(node, ast.ImportFrom):
                for a in node.names:
                    self.imports[a.asname or a.name] = (node.module or '') + '.' + a.name
            elif isinstance(node, ast.Import):
                for a in node.names:
                    self.imports[a.asname or a.name] = a.name

    def _add_func(self, node, cls):
        src = ast.get_source_segment(self.text, node) or ''
        local = (cls + '.' if cls else '') + node.name
        # keep the first definition of a property getter; setters are separate
        key = local
        decos = [ast.unparse(d) for d in node.decorator_list]
        if any(d.endswith('.setter') for d in decos):
            key = local + '$setter'
        self.functions[key] = FuncInfo(self.name, self.name + '.' + key, normalise(node), cls, src)


class DropLogging(ast.NodeTransformer):
    """Remove statements that have no effect on verified state (DESIGN 3.1, L13)."""

    def _is_dropped_expr(self, node):
        if not isinstance(node, ast.Expr):
            return False
        v = node.value
        if isinstance(v, ast.Constant) and isinstance(v.value, str):
            return True          # docstring / stray string
        if isinstance(v, ast.Call) and isinstance(v.func, ast.Attribute) and isinstance(v.func.value, ast.Name) \
                and v.func.value.id == 'log' and v.func.attr in ('debug', 'info', 'warning', 'error'):
            return True
        if isinstance(v, ast.Call) and isinstance(v.func, ast.Name) and v.func.id == 'print':
            return True
        return False

    def _filter(self, body):
        out = []
        for s in body:
            if self._is_dropped_expr(s):
                continue
            if isinstance(s, (ast.Import, ast.ImportFrom)):
                continue
            out.append(self.visit(s))
        return out

    def generic_visit(self, node):
        for field in ('body', 'orelse', 'finalbody'):
            if hasattr(node, field) and isinstance(getattr(node, field), list):
                new = self._filter(getattr(node, field))
                if field == 'body' and not new:
                    new = [ast.Pass()]
                setattr(node, field, new)
        if isinstance(node, ast.Try):
            for h in node.handlers:
                h.body = self._filter(h.body) or [ast.Pass()]
        return node


def normalise(funcdef):
    import copy
    node = copy.deepcopy(funcdef)
    DropLogging().visit(node)
    return node


class SourceDB(object):
    def __init__(self, repo=None):
        self.repo = repo or REPO
        self.modules = {}

    def module(self, name):
        if name not in self.modules:
            root = self.repo
            if name.split('.')[0] in ('spec',):
                root = os.path.dirname(os.path.dirname(os.path.abspath(__file__)))
            path = os.path.join(root, *name.split('.')) + '.py'
            if not os.path.exists(path):
                path = os.path.join(root, *name.split('.'), '__init__.py')
            self.modules[name] = ModuleInfo(name, path)
        return self.modules[name]

    def function(self, qualname):
        """qualname = 'pybufrkit.mod.Class.meth' or 'pybufrkit.mod.func'. Returns None if absent."""
        parts = qualname.split('.')
        for k in (2, 1):          # module may be 'pybufrkit.x' (k=2) or 'pybufrkit' (k=1)
            modname = '.'.join(parts[:k])
            local = '.'.join(parts[k:])
            try:
                m = self.module(modname)
            except (IOError, OSError):
                continue
            if local in m.functions:
                return m.functions[local]
        return None

    def constant(self, modname, name, _depth=0):
        """Resolve a module-level constant, following `from x import NAME` chains."""
        m = self.module(modname)
        if name in m.constants:
            return True, m.constants[name]
        if name in m.imports and _depth < 4:
            target = m.imports[name]
            tm, _, tn = target.rpartition('.')
            if tm.startswith('pybufrkit'):
                try:
                    return self.constant(tm, tn, _depth + 1)
                except (IOError, OSError):
                    pass
        return False, None
