"""Discharging obligations: one SMT query per obligation, z3 first, cvc5 on `unknown`, process pool."""
import multiprocessing
import os
import re
import subprocess
import tempfile
import time

CVC5 = '/usr/bin/cvc5'


def _z3_check(smt2, timeout_ms, want_model):
    import z3
    ctx = z3.Context()
    s = z3.Solver(ctx=ctx)
    s.set('timeout', timeout_ms)
    try:
        s.from_string(smt2)
    except z3.Z3Exception as ex:
        return 'error', 'z3 parse: %s' % ex, None
    t0 = time.time()
    r = s.check()
    dt = time.time() - t0
    if r == z3.unsat:
        return 'unsat', '', None
    if r == z3.sat:
        model = {}
        m = s.model()
        # z3's sequence solver occasionally answers sat with an assignment that does not satisfy the
        # query (uninterpreted functions over strings).  A model that falsifies a quantifier-free
        # assertion is no counterexample: report `unknown` and let cvc5 decide.
        unvalidated = False
        try:
            for a in s.assertions():
                if _has_quant(z3, a):
                    continue
                v = z3.simplify(m.eval(a, model_completion=True))
                if z3.is_false(v):
                    return 'unknown', 'z3 sat with a model that falsifies an assertion (spurious)', None
                if not z3.is_true(v):
                    unvalidated = True        # e.g. a regular-expression membership the evaluator cannot decide
        except z3.Z3Exception:
            unvalidated = True
        if unvalidated:
            model = {}
            for d in m.decls():
                if d.arity() == 0:
                    try:
                        model[d.name()] = m[d].sexpr()
                    except Exception:
                        pass
            return 'sat?', 'z3 sat, model not fully validated', model
        if want_model:
            for d in m.decls():
                if d.arity() == 0:
                    try:
                        model[d.name()] = m[d].sexpr()
                    except Exception:
                        pass
        return 'sat', '', model
    return 'unknown', s.reason_unknown(), None


def _has_quant(z3, e):
    seen = set()
    stack = [e]
    while stack:
        x = stack.pop()
        if x.get_id() in seen:
            continue
        seen.add(x.get_id())
        if z3.is_quantifier(x):
            return True
        stack.extend(x.children())
    return False


def _cvc5_check(smt2, timeout_ms, want_model):
    text = smt2
    if '(set-logic' not in text:
        text = '(set-logic ALL)\n' + text
    if want_model:
        text = text.replace('(check-sat)', '(check-sat)\n(get-model)')
    fd, path = tempfile.mkstemp(suffix='.smt2', prefix='pyvc_')
    try:
        with os.fdopen(fd, 'w') as f:
            f.write(text)
        args = [CVC5, '--strings-exp', '--tlimit=%d' % timeout_ms, '--produce-models' if want_model else '--no-produce-models', path]
        try:
            p = subprocess.run(args, capture_output=True, text=True, timeout=timeout_ms / 1000.0 + 5)
        except subprocess.TimeoutExpired:
            return 'unknown', 'cvc5 timeout', None
        out = p.stdout.strip()
        first = out.splitlines()[0].strip() if out else ''
        if first == 'unsat':
            return 'unsat', '', None
        if first == 'sat':
            model = {}
            for m in re.finditer(r'\(define-fun\s+(\S+)\s+\(\)\s+\S+\s+(.*?)\)\s*$', out, re.M):
                model[m.group(1).strip('|')] = m.group(2)
            return 'sat', '', model
        return 'unknown', (p.stderr or out)[:300], None
    finally:
        try:
            os.unlink(path)
        except OSError:
            pass


def solve_one(job):
    """job = (oid, smt2, expect_sat, z3_timeout_ms, cvc5_timeout_ms, both) -> result dict"""
    oid, smt2, expect_sat, t_z3, t_cvc5, both, relaxed = job
    t0 = time.time()
    res, reason, model = _z3_check(smt2, t_z3, True)
    backend = 'z3'
    agree = None
    if res == 'sat?':
        # z3 reports a counterexample it cannot fully evaluate (strings / regular expressions): cvc5 decides
        z3_model = model
        r2, reason2, model2 = _cvc5_check(smt2, t_cvc5 or 20000, True)
        if r2 == 'unsat':
            res, reason, model, backend = 'unsat', 'z3 reported an unvalidated model; cvc5 proves unsat', None, 'cvc5'
        elif r2 == 'sat':
            res, reason, model, backend = 'sat', '', model2 or z3_model, 'cvc5'
        else:
            res, reason, model = 'unknown', 'z3: unvalidated sat; cvc5: %s' % reason2, None
    if res in ('unknown', 'error') and t_cvc5 > 0 and backend == 'z3' and 'unvalidated' not in (reason or ''):
        r2, reason2, model2 = _cvc5_check(smt2, t_cvc5, True)
        if r2 in ('sat', 'unsat'):
            res, reason, model, backend = r2, reason2, model2, 'cvc5'
        else:
            reason = 'z3: %s; cvc5: %s' % (reason, reason2)
    elif both and t_cvc5 > 0 and res in ('sat', 'unsat'):
        r2, reason2, _ = _cvc5_check(smt2, t_cvc5, False)
        agree = (r2 == res) if r2 in ('sat', 'unsat') else None
        if agree is False:
            res, reason = 'disagree', 'z3 says %s, cvc5 says %s' % (res, r2)
    candidate = False
    if res not in ('sat', 'unsat') and relaxed and not expect_sat:
        # No verdict on the full query.  Look for a *candidate* counterexample of the query without its
        # quantified hypotheses; it only counts if it replays on the real code (never a proof, never a
        # refutation by itself).
        r3, _, model3 = _z3_check(relaxed, min(t_z3, 5000), True)
        if r3 == 'sat':
            candidate = True
            model = model3
    dt = time.time() - t0
    if res == 'unsat':
        verdict = 'proved' if not expect_sat else 'vacuous'
    elif res == 'sat':
        verdict = 'refuted' if not expect_sat else 'proved'
    elif res == 'disagree':
        verdict = 'unknown'
    else:
        verdict = 'unknown'
    return {'oid': oid, 'verdict': verdict, 'backend': backend, 'time': dt, 'reason': reason,
            'model': model if (verdict == 'refuted' or candidate) else None, 'agree': agree, 'candidate': candidate}


def solve_all(obligations, z3_timeout_ms=10000, cvc5_timeout_ms=20000, both=False, procs=None):
    jobs = []
    for ob in obligations:
        full = ob.smt2()
        rel = ob.smt2(relaxed=True)
        jobs.append((ob.oid, full, ob.expect_sat, z3_timeout_ms, cvc5_timeout_ms, both, rel if rel != full else None))
    procs = procs or min(16, max(1, len(jobs)))
    if not jobs:
        return []
    if procs == 1 or len(jobs) == 1:
        results = [solve_one(j) for j in jobs]
    else:
        ctx = multiprocessing.get_context('fork')
        with ctx.Pool(procs) as pool:
            results = pool.map(solve_one, jobs, chunksize=1)
    by = {r['oid']: r for r in results}
    for ob in obligations:
        r = by[ob.oid]
        ob.verdict = r['verdict']
        ob.backend = r['backend']
        ob.time = r['time']
        ob.reason = r['reason']
        ob.model = r['model']
        ob.agree = r.get('agree')
        ob.candidate = r.get('candidate', False)
    return results
