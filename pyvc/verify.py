"""Function-level verification: entry state from the contract, symbolic execution of the real body,
obligations for every exit (post / raises / must-raise / frame / cover)."""
import ast
import z3

from .ty import (INT, BOOL, STR, BYTES, FLOAT, NONE, VAL, ANYFUNC, Ref, ListT, DictT, TupleT,
                 Val, sort_of, sort_key, is_reflike)
from . import engine as E
from .engine import SV, Exc, Unsupported, CLS, I, B, S, fresh, Ctx, State, Engine
from .execute import ExecMixin


class Verifier(ExecMixin, Engine):

    def __init__(self, *a, **kw):
        Engine.__init__(self, *a, **kw)
        self.assumed_inputs = set()
        # ghost fields declared in the class table are addressable as locations: ghost(obj, 'name')
        for info in self.classes.values():
            for gname, srt in info.get('ghosts', {}).items():
                self.ghost_sorts[gname] = srt

    def entry_state(self, c, fi):
        st = State()
        ctx = Ctx(self, c, fi)
        if fi is None:
            ctx.module = c.target.rsplit('.', 1)[0]
        inputs = {}
        for n, t in c.params.items():
            z = z3.Const('in!' + n, sort_of(t))
            sv = SV(t, z)
            st.locals[n] = sv
            inputs[n] = (t, z)
            if is_reflike(t):
                nullable = n in getattr(c, 'nullable', ())
                st.assume(z3.And(z >= (0 if nullable else 1), z < st.alloc))
                if isinstance(t, Ref):
                    self.type_fact(st, sv)
                if isinstance(t, ListT):
                    st.assume(self.list_len(st, sv) >= 0)
                self.coll_fact(st, t, z)
        for n, t in c.ghost.items():
            z = z3.Const('gh!' + n, sort_of(t))
            ctx.bound[n] = SV(t, z)
            inputs['ghost:' + n] = (t, z)
        st.assume(st.alloc > 0)
        return st, ctx, inputs

    def verify(self, c):
        """Generate the obligations of one contract. Returns the list of new obligations; raises
        Unsupported when the function is outside the subset."""
        start = len(self.obligations)
        self._current = c
        if c.lemma:
            return self.verify_lemma(c)
        fi = self.db.function(c.target)
        if fi is None:
            raise Unsupported('contract target %s not found in the source tree' % c.target)
        st, ctx, inputs = self.entry_state(c, fi)
        sctx = self.spec_ctx(ctx, bound=ctx.bound)
        for rq in c.requires:
            st.assume(self.spec_bool(rq, st, sctx))
        # vacuity guard: the precondition is satisfiable
        self.emit(ctx, st, 'cover', 'requires', B(True), expect_sat=True, note='requires satisfiable')
        pre = st.fork()
        ctx.pre_state = pre
        for pname, gname in getattr(c, 'counts', ()):
            obj = st.locals[pname]
            srt = self.ghost_sorts[gname]
            self.set_ghost(st, gname, srt, obj.z, self.get_ghost(st, gname, srt, obj.z) + 1)
        # contracts speak about the values the parameters had on entry (the body may rebind them)
        entry_bound = dict(ctx.bound)
        for n in c.params:
            entry_bound[n] = pre.locals[n]
        outs = list(self.exec_block(fi.node.body, st, ctx))
        ctx_bound_saved = ctx.bound
        ctx.bound = entry_bound
        raised = ctx.sinks[0]
        n_normal = 0
        locs = None
        for s1, flow in outs:
            if flow is not None and flow[0] not in ('return',):
                raise Unsupported('break/continue escaping function body')
            res = flow[1] if flow is not None else self.lit(None)
            if c.returns is not None:
                try:
                    res = self.coerce(res, c.returns)
                except Unsupported as ex:
                    raise Unsupported('return value of %s: %s' % (c.target, ex))
            n_normal += 1
            if n_normal <= 2:
                # vacuity guard: this exit is reachable (path condition satisfiable)
                self.emit(ctx, s1, 'cover', 'exit%d' % n_normal, B(True), expect_sat=True, note='normal exit reachable')
            pctx = self.spec_ctx(ctx, old_state=pre, result=res, bound=ctx.bound)
            for i, ens in enumerate(c.ensures):
                g = self.spec_bool(ens, s1, pctx)
                self.emit(ctx, s1, 'post', str(i), g, note=ens)
            for cname, when, enss in c.cases:
                w = self.spec_bool(when, pre.fork(), pctx)
                # a case whose guard contradicts this path holds trivially: no obligation is generated for it
                probe = s1.fork()
                probe.assume(w)
                if not self.feasible(probe):
                    continue
                for i, ens in enumerate(enss):
                    g = self.spec_bool(ens, s1, pctx)
                    self.emit(ctx, s1, 'post', '%s.%d' % (cname, i), z3.Implies(w, g), note='%s: %s' % (cname, ens))
            for cls, cond in c.must_raise:
                g = z3.Not(self.spec_bool(cond, pre.fork(), pctx))
                self.emit(ctx, s1, 'raises', 'must.' + cls, g, note='returns normally although %s demands %s' % (cond, cls))
            locs = self.resolve_locs(c.modifies, pre.fork(), pctx)
            for key, goal in self.frame_goal(pre, s1, locs):
                self.emit(ctx, s1, 'frame', E.key_name(key), goal, note='writes outside modifies')
        for s1, exc in raised:
            allowed = [(cls, cond) for cls, cond in list(c.raises.items()) + list(c.must_raise)
                       if self.is_subclass(exc.cls, cls)]
            pctx = self.spec_ctx(ctx, old_state=pre, bound=ctx.bound)
            if not allowed:
                self.emit(ctx, s1, 'raises', 'unexpected.' + exc.cls, B(False),
                          note='%s may escape; the contract allows only %s' % (exc.cls, sorted(set(list(c.raises) + [m[0] for m in c.must_raise]))))
            else:
                conds = []
                for cls, cond in allowed:
                    conds.append(B(True) if cond is None else self.spec_bool(cond, pre.fork(), pctx))
                self.emit(ctx, s1, 'raises', 'cond.' + exc.cls, z3.Or(conds), note='%s escapes outside its stated condition' % exc.cls)
            for cls, cond in c.must_raise:
                if not self.is_subclass(exc.cls, cls):
                    g = z3.Not(self.spec_bool(cond, pre.fork(), pctx))
                    self.emit(ctx, s1, 'raises', 'must.%s.got.%s' % (cls, exc.cls), g)
            for cls, enss in c.exc_ensures.items():
                if self.is_subclass(exc.cls, cls):
                    for i, ens in enumerate(enss):
                        self.emit(ctx, s1, 'post', 'exc.%s.%d' % (cls, i), self.spec_bool(ens, s1, pctx), note=ens)
        if c.ensures or c.cases:
            if n_normal == 0:
                self.emit(ctx, pre, 'cover', 'normal_exit', B(False), expect_sat=True, note='no normal exit reachable')
        new = self.obligations[start:]
        for ob in new:
            ob.inputs = inputs
            ob.sha = fi.sha
        return new

    def verify_lemma(self, c):
        start = len(self.obligations)
        st, ctx, inputs = self.entry_state(c, None)
        sctx = self.spec_ctx(ctx, bound=ctx.bound)
        sctx.module = None
        for rq in c.requires:
            st.assume(self.spec_bool(rq, st, sctx))
        self.emit(ctx, st, 'cover', 'requires', B(True), expect_sat=True)
        for i, ens in enumerate(c.ensures):
            self.emit(ctx, st, 'lemma', str(i), self.spec_bool(ens, st.fork(), sctx), note=ens)
        new = self.obligations[start:]
        for ob in new:
            ob.inputs = inputs
            ob.sha = ''
        return new
