"""Static types of the verified Python subset and their z3 sorts.

Every symbolic value (SV) has one of these types.  References (objects, lists,
dicts) are z3 Ints (object identities, 0 == None); their contents live in heap
maps (see heap.py).  `Val` is a tagged union for values whose run-time type
varies (decoded values: None / int / float / bytes / text).
"""
import z3


class Ty(object):
    def __eq__(self, other):
        return type(self) is type(other) and self.__dict__ == other.__dict__

    def __ne__(self, other):
        return not self.__eq__(other)

    def __hash__(self):
        return hash(repr(self))


class Prim(Ty):
    def __init__(self, name):
        self.name = name

    def __repr__(self):
        return self.name


INT = Prim('int')
BOOL = Prim('bool')
STR = Prim('str')
BYTES = Prim('bytes')
FLOAT = Prim('float')
NONE = Prim('none')
VAL = Prim('val')
REAL = Prim('real')        # mathematical real (only in lemmas about quantisation, C03)
ANYFUNC = Prim('func')     # python-level callable, never stored in the heap


class Ref(Ty):
    """Reference to an instance of class `cls` (or a subclass); 0 is None."""

    def __init__(self, cls):
        self.cls = cls

    def __repr__(self):
        return 'Ref(%s)' % self.cls


class ListT(Ty):
    def __init__(self, elem):
        self.elem = elem

    def __repr__(self):
        return 'List[%r]' % (self.elem,)


class DictT(Ty):
    def __init__(self, key, val):
        self.key = key
        self.val = val

    def __repr__(self):
        return 'Dict[%r,%r]' % (self.key, self.val)


class TupleT(Ty):
    def __init__(self, *elems):
        self.elems = tuple(elems)

    def __eq__(self, other):
        # field names of a namedtuple (`names`) are a convenience for attribute access, not part of the type
        return type(self) is type(other) and self.elems == other.elems

    def __hash__(self):
        return hash(repr(self))

    def __repr__(self):
        return 'Tuple[%s]' % ','.join(repr(e) for e in self.elems)


# ---------------------------------------------------------------------------------
# z3 sorts

Fl = z3.DeclareSort('Fl')          # Python float, uninterpreted (L4)

_Val = z3.Datatype('Val')
_Val.declare('vnone')
_Val.declare('vint', ('ival', z3.IntSort()))
_Val.declare('vflt', ('fval', Fl))
_Val.declare('vbyt', ('bval', z3.StringSort()))
_Val.declare('vtxt', ('tval', z3.StringSort()))
_Val.declare('vbool', ('oval', z3.BoolSort()))
_Val.declare('vref', ('rval', z3.IntSort()))        # identity of an object / list / dict held in a dynamically typed slot
Val = _Val.create()

_tuple_sorts = {}


def is_reflike(ty):
    return isinstance(ty, (Ref, ListT, DictT))


def sort_of(ty):
    if ty == INT or is_reflike(ty):
        return z3.IntSort()
    if ty == BOOL:
        return z3.BoolSort()
    if ty in (STR, BYTES):
        return z3.StringSort()
    if ty == FLOAT:
        return Fl
    if isinstance(ty, Prim) and ty.name == 'real':
        return z3.RealSort()
    if ty == VAL:
        return Val
    if ty == NONE:
        return z3.IntSort()
    if isinstance(ty, Prim) and ty.name == 'bits':
        return z3.ArraySort(z3.IntSort(), z3.IntSort())
    if isinstance(ty, Prim) and ty.name == 'class':
        return z3.IntSort()
    if isinstance(ty, TupleT):
        return tuple_sort(ty)
    raise TypeError('no z3 sort for %r' % (ty,))


def tuple_sort(ty):
    key = repr(ty)
    if key not in _tuple_sorts:
        name = 'Tup_' + '_'.join(sort_key(e) for e in ty.elems)
        dt = z3.Datatype(name)
        dt.declare('mk_' + name, *[('%s_%d' % (name, i), sort_of(e)) for i, e in enumerate(ty.elems)])
        _tuple_sorts[key] = dt.create()
    return _tuple_sorts[key]


def sort_key(ty):
    """Name used in heap-map keys: objects of different keys never alias."""
    if ty == INT:
        return 'I'
    if ty == BOOL:
        return 'B'
    if ty in (STR, BYTES):
        return 'S'
    if ty == FLOAT:
        return 'F'
    if isinstance(ty, Prim) and ty.name == 'real':
        return 'Q'
    if ty == VAL:
        return 'V'
    if ty == NONE:
        return 'N'
    if isinstance(ty, Prim) and ty.name == 'bits':
        return 'X'
    if isinstance(ty, Prim) and ty.name == 'class':
        return 'C'
    if isinstance(ty, Ref):
        return 'R'
    if isinstance(ty, ListT):
        return 'L' + sort_key(ty.elem)
    if isinstance(ty, DictT):
        return 'D' + sort_key(ty.key) + sort_key(ty.val)
    if isinstance(ty, TupleT):
        return 'T' + ''.join(sort_key(e) for e in ty.elems) + 'E'
    raise TypeError(ty)
