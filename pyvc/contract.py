"""Contract data structures (the sidecar specification language).

All expressions are *Python expressions* given as strings; they are parsed with `ast`
and evaluated by the same symbolic evaluator that executes the code (engine.py), in
"spec mode": no side effects, `old(e)`, `result`, `forall(i, lo, hi, body)`,
`exists(i, lo, hi, body)`, `implies(a, b)`, `ite(c, a, b)` and the spec functions of
/verif/spec are available.
"""
from collections import OrderedDict


class Loop(object):
    def __init__(self, invariants=(), modifies=(), locals=None, note='', steps=(), raise_steps=None):
        self.invariants = list(invariants)
        # step contract: two-state clauses over one arbitrary iteration; old(e) is e at the start of the iteration
        self.steps = list(steps)
        # raise_steps: {ExcClass: [clauses]}: two-state clauses that must hold when an arbitrary iteration leaves the loop by
        # raising an instance of ExcClass (old(e) = e at the start of that iteration); a class raised by the body and not
        # listed is unconstrained here (the function's `raises` clause still applies)
        self.raise_steps = dict(raise_steps or {})
        self.modifies = list(modifies)       # location specs havocked by the loop cut
        self.locals = dict(locals or {})     # types of locals first assigned inside the loop
        self.note = note


class Contract(object):
    def __init__(self, target, params, returns=None, requires=(), ensures=(), modifies=(),
                 raises=None, must_raise=(), loops=None, locals=None, serves=(), ghost=None,
                 implicit='check', trusted=False, inline=False, harness=None, note='',
                 cases=None, on_raise=None, pure=False, lemma=False, body=None,
                 interface_of=None, exc_ensures=None, checks=None, variant='', nullable=(), fresh_result=False, counts=(), allocates=(), assume_input=False):
        self.target = target
        self.params = OrderedDict(params)
        self.returns = returns
        # a clause written '@input <expr>' is a well-formedness condition on the INPUT DATA (template / values) that no state invariant
        # of the caller can establish (e.g. "a marker operator finds a zero bit left in the current bitmap"): the callee is verified
        # under it like under any precondition; a caller whose contract sets `assume_input` may assume it at the call instead of
        # proving it (each such clause is listed in the evidence as an assumption) -- real code raises there (ill-formed message)
        self.input_requires = [r[len('@input '):].strip() for r in requires if r.startswith('@input ')]
        self.requires = [r[len('@input '):].strip() if r.startswith('@input ') else r for r in requires]
        self.ensures = list(ensures)
        self.modifies = list(modifies)
        # raises: {ExcClass: condition-in-pre-state or None}: the only classes that may escape;
        # when a condition is given the exception may escape only if it held on entry.
        self.raises = dict(raises or {})
        # must_raise: [(ExcClass, cond)]: if cond held on entry the call does not return normally
        # and the escaping exception is an instance of ExcClass.
        self.must_raise = list(must_raise)
        self.loops = dict(loops or {})
        self.locals = dict(locals or {})
        self.serves = list(serves)
        self.ghost = OrderedDict(ghost or {})
        self.implicit = implicit              # 'check' | 'assume'
        self.trusted = trusted                # library / language model: used at calls, not verified
        self.inline = inline                  # callers execute the body instead of using the contract
        self.harness = harness
        self.note = note
        self.cases = list(cases or [])        # [(name, when, [ensures])] guarded postconditions
        self.exc_ensures = dict(exc_ensures or {})   # {ExcClass: [post-state facts on that exit]}
        self.pure = pure
        self.lemma = lemma                    # pure formula: requires => ensures, no code
        self.body = body
        self.interface_of = interface_of
        self.checks = checks
        self.variant = variant          # '' = the contract callers use; other variants re-verify the body under other static types
        self.nullable = tuple(nullable)
        self.fresh_result = fresh_result
        # counts: [(parameter name, ghost name)]: the integer ghost of that object counts the entries into this function (definitional:
        # incremented when the body is entered; the contract states `== old + 1` and lists the ghost in `modifies`)
        self.counts = list(counts)
        self.assume_input = assume_input
        # allocates: location specs, resolved in the POST state of a call, of objects the callee allocates and initialises (fields of a
        # fresh object reachable through a modified field); at a call site they are havocked after the `modifies` havoc so that the
        # `ensures` can describe them.  Writes to fresh objects need no permission, so the callee's own frame check ignores this list.
        self.allocates = list(allocates)

    @property
    def name(self):
        return self.target + (('@' + self.variant) if self.variant else '')


class Registry(object):
    def __init__(self):
        self.contracts = OrderedDict()
        self.lemmas = OrderedDict()
        self.predicates = OrderedDict()

    def define(self, name, params, body, note=''):
        """Opaque spec predicate: `name(args)` denotes an uninterpreted boolean function of the VALUES of its arguments (an int, a
        bool, an Int->Int array, or -- for a list -- its element array and its length); every evaluation also asserts the
        ground instance `name(args) == body[args]` of its definition.  The body is evaluated over a scratch heap that holds
        nothing but the list arguments, so it is a function of the arguments alone.  Proofs that only need `nothing the predicate
        depends on has changed` go through by congruence without opening the quantifiers inside the body."""
        assert name not in self.predicates, 'duplicate predicate ' + name
        self.predicates[name] = (OrderedDict(params), body, note)

    def add(self, c):
        assert c.name not in self.contracts, 'duplicate contract ' + c.name
        self.contracts[c.name] = c
        return c

    def get(self, target):
        return self.contracts.get(target)

    def serving(self, prop):
        return [c for c in self.contracts.values() if prop in c.serves]
