"""Assemble the verifier: class table, exception table, spec modules, every contract module."""
import importlib
import os
import sys

ROOT = os.path.dirname(os.path.dirname(os.path.abspath(__file__)))
if ROOT not in sys.path:
    sys.path.insert(0, ROOT)

from pyvc.contract import Registry
from pyvc.source import SourceDB
from pyvc.verify import Verifier

CONTRACT_MODULES = ['bitops', 'mdquery', 'script', 'coder', 'decoder', 'encoder', 'lemmas', 'dataquery', 'bufr', 'tables', 'descriptors']
SPEC_MODULES = ['bits', 'coder']


def build(repo=None, modules=None):
    from contracts import classes as K
    db = SourceDB(repo)
    reg = Registry()
    for m in (modules or CONTRACT_MODULES):
        mod = importlib.import_module('contracts.' + m)
        mod.register(reg)
    specs = [importlib.import_module('spec.' + m) for m in SPEC_MODULES]
    opts = {'module_funcs': dict(K.MODULE_FUNCS)}
    opts.update(getattr(K, 'OPTS', {}))
    v = Verifier(db, reg, K.CLASSES, spec_modules=specs, exc_table=K.exception_table(db), opts=opts)
    v.hierarchy_problems = K.check_hierarchy(db, K.CLASSES)
    return v
