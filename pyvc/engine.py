"""PyVC: symbolic executor / verification-condition generator for a Python subset.

Real function bodies (ast, re-read from /repo on every run) are executed forward with
path splitting; loops are cut at sidecar invariants, calls at callee contracts; every
proof obligation is an independent quantifier-light SMT query (see solve.py).
DESIGN.md section 3 describes the semantics assumed.
"""
import ast
import itertools
import z3

from .ty import (INT, BOOL, STR, BYTES, FLOAT, NONE, VAL, REAL, ANYFUNC, Ref, ListT, DictT, TupleT, Prim,
                 Fl, Val, sort_of, sort_key, is_reflike, tuple_sort)
from .contract import Contract, Loop

CLS = Prim('class')
BITS = Prim('bits')       # abstract bit sequence (bit-stream model, L7): Array Int -> Int


class Unsupported(Exception):
    pass


class SV(object):
    __slots__ = ('ty', 'z', 'meta')

    def __init__(self, ty, z, meta=None):
        self.ty = ty
        self.z = z
        self.meta = meta      # python-level structure kept alongside the term (e.g. str.format pieces)

    def __repr__(self):
        return 'SV(%r, %s)' % (self.ty, self.z)


class Exc(object):
    def __init__(self, cls, payload=None):
        self.cls = cls
        self.payload = payload

    def __repr__(self):
        return 'Exc(%s)' % self.cls


# uninterpreted float operations (L4)
f_i2f = z3.Function('i2f', z3.IntSort(), Fl)
f_mul = z3.Function('fmul', Fl, Fl, Fl)
f_div = z3.Function('fdiv', Fl, Fl, Fl)
f_add = z3.Function('fadd', Fl, Fl, Fl)
f_sub = z3.Function('fsub', Fl, Fl, Fl)
f_floordiv = z3.Function('ffloordiv', Fl, Fl, Fl)
f_fmod = z3.Function('ffmod', Fl, Fl, Fl)
f_round = z3.Function('fround', Fl, z3.IntSort())     # int(round(x))
f_trunc = z3.Function('ftrunc', Fl, z3.IntSort())     # int(x)
f_pow10 = z3.Function('fpow10', z3.IntSort(), Fl)     # 1.0 * 10 ** s
f_lt = z3.Function('flt', Fl, Fl, z3.BoolSort())
# string -> int conversion (L3)
s_isint = z3.Function('isintlit', z3.StringSort(), z3.BoolSort())
s_toint = z3.Function('intlit', z3.StringSort(), z3.IntSort())
s_strip = z3.Function('pystrip', z3.StringSort(), z3.StringSort())
s_lstrip = z3.Function('pylstrip', z3.StringSort(), z3.StringSort())
s_rstrip = z3.Function('pyrstrip', z3.StringSort(), z3.StringSort())
strrep_f = z3.Function('strrep', z3.StringSort(), z3.IntSort(), z3.StringSort())      # s * n
pow2_out = z3.Function('pow2_out_of_table', z3.IntSort(), z3.IntSort())
bitlen_f = z3.Function('bitlen', z3.IntSort(), z3.IntSort())
popcount_f = z3.Function('popcount', z3.IntSort(), z3.IntSort())

WHITESPACE = ' \t\n\r\x0b\x0c'

def pystr(zs):
    """Python str of a z3 string literal (as_string() returns the SMT-LIB escaped form)"""
    t = zs.as_string()
    import re as _re
    t = _re.sub(r'\\u\{([0-9a-fA-F]+)\}', lambda m: chr(int(m.group(1), 16)), t)
    t = _re.sub(r'\\x([0-9a-fA-F]{2})', lambda m: chr(int(m.group(1), 16)), t)
    return t


I = z3.IntVal
B = z3.BoolVal
S = z3.StringVal


def pow2_term(n):
    """2**n as a finite table over 0..64 (the true domain, see DESIGN 3.2)."""
    n = z3.simplify(n) if z3.is_expr(n) else I(n)
    if z3.is_int_value(n):
        k = n.as_long()
        if 0 <= k <= 64:
            return I(2 ** k)
    u = pow2_out(n)
    # beyond the table only "2**n > 2**64 for n > 64" is known (sound, deliberately weak)
    t = z3.If(n > 64, I(2 ** 64 + 1) + z3.If(u >= 0, u, -u), u)
    for k in range(64, -1, -1):
        t = z3.If(n == k, I(2 ** k), t)
    return t


def pow10_term(n):
    n = z3.simplify(n) if z3.is_expr(n) else I(n)
    if z3.is_int_value(n) and 0 <= n.as_long() <= 30:
        return I(10 ** n.as_long())
    t = z3.Function('pow10_out_of_table', z3.IntSort(), z3.IntSort())(n)
    for k in range(30, -1, -1):
        t = z3.If(n == k, I(10 ** k), t)
    return t


class State(object):
    _ids = itertools.count()

    def __init__(self):
        self.pc = []
        self.locals = {}
        self.heap = {}
        self.alloc = z3.Int('alloc0')
        self.nalloc = 0
        self.fresh_refs = []      # refs allocated on this path
        self.trace = []
        self.bases = {}           # heap key -> (array that was last havocked / initial, allocation bound then)
        self.havoc_vals = []      # (inner array of a havocked list / dict, allocation bound then)
        self.marks = {}           # named snapshots of this path (e.g. 'exit0': the state in which loop 0 was left)

    def fork(self):
        s = State.__new__(State)
        s.pc = list(self.pc)
        s.locals = dict(self.locals)
        s.heap = dict(self.heap)
        s.alloc = self.alloc
        s.nalloc = self.nalloc
        s.fresh_refs = list(self.fresh_refs)
        s.trace = list(self.trace)
        s.bases = dict(self.bases)
        s.havoc_vals = list(self.havoc_vals)
        s.marks = dict(self.marks)
        return s

    def assume(self, cond):
        if z3.is_true(cond):
            return
        self.pc.append(cond)

    # ---- heap maps ------------------------------------------------------------
    def hget(self, key):
        if key not in self.heap:
            self.heap[key] = base_map(key)
        return self.heap[key]

    def base_of(self, key):
        """(array, bound): every reference stored in `array` is below `bound` (it existed when the array was
        the whole truth about that part of the heap: at entry, or at the last havoc)."""
        if key not in self.bases:
            self.bases[key] = (base_map(key), z3.Int('alloc0'))
        return self.bases[key]

    def set_base(self, key, arr):
        self.bases[key] = (arr, self.alloc + self.nalloc)

    def hset(self, key, arr):
        self.heap[key] = arr


_base_maps = {}


def map_sort(key):
    kind = key[0]
    if kind == 'f':
        return z3.ArraySort(z3.IntSort(), key[3])
    if kind in ('len', 'dsize'):
        return z3.ArraySort(z3.IntSort(), z3.IntSort())
    if kind == 'elems':
        return z3.ArraySort(z3.IntSort(), z3.ArraySort(z3.IntSort(), key[2]))
    if kind == 'dhas':
        return z3.ArraySort(z3.IntSort(), z3.ArraySort(key[3], z3.BoolSort()))
    if kind == 'dval':
        return z3.ArraySort(z3.IntSort(), z3.ArraySort(key[3], key[4]))
    if kind == 'type':
        return z3.ArraySort(z3.IntSort(), z3.IntSort())
    raise KeyError(key)


def key_name(key):
    return '!'.join(str(k) for k in key if not z3.is_sort(k) and not isinstance(k, z3.SortRef))


def base_map(key):
    if key not in _base_maps:
        _base_maps[key] = z3.Const('H0!' + key_name(key), map_sort(key))
    return _base_maps[key]


_fresh = itertools.count()


def fresh(prefix, sort):
    return z3.Const('%s!%d' % (prefix, next(_fresh)), sort)


def uses_fresh_since(exprs, mark, *allowed):
    ok = set(a.get_id() for a in allowed)
    seen = set()
    stack = list(exprs)
    while stack:
        x = stack.pop()
        if x.get_id() in seen:
            continue
        seen.add(x.get_id())
        if z3.is_const(x) and x.decl().kind() == z3.Z3_OP_UNINTERPRETED and x.get_id() not in ok:
            nm = x.decl().name()
            if '!' in nm:
                tail = nm.rsplit('!', 1)[1]
                if tail.isdigit() and int(tail) > mark:
                    return True
        stack.extend(x.children())
    return False


def fkey(field, ty):
    return ('f', field, sort_key(ty) if not is_reflike(ty) else 'R', sort_of(ty))


def lkey(elem):
    return ('len', sort_key(elem))


def ekey(elem):
    return ('elems', sort_key(elem), sort_of(elem))


def dkeys(kt, vt):
    kk, vk = sort_key(kt), sort_key(vt)
    return (('dhas', kk, vk, sort_of(kt)), ('dval', kk, vk, sort_of(kt), sort_of(vt)), ('dsize', kk, vk))


class Obligation(object):
    def __init__(self, oid, kind, func, hyps, goal, note='', expect_sat=False, inputs=None):
        self.oid = oid
        self.kind = kind
        self.func = func
        self.hyps = hyps
        self.goal = goal
        self.note = note
        self.expect_sat = expect_sat     # cover obligations: satisfiable is the good answer
        self.inputs = inputs or {}
        self.verdict = None
        self.model = None
        self.backend = None
        self.time = 0.0
        self.reason = ''

    def smt2(self, relaxed=False):
        s = z3.Solver()
        for h in self.hyps:
            # cover (vacuity) queries look for a model: quantified hypotheses are left out, the answer is a sanity signal
            if (relaxed or self.expect_sat) and has_quantifier(h):
                continue
            s.add(h)
        if not self.expect_sat:
            s.add(z3.Not(self.goal))
        else:
            s.add(self.goal)
        return s.to_smt2()


def has_quantifier(e):
    seen = set()
    stack = [e]
    while stack:
        x = stack.pop()
        if x.get_id() in seen:
            continue
        seen.add(x.get_id())
        if z3.is_quantifier(x):
            return True
        stack.extend(x.children())
    return False


class Ctx(object):
    """Per-activation context."""

    def __init__(self, engine, contract, finfo, spec=False, parent=None):
        self.engine = engine
        self.contract = contract
        self.finfo = finfo
        self.spec = spec
        self.sinks = [[]]          # stack of exception sinks: [(state, Exc)]
        self.module = finfo.module if finfo else None
        self.cls = finfo.cls if finfo else None
        self.loop_ordinal = 0
        self.old_state = None
        self.result = None
        self.bound = {}            # quantifier-bound / ghost names -> SV
        self.depth = 0 if parent is None else parent.depth + 1
        self.handlers = []         # stack of lists of handler class names (for implicit raises)
        self.implicit = (contract.implicit if contract else 'assume')

    def raise_(self, st, exc):
        self.sinks[-1].append((st, exc))


class Engine(object):
    def __init__(self, db, registry, classes, spec_modules=(), exc_table=None, opts=None):
        self.db = db
        self.reg = registry
        self.classes = classes            # name -> dict(bases=[..], fields={name: Ty}, module=..., attr_hook=...)
        self.obligations = []
        self.spec_funcs = {}
        for m in spec_modules:
            self._load_spec_module(m)
        self.exc_table = exc_table or {}
        self.opts = opts or {}
        self.class_ids = {}
        self.warnings = []
        self._prune_solver_timeout = 1500
        self.current = None
        self._oid_counts = {}
        self.unsupported = []

    # ------------------------------------------------------------------------------
    # class table helpers
    def class_id(self, name):
        if name not in self.class_ids:
            self.class_ids[name] = len(self.class_ids) + 1
        return self.class_ids[name]

    def bases(self, cls):
        if cls in self.classes:
            return self.classes[cls].get('bases', [])
        if cls in self.exc_table:
            return self.exc_table[cls]
        return []

    def mro(self, cls):
        out = [cls]
        for b in self.bases(cls):
            for c in self.mro(b):
                if c not in out:
                    out.append(c)
        return out

    def is_subclass(self, a, b):
        return b in self.mro(a)

    def subclasses(self, cls):
        names = list(self.classes) + list(self.exc_table)
        return [c for c in names if self.is_subclass(c, cls)]

    def field_type(self, cls, field):
        for c in self.mro(cls):
            f = self.classes.get(c, {}).get('fields', {})
            if field in f:
                return f[field]
        # a field declared on a subclass is reachable through a base-typed reference
        found = None
        for c in self.subclasses(cls):
            f = self.classes.get(c, {}).get('fields', {})
            if field in f:
                if found is not None and found != f[field]:
                    raise Unsupported('ambiguous field %s on %s' % (field, cls))
                found = f[field]
        return found

    def find_method(self, cls, name):
        """Static resolution along the MRO -> (defining class, FuncInfo) or (None, None)."""
        for c in self.mro(cls):
            info = self.classes.get(c)
            if not info or 'module' not in info:
                continue
            fi = self.db.function(info['module'] + '.' + c + '.' + name)
            if fi is not None:
                return c, fi
        return None, None

    def typeis(self, st, ref, cls):
        return z3.Select(st.hget(('type',)), ref) == self.class_id(cls)

    def isinst(self, st, ref, cls):
        subs = self.subclasses(cls)
        t = z3.Select(st.hget(('type',)), ref)
        return z3.Or([t == self.class_id(c) for c in subs]) if subs else B(False)

    # ------------------------------------------------------------------------------
    def _load_spec_module(self, mod):
        import inspect
        src = inspect.getsource(mod)
        tree = ast.parse(src)
        for node in tree.body:
            if isinstance(node, ast.FunctionDef):
                self.spec_funcs[node.name] = (node, getattr(mod, node.name))

    # ------------------------------------------------------------------------------
    # obligations
    def emit(self, ctx, st, kind, label, goal, note='', expect_sat=False, extra_hyps=()):
        cur = getattr(self, '_current', None)
        fname = cur.name if cur is not None else (ctx.contract.name if ctx.contract else '?')
        base = '%s#%s[%s]' % (fname, kind, label)
        n = self._oid_counts.get(base, 0)
        self._oid_counts[base] = n + 1
        oid = base if n == 0 else '%s~%d' % (base, n)
        ob = Obligation(oid, kind, fname, list(st.pc) + list(extra_hyps), goal, note, expect_sat)
        self.obligations.append(ob)
        return ob

    def feasible(self, st):
        s = z3.Solver()
        s.set('timeout', self._prune_solver_timeout)
        for c in st.pc:
            s.add(c)
        return s.check() != z3.unsat

    # ------------------------------------------------------------------------------
    # values
    def lit(self, v):
        if v is None:
            return SV(NONE, I(0))
        if isinstance(v, bool):
            return SV(BOOL, B(v))
        if isinstance(v, int):
            return SV(INT, I(v))
        if isinstance(v, str):
            return SV(STR, S(v))
        if isinstance(v, bytes):
            return SV(BYTES, S(v.decode('latin-1')))
        if isinstance(v, float):
            if v == int(v):
                return SV(FLOAT, f_i2f(I(int(v))))
            return SV(FLOAT, z3.Const('flit!%r' % v, Fl))
        if isinstance(v, tuple):
            items = [self.lit(x) for x in v]
            return self.mk_tuple(items)
        raise Unsupported('literal %r' % (v,))

    def mk_tuple(self, items):
        if any(i.ty in (ANYFUNC, CLS) for i in items):
            return SV(TupleT(*[i.ty for i in items]), tuple(items))
        ty = TupleT(*[i.ty for i in items])
        srt = tuple_sort(ty)
        return SV(ty, srt.constructor(0)(*[i.z for i in items]))

    def tuple_items(self, sv):
        if isinstance(sv.z, tuple):
            return list(sv.z)
        srt = tuple_sort(sv.ty)
        return [SV(t, srt.accessor(0, i)(sv.z)) for i, t in enumerate(sv.ty.elems)]

    def to_val(self, sv):
        if sv.ty == VAL:
            return sv.z
        if sv.ty == INT:
            return Val.vint(sv.z)
        if sv.ty == NONE:
            return Val.vnone
        if sv.ty == FLOAT:
            return Val.vflt(sv.z)
        if sv.ty == BYTES:
            return Val.vbyt(sv.z)
        if sv.ty == STR:
            return Val.vtxt(sv.z)
        if sv.ty == BOOL:
            return Val.vbool(sv.z)
        if is_reflike(sv.ty):
            return z3.If(sv.z == 0, Val.vnone, Val.vref(sv.z))
        raise Unsupported('cannot convert %r to Val' % (sv.ty,))

    def coerce(self, sv, ty):
        if sv.ty == ty:
            return sv
        if ty == ANYFUNC:
            return sv           # an opaque Python-level value (function reference, tuple of them): passed through as it is
        if ty == VAL:
            return SV(VAL, self.to_val(sv))
        if sv.ty == NONE and is_reflike(ty):
            return SV(ty, I(0))
        if is_reflike(sv.ty) and is_reflike(ty):
            if isinstance(sv.ty, Ref) and isinstance(ty, Ref):
                return SV(ty, sv.z)
            if sort_key(sv.ty) == sort_key(ty):
                return SV(ty, sv.z)
        if sv.ty == BOOL and ty == INT:
            return SV(INT, z3.If(sv.z, I(1), I(0)))
        if sv.ty == INT and ty == FLOAT:
            return SV(FLOAT, f_i2f(sv.z))
        if sv.ty == VAL and ty == INT:
            return SV(INT, Val.ival(sv.z))
        if sv.ty == VAL and ty == BOOL:
            return SV(BOOL, Val.oval(sv.z))
        if sv.ty == VAL and ty == FLOAT:
            return SV(FLOAT, Val.fval(sv.z))
        if sv.ty == VAL and ty in (BYTES, STR):
            return SV(ty, Val.bval(sv.z) if ty == BYTES else Val.tval(sv.z))
        if sv.ty == VAL and is_reflike(ty):
            return SV(ty, z3.If(Val.is_vnone(sv.z), I(0), Val.rval(sv.z)))
        if sv.ty in (STR, BYTES) and ty in (STR, BYTES):
            return SV(ty, sv.z)
        if isinstance(sv.ty, TupleT) and isinstance(ty, TupleT) and len(sv.ty.elems) == len(ty.elems):
            items = [self.coerce(i, t) for i, t in zip(self.tuple_items(sv), ty.elems)]
            return self.mk_tuple(items)
        raise Unsupported('cannot coerce %r to %r' % (sv.ty, ty))

    def truth(self, st, sv):
        t = sv.ty
        if t == BOOL:
            return sv.z
        if t == INT:
            return sv.z != 0
        if t in (STR, BYTES):
            return z3.Length(sv.z) != 0
        if t == NONE:
            return B(False)
        if isinstance(t, Ref):
            return sv.z != 0
        if isinstance(t, ListT):
            return z3.And(sv.z != 0, z3.Select(st.hget(lkey(t.elem)), sv.z) != 0)
        if isinstance(t, DictT):
            return z3.And(sv.z != 0, z3.Select(st.hget(dkeys(t.key, t.val)[2]), sv.z) != 0)
        if t == VAL:
            v = sv.z
            return z3.And(z3.Not(Val.is_vnone(v)),
                          z3.Implies(Val.is_vint(v), Val.ival(v) != 0),
                          z3.Implies(Val.is_vbool(v), Val.oval(v)),
                          z3.Implies(Val.is_vbyt(v), z3.Length(Val.bval(v)) != 0),
                          z3.Implies(Val.is_vtxt(v), z3.Length(Val.tval(v)) != 0),
                          z3.Implies(Val.is_vflt(v), Val.fval(v) != f_i2f(I(0))))      # vref: objects are truthy (no __bool__ / __len__ modelled)
        if isinstance(t, TupleT):
            return B(len(t.elems) != 0)
        if t == FLOAT:
            return sv.z != f_i2f(I(0))
        raise Unsupported('truthiness of %r' % (t,))

    # ---- equality ---------------------------------------------------------------
    def equal(self, st, a, b):
        ta, tb = a.ty, b.ty
        if ta == NONE and tb == NONE:
            return B(True)
        if ta == NONE or tb == NONE:
            o = b if ta == NONE else a
            if o.ty == VAL:
                return Val.is_vnone(o.z)
            if is_reflike(o.ty):
                return o.z == 0
            return B(False)
        if ta == VAL or tb == VAL:
            if ta == VAL and tb == VAL:
                va, vb = a.z, b.z
                mixed = z3.Or(z3.And(Val.is_vint(va), Val.is_vflt(vb), f_i2f(Val.ival(va)) == Val.fval(vb)),
                              z3.And(Val.is_vflt(va), Val.is_vint(vb), f_i2f(Val.ival(vb)) == Val.fval(va)))
                return z3.Or(va == vb, mixed)
            v, o = (a, b) if ta == VAL else (b, a)
            if o.ty == INT:
                return z3.Or(z3.And(Val.is_vint(v.z), Val.ival(v.z) == o.z),
                             z3.And(Val.is_vflt(v.z), Val.fval(v.z) == f_i2f(o.z)))
            if o.ty == BYTES:
                return z3.And(Val.is_vbyt(v.z), Val.bval(v.z) == o.z)
            if o.ty == STR:
                return z3.And(Val.is_vtxt(v.z), Val.tval(v.z) == o.z)
            if o.ty == BOOL:
                return z3.Or(z3.And(Val.is_vbool(v.z), Val.oval(v.z) == o.z),
                             z3.And(Val.is_vint(v.z), Val.ival(v.z) == z3.If(o.z, I(1), I(0))))
            if o.ty == FLOAT:
                return z3.Or(z3.And(Val.is_vflt(v.z), Val.fval(v.z) == o.z),
                             z3.And(Val.is_vint(v.z), f_i2f(Val.ival(v.z)) == o.z))
            return B(False)
        if REAL in (ta, tb) and ta in (INT, REAL) and tb in (INT, REAL):
            return (z3.ToReal(a.z) if ta == INT else a.z) == (z3.ToReal(b.z) if tb == INT else b.z)
        if ta == BOOL and tb == INT:
            return z3.If(a.z, I(1), I(0)) == b.z
        if ta == INT and tb == BOOL:
            return a.z == z3.If(b.z, I(1), I(0))
        if ta == INT and tb == FLOAT:
            return f_i2f(a.z) == b.z
        if ta == FLOAT and tb == INT:
            return a.z == f_i2f(b.z)
        if ta in (STR, BYTES) and tb in (STR, BYTES):
            if ta != tb:
                return B(False)      # Python 3: str != bytes
            return a.z == b.z
        if is_reflike(ta) and is_reflike(tb):
            return a.z == b.z       # identity (no __eq__ modelling unless contract says so)
        if isinstance(ta, TupleT) and isinstance(tb, TupleT):
            if len(ta.elems) != len(tb.elems):
                return B(False)
            return z3.And([self.equal(st, x, y) for x, y in zip(self.tuple_items(a), self.tuple_items(b))])
        if ta == tb:
            return a.z == b.z
        if ta == CLS and tb == CLS:
            return a.z == b.z
        return B(False)

    # ---- arithmetic -------------------------------------------------------------
    def as_float(self, sv):
        if sv.ty == FLOAT:
            return sv.z
        if sv.ty == INT:
            return f_i2f(sv.z)
        if sv.ty == BOOL:
            return f_i2f(z3.If(sv.z, I(1), I(0)))
        if sv.ty == VAL:
            return z3.If(Val.is_vint(sv.z), f_i2f(Val.ival(sv.z)), Val.fval(sv.z))
        raise Unsupported('as_float %r' % (sv.ty,))

    def binop(self, ctx, st, op, a, b):
        ta, tb = a.ty, b.ty
        if ta == BOOL:
            a = self.coerce(a, INT)
            ta = INT
        if tb == BOOL:
            b = self.coerce(b, INT)
            tb = INT
        if REAL in (ta, tb) and ta in (INT, REAL) and tb in (INT, REAL):
            x = z3.ToReal(a.z) if ta == INT else a.z
            y = z3.ToReal(b.z) if tb == INT else b.z
            if isinstance(op, ast.Add):
                return SV(REAL, x + y)
            if isinstance(op, ast.Sub):
                return SV(REAL, x - y)
            if isinstance(op, ast.Mult):
                return SV(REAL, x * y)
            if isinstance(op, ast.Div):
                return SV(REAL, x / y)
            raise Unsupported('real op %s' % type(op).__name__)
        if ta == INT and tb == INT:
            x, y = a.z, b.z
            if isinstance(op, ast.Add):
                return SV(INT, x + y)
            if isinstance(op, ast.Sub):
                return SV(INT, x - y)
            if isinstance(op, ast.Mult):
                return SV(INT, x * y)
            if isinstance(op, (ast.FloorDiv, ast.Mod)):
                self.safe(ctx, st, y != 0, 'ZeroDivisionError', 'division by zero')
                ys = z3.simplify(y)
                if z3.is_int_value(ys) and ys.as_long() > 0:
                    # SMT-LIB div/mod are Euclidean; for a positive divisor they coincide with floor
                    return SV(INT, x / y if isinstance(op, ast.FloorDiv) else x % y)
                q = z3.If(y > 0, x / y, z3.If(x % y == 0, x / y, (x / y) - 1 + z3.If(y < 0, I(0), I(0))))
                # general floor division: floor(x / y)
                fq = z3.If(y > 0, x / y, (-x) / (-y))
                if isinstance(op, ast.FloorDiv):
                    return SV(INT, fq)
                return SV(INT, x - fq * y)
            if isinstance(op, ast.Pow):
                xs = z3.simplify(x)
                if z3.is_int_value(xs) and xs.as_long() == 2:
                    return SV(INT, pow2_term(y))
                if z3.is_int_value(xs) and xs.as_long() == 10:
                    return SV(INT, pow10_term(y))
                ys = z3.simplify(y)
                if z3.is_int_value(ys) and 0 <= ys.as_long() <= 4:
                    r = I(1)
                    for _ in range(ys.as_long()):
                        r = r * x
                    return SV(INT, r)
                raise Unsupported('general integer power')
            if isinstance(op, ast.Div):
                return SV(FLOAT, f_div(f_i2f(x), f_i2f(y)))
            if isinstance(op, ast.BitAnd) or isinstance(op, ast.BitOr) or isinstance(op, ast.LShift):
                raise Unsupported('bit operation')
        if isinstance(op, ast.Add) and ((ta == VAL and tb in (STR, BYTES)) or (tb == VAL and ta in (STR, BYTES))):
            # a dynamically typed slot that holds text here (anything else is a TypeError in Python)
            other = tb if ta == VAL else ta
            if ta == VAL:
                a = self.as_text(ctx, st, a, other)
            else:
                b = self.as_text(ctx, st, b, other)
            return SV(other, z3.Concat(a.z, b.z))
        if ta in (STR, BYTES) and tb in (STR, BYTES) and isinstance(op, ast.Add):
            return SV(ta, z3.Concat(a.z, b.z))
        if ta in (STR, BYTES) and tb == INT and isinstance(op, ast.Mult):
            return SV(ta, self.str_repeat(a.z, b.z))
        if ta in (STR, BYTES) and isinstance(op, ast.Mod):
            return SV(ta, fresh('fmt', z3.StringSort()))
        numeric = (INT, FLOAT, VAL)
        if ta in numeric and tb in numeric:
            # at least one float / Val operand
            if ta == VAL or tb == VAL:
                both_int = z3.And(Val.is_vint(a.z) if ta == VAL else B(ta == INT),
                                  Val.is_vint(b.z) if tb == VAL else B(tb == INT))
                ai = Val.ival(a.z) if ta == VAL else (a.z if ta == INT else None)
                bi = Val.ival(b.z) if tb == VAL else (b.z if tb == INT else None)
                fa, fb = self.as_float(a), self.as_float(b)
                if isinstance(op, ast.Div):
                    return SV(VAL, Val.vflt(f_div(fa, fb)))
                if isinstance(op, (ast.FloorDiv, ast.Mod)) and ai is not None and bi is not None:
                    # integer operands: floor semantics (the int/int case of this method); float operands: uninterpreted (L4)
                    self.safe(ctx, st, z3.Not(z3.And(both_int, bi == 0)), 'ZeroDivisionError', 'division by zero')
                    ir = self.binop(ctx, st, op, SV(INT, ai), SV(INT, bi))
                    fr = (f_floordiv if isinstance(op, ast.FloorDiv) else f_fmod)(fa, fb)
                    return SV(VAL, z3.If(both_int, Val.vint(ir.z), Val.vflt(fr)))
                fop = {ast.Add: f_add, ast.Sub: f_sub, ast.Mult: f_mul}.get(type(op))
                if fop is None:
                    raise Unsupported('Val arithmetic %s' % type(op).__name__)
                fres = Val.vflt(fop(fa, fb))
                if ai is not None and bi is not None:
                    iop = {ast.Add: lambda p, q: p + q, ast.Sub: lambda p, q: p - q, ast.Mult: lambda p, q: p * q}[type(op)]
                    return SV(VAL, z3.If(both_int, Val.vint(iop(ai, bi)), fres))
                return SV(VAL, fres)
            fa, fb = self.as_float(a), self.as_float(b)
            fop = {ast.Add: f_add, ast.Sub: f_sub, ast.Mult: f_mul, ast.Div: f_div}.get(type(op))
            if fop is None:
                raise Unsupported('float op %s' % type(op).__name__)
            return SV(FLOAT, fop(fa, fb))
        if isinstance(ta, ListT) and isinstance(tb, ListT) and isinstance(op, ast.Add):
            return self.list_concat(ctx, st, a, b)
        if isinstance(ta, ListT) and tb == INT and isinstance(op, ast.Mult):
            return self.list_repeat(ctx, st, a, b)
        if isinstance(ta, TupleT) and isinstance(tb, TupleT) and isinstance(op, ast.Add):
            return self.mk_tuple(self.tuple_items(a) + self.tuple_items(b))
        raise Unsupported('binop %s on %r, %r' % (type(op).__name__, ta, tb))

    def as_text(self, ctx, st, v, ty=STR):
        """narrow a Val to its text (bytes) variant; Python raises TypeError for the other variants"""
        if v.ty != VAL:
            return v
        pred, acc = (Val.is_vtxt, Val.tval) if ty == STR else (Val.is_vbyt, Val.bval)
        self.safe(ctx, st, pred(v.z), 'TypeError', 'text operation on a non-text value')
        return SV(ty, acc(v.z))

    def str_repeat(self, s, n):
        ns = z3.simplify(n)
        ss = z3.simplify(s)
        if z3.is_int_value(ns):
            k = ns.as_long()
            if k <= 0:
                return S('')
            if k <= 64:
                return z3.Concat(*([s] * k)) if k > 1 else s
        # symbolic repetition of a literal: a function of (literal, count), characterised by length + membership in lit*
        r = strrep_f(s, n)
        if z3.is_string_value(ss) and len(pystr(ss)) >= 1:
            lit = pystr(ss)
            self._pending_facts.append(z3.And(
                z3.Length(r) == z3.If(n > 0, n * len(lit), I(0)),
                z3.InRe(r, z3.Star(z3.Re(S(lit))))))
            return r
        raise Unsupported('symbolic string repetition')

    _pending_facts = []

    def flush_facts(self, st):
        while self._pending_facts:
            st.assume(self._pending_facts.pop(0))

    def compare(self, ctx, st, op, a, b):
        if ctx.spec and isinstance(op, (ast.Eq, ast.NotEq, ast.Is, ast.IsNot)):
            # an ill-typed comparison in a contract would silently be the constant False / True (vacuity hazard)
            ta, tb = a.ty, b.ty
            dyn = (NONE, VAL, CLS, ANYFUNC)
            if ta not in dyn and tb not in dyn and not isinstance(a.z, tuple) and not isinstance(b.z, tuple):
                num = (INT, BOOL, FLOAT, REAL)
                bad = (is_reflike(ta) != is_reflike(tb)) or (ta in num and tb in (STR, BYTES)) or (tb in num and ta in (STR, BYTES))
                if bad:
                    raise Unsupported('ill-typed comparison in a specification: %r with %r' % (ta, tb))
        if isinstance(op, ast.Eq):
            return self.equal(st, a, b)
        if isinstance(op, ast.NotEq):
            return z3.Not(self.equal(st, a, b))
        if isinstance(op, ast.Is):
            return self.identical(st, a, b)
        if isinstance(op, ast.IsNot):
            return z3.Not(self.identical(st, a, b))
        if isinstance(op, (ast.In, ast.NotIn)):
            r = self.contains(ctx, st, b, a)
            return r if isinstance(op, ast.In) else z3.Not(r)
        ta, tb = a.ty, b.ty
        if ta == BOOL:
            a = self.coerce(a, INT)
        if tb == BOOL:
            b = self.coerce(b, INT)
        ta, tb = a.ty, b.ty
        if ta == VAL or tb == VAL:
            # ordering on Val is defined for ints here; other variants are left uninterpreted-false
            if ta == VAL:
                if not ctx.spec:
                    self.safe(ctx, st, z3.Or(Val.is_vint(a.z), Val.is_vflt(a.z)), 'TypeError', 'ordering on non-number')
                ai = Val.ival(a.z)
            else:
                ai = a.z
            if tb == VAL:
                if not ctx.spec:
                    self.safe(ctx, st, z3.Or(Val.is_vint(b.z), Val.is_vflt(b.z)), 'TypeError', 'ordering on non-number')
                bi = Val.ival(b.z)
            else:
                bi = b.z
            isint = z3.And(Val.is_vint(a.z) if ta == VAL else B(ta == INT), Val.is_vint(b.z) if tb == VAL else B(tb == INT))
            fa, fb = self.as_float(a), self.as_float(b)
            if ta == FLOAT or tb == FLOAT:
                isint = B(False)
                ai = bi = I(0)
            tbl = {ast.Lt: (ai < bi, f_lt(fa, fb)), ast.LtE: (ai <= bi, z3.Or(f_lt(fa, fb), fa == fb)),
                   ast.Gt: (ai > bi, f_lt(fb, fa)), ast.GtE: (ai >= bi, z3.Or(f_lt(fb, fa), fa == fb))}
            ic, fc = tbl[type(op)]
            return z3.If(isint, ic, fc)
        if REAL in (ta, tb) and ta in (INT, REAL) and tb in (INT, REAL):
            x = z3.ToReal(a.z) if ta == INT else a.z
            y = z3.ToReal(b.z) if tb == INT else b.z
            return {ast.Lt: x < y, ast.LtE: x <= y, ast.Gt: x > y, ast.GtE: x >= y}[type(op)]
        if ta == INT and tb == INT:
            x, y = a.z, b.z
            return {ast.Lt: x < y, ast.LtE: x <= y, ast.Gt: x > y, ast.GtE: x >= y}[type(op)]
        if ta in (INT, FLOAT) and tb in (INT, FLOAT):
            fa, fb = self.as_float(a), self.as_float(b)
            return {ast.Lt: f_lt(fa, fb), ast.LtE: z3.Or(f_lt(fa, fb), fa == fb),
                    ast.Gt: f_lt(fb, fa), ast.GtE: z3.Or(f_lt(fb, fa), fa == fb)}[type(op)]
        if ta in (STR, BYTES) and tb in (STR, BYTES):
            x, y = a.z, b.z
            return {ast.Lt: x < y, ast.LtE: x <= y, ast.Gt: y < x, ast.GtE: y <= x}[type(op)]
        raise Unsupported('compare %s on %r, %r' % (type(op).__name__, ta, tb))

    def identical(self, st, a, b):
        if a.ty == NONE or b.ty == NONE:
            return self.equal(st, a, b)
        if a.ty == CLS and b.ty == CLS:
            return a.z == b.z
        if is_reflike(a.ty) and is_reflike(b.ty):
            return a.z == b.z
        if a.ty == BOOL and b.ty == BOOL:
            return a.z == b.z
        if a.ty == VAL and b.ty == BOOL:
            return z3.And(Val.is_vbool(a.z), Val.oval(a.z) == b.z)
        if a.ty == BOOL and b.ty == VAL:
            return z3.And(Val.is_vbool(b.z), Val.oval(b.z) == a.z)
        return self.equal(st, a, b)

    def contains(self, ctx, st, container, item):
        t = container.ty
        if t in (STR, BYTES):
            if item.ty not in (STR, BYTES):
                raise Unsupported('in-string with non-string')
            return z3.Contains(container.z, item.z)
        if isinstance(t, TupleT):
            items = self.tuple_items(container)
            return z3.Or([self.equal(st, item, x) for x in items]) if items else B(False)
        if isinstance(t, DictT):
            has, _, _ = dkeys(t.key, t.val)
            k = self.coerce(item, t.key)
            return z3.Select(z3.Select(st.hget(has), container.z), k.z)
        if isinstance(t, ListT):
            n = z3.Select(st.hget(lkey(t.elem)), container.z)
            arr = z3.Select(st.hget(ekey(t.elem)), container.z)
            j = fresh('j', z3.IntSort())
            it = self.coerce(item, t.elem)
            return z3.Exists([j], z3.And(0 <= j, j < n, z3.Select(arr, j) == it.z))
        if isinstance(t, Ref):
            hook = self.class_hook(t.cls, 'contains')
            if hook:
                return hook(self, ctx, st, container, item)
        raise Unsupported('in on %r' % (t,))

    def class_hook(self, cls, name):
        for c in self.mro(cls):
            h = self.classes.get(c, {}).get('hooks', {})
            if name in h:
                return h[name]
        return None

    # ---- implicit exceptions ------------------------------------------------------
    def catchable(self, ctx, exc_cls):
        for hs in ctx.handlers:
            for h in hs:
                if h is None or self.is_subclass(exc_cls, h):
                    return True
        if ctx.contract is not None:
            for r in ctx.contract.raises:
                if self.is_subclass(exc_cls, r):
                    return True
        return False

    def safe(self, ctx, st, cond, exc_cls, what):
        """`cond` must hold or Python raises exc_cls here."""
        if ctx.spec:
            return
        cs = z3.simplify(cond)
        if z3.is_true(cs):
            return
        if self.catchable(ctx, exc_cls):
            bad = st.fork()
            bad.assume(z3.Not(cond))
            if self.feasible(bad):
                ctx.raise_(bad, Exc(exc_cls))
            st.assume(cond)
            return
        if ctx.implicit == 'check':
            self.emit(ctx, st, 'safe', what.replace(' ', '_'), cond, note='%s: %s' % (exc_cls, what))
        st.assume(cond)

    # ---- heap access ----------------------------------------------------------------
    def new_ref(self, st):
        r = st.alloc + st.nalloc
        st.nalloc += 1
        r = z3.simplify(r)
        st.fresh_refs.append(r)
        return r

    def read_field(self, ctx, st, obj, field):
        if not isinstance(obj.ty, Ref):
            raise Unsupported('attribute %s on %r' % (field, obj.ty))
        fty = self.field_type(obj.ty.cls, field)
        if fty is None:
            hook = self.class_hook(obj.ty.cls, 'getattr')
            if hook:
                return hook(self, ctx, st, obj, field)
            raise Unsupported('unknown field %s.%s' % (obj.ty.cls, field))
        if fty == CLS or fty == ANYFUNC:
            for c in self.mro(obj.ty.cls):
                consts = self.classes.get(c, {}).get('consts', {})
                if field in consts:
                    return SV(CLS, I(self.class_id(consts[field])))
            raise Unsupported('class-valued field %s' % field)
        self.safe(ctx, st, obj.z != 0, 'AttributeError', 'attribute of None')
        k = fkey(field, fty)
        z = z3.simplify(z3.Select(st.hget(k), obj.z))
        self.ref_fact(st, fty, z, k, [obj.z])
        for c in self.mro(obj.ty.cls):
            ff = self.classes.get(c, {}).get('field_facts', {})
            if field in ff:
                st.assume(ff[field](z))
        if is_reflike(fty):
            for c in self.mro(obj.ty.cls):
                if field in self.classes.get(c, {}).get('nonnull', ()):
                    st.assume(z > 0)
        return SV(fty, z)

    def ref_fact(self, st, ty, z, key=None, path=()):
        """Heap well-formedness facts for a reference read from the heap: it denotes an allocated object,
        and whatever the un-overwritten part of the heap holds existed when that part was last havocked."""
        if isinstance(ty, TupleT) and not isinstance(z, tuple):
            # references embedded in a tuple value denote allocated objects too
            srt = tuple_sort(ty)
            for i, t in enumerate(ty.elems):
                if is_reflike(t) or isinstance(t, TupleT):
                    self.ref_fact(st, t, srt.accessor(0, i)(z))
            return
        if ty == VAL and not isinstance(z, tuple):
            # an object identity held in a dynamically typed slot denotes an allocated object (None is vnone, never vref(0))
            st.assume(z3.Implies(Val.is_vref(z), z3.And(Val.rval(z) > 0, Val.rval(z) < st.alloc + st.nalloc)))
            if key is not None:
                arr, bound = st.base_of(key)
                t = arr
                for i in path:
                    t = z3.Select(t, i)
                st.assume(z3.Implies(Val.is_vref(t), z3.And(Val.rval(t) > 0, Val.rval(t) < bound)))
            return
        if is_reflike(ty):
            st.assume(z3.And(z >= 0, z < st.alloc + st.nalloc))
            self.coll_fact(st, ty, z)
            if key is not None:
                arr, bound = st.base_of(key)
                t = arr
                for i in path:
                    t = z3.Select(t, i)
                st.assume(z3.And(t >= 0, t < bound))
                if len(path) == 2:
                    for v, b in st.havoc_vals:
                        if v.sort() == arr.sort().range():
                            hv = z3.Select(v, path[1])
                            st.assume(z3.And(hv >= 0, hv < b))

    def elem_fact(self, st, elem_ty, z):
        """Typing discipline L6: a list / dict whose static element type is an object reference never holds
        None (every store in verified code is checked by `elem_store_check`; for inputs it is part of
        well-typedness, listed in the trusted base)."""
        if is_reflike(elem_ty) and not getattr(elem_ty, 'optional', False):
            st.assume(z > 0)

    def elem_store_check(self, ctx, st, elem_ty, v):
        if is_reflike(elem_ty) and not getattr(elem_ty, 'optional', False) and not ctx.spec:
            cs = z3.simplify(v.z > 0)
            if not z3.is_true(cs):
                self.emit(ctx, st, 'safe', 'list_element_not_None', v.z > 0,
                          note='a list of %r must not receive None' % (elem_ty,))

    def write_field(self, ctx, st, obj, field, val):
        fty = self.field_type(obj.ty.cls, field)
        if fty is None:
            hook = self.class_hook(obj.ty.cls, 'setattr')
            if hook:
                return hook(self, ctx, st, obj, field, val)
            raise Unsupported('unknown field %s.%s' % (obj.ty.cls, field))
        if fty == CLS:
            # class-valued fields are constants of the class table; the store must agree with the table
            for c in self.mro(obj.ty.cls):
                consts = self.classes.get(c, {}).get('consts', {})
                if field in consts:
                    ok = (val.ty == CLS and not isinstance(val.z, tuple))
                    self.emit(ctx, st, 'safe', 'const_field_' + field,
                              (val.z == self.class_id(consts[field])) if ok else B(False),
                              note='class-valued field %s must be %s' % (field, consts[field]))
                    return
            raise Unsupported('store to class-valued field %s' % field)
        self.safe(ctx, st, obj.z != 0, 'AttributeError', 'attribute of None')
        v = self.coerce(val, fty)
        k = fkey(field, fty)
        st.hset(k, z3.Store(st.hget(k), obj.z, v.z))

    def list_len(self, st, lst):
        return z3.simplify(z3.Select(st.hget(lkey(lst.ty.elem)), lst.z))

    def list_arr(self, st, lst):
        return z3.simplify(z3.Select(st.hget(ekey(lst.ty.elem)), lst.z))

    def list_get(self, ctx, st, lst, idx):
        n = self.list_len(st, lst)
        i = idx
        self.safe(ctx, st, lst.z != 0, 'TypeError', 'subscript of None')
        self.safe(ctx, st, z3.And(i >= -n, i < n), 'IndexError', 'list index')
        j = z3.If(i < 0, i + n, i)
        j = z3.simplify(j)
        z = z3.Select(self.list_arr(st, lst), j)
        self.ref_fact(st, lst.ty.elem, z, ekey(lst.ty.elem), [lst.z, j])
        self.elem_fact(st, lst.ty.elem, z)
        return SV(lst.ty.elem, z)

    def list_set_raw(self, st, lst, n, arr):
        e = lst.ty.elem
        st.hset(lkey(e), z3.Store(st.hget(lkey(e)), lst.z, n))
        st.hset(ekey(e), z3.Store(st.hget(ekey(e)), lst.z, arr))

    def coll_tag(self, ty):
        return self.class_id('$' + sort_key(ty))

    def coll_fact(self, st, ty, z):
        """a reference of static list / dict type denotes None or a collection of that very kind (never an object or a
        collection of another kind: lists and dicts carry a type tag from allocation on)"""
        if isinstance(ty, (ListT, DictT)):
            st.assume(z3.Or(z == 0, z3.Select(st.hget(('type',)), z) == self.coll_tag(ty)))

    def new_list(self, st, elem, items=()):
        r = self.new_ref(st)
        lst = SV(ListT(elem), r)
        st.hset(('type',), z3.Store(st.hget(('type',)), r, I(self.coll_tag(lst.ty))))
        arr = z3.K(z3.IntSort(), self.default_z(elem))
        for i, it in enumerate(items):
            arr = z3.Store(arr, I(i), self.coerce(it, elem).z)
        self.list_set_raw(st, lst, I(len(items)), arr)
        if elem in (STR, BYTES):
            j = S('')
            for it in items:
                j = z3.Concat(j, it.z)
            self.set_ghost(st, 'joined', z3.StringSort(), r, j)
        if elem == INT:
            s = I(0)
            for it in items:
                s = s + it.z
            self.set_ghost(st, 'sum', z3.IntSort(), r, s)
        return lst

    def default_z(self, ty):
        srt = sort_of(ty)
        if srt == z3.IntSort():
            return I(0)
        if srt == z3.BoolSort():
            return B(False)
        if srt == z3.StringSort():
            return S('')
        if ty == VAL:
            return Val.vnone
        return z3.Const('default!' + sort_key(ty), srt)

    def ghost_key(self, name, srt):
        return ('f', '$' + name, 'G', srt)

    def get_ghost(self, st, name, srt, ref):
        return z3.simplify(z3.Select(st.hget(self.ghost_key(name, srt)), ref))

    def set_ghost(self, st, name, srt, ref, val):
        k = self.ghost_key(name, srt)
        st.hset(k, z3.Store(st.hget(k), ref, val))

    def list_append(self, ctx, st, lst, item):
        e = lst.ty.elem
        self.safe(ctx, st, lst.z != 0, 'AttributeError', 'append on None')
        n = self.list_len(st, lst)
        arr = self.list_arr(st, lst)
        v = self.coerce(item, e)
        self.elem_store_check(ctx, st, e, v)
        self.list_set_raw(st, lst, n + 1, z3.Store(arr, n, v.z))
        if e in (STR, BYTES):
            self.set_ghost(st, 'joined', z3.StringSort(), lst.z,
                           z3.Concat(self.get_ghost(st, 'joined', z3.StringSort(), lst.z), v.z))
        if e == INT:
            self.set_ghost(st, 'sum', z3.IntSort(), lst.z, self.get_ghost(st, 'sum', z3.IntSort(), lst.z) + v.z)

    def list_concat(self, ctx, st, a, b):
        e = a.ty.elem
        if b.ty.elem != e:
            b = SV(ListT(e), b.z) if sort_key(b.ty.elem) == sort_key(e) else None
            if b is None:
                raise Unsupported('list + list of different element types')
        na, nb = self.list_len(st, a), self.list_len(st, b)
        aa, ab = self.list_arr(st, a), self.list_arr(st, b)
        r = self.new_list(st, e)
        arr = fresh('cat', z3.ArraySort(z3.IntSort(), sort_of(e)))
        j = fresh('j', z3.IntSort())
        st.assume(z3.ForAll([j], z3.Implies(z3.And(0 <= j, j < na), z3.Select(arr, j) == z3.Select(aa, j))))
        st.assume(z3.ForAll([j], z3.Implies(z3.And(0 <= j, j < nb), z3.Select(arr, na + j) == z3.Select(ab, j))))
        self.list_set_raw(st, r, na + nb, arr)
        return r

    def list_repeat(self, ctx, st, a, n):
        e = a.ty.elem
        na = z3.simplify(self.list_len(st, a))
        if not (z3.is_int_value(na) and na.as_long() == 1):
            raise Unsupported('list * n for non-singleton list')
        x = z3.Select(self.list_arr(st, a), 0)
        r = self.new_list(st, e)
        self.list_set_raw(st, r, z3.If(n.z > 0, n.z, I(0)), z3.K(z3.IntSort(), x))
        return r

    def fresh_block(self, st, elem_ty, n):
        """list of max(n, 0) pairwise distinct, freshly allocated, empty lists / dicts of type elem_ty"""
        cnt = z3.If(n > 0, n, I(0))
        base = z3.simplify(st.alloc + st.nalloc)
        # the block [base, base + cnt) and the outer list after it
        na = fresh('alloc', z3.IntSort())
        st.assume(na == base + cnt)
        st.alloc = na
        st.nalloc = 0
        r = fresh('blk', z3.IntSort())

        def upd(key, val):
            old = st.hget(key)
            new = fresh('blk!' + key_name(key), old.sort())
            st.assume(z3.ForAll([r], z3.Select(new, r) == z3.If(z3.And(r >= base, r < base + cnt), val, z3.Select(old, r)),
                                patterns=[z3.Select(new, r)]))
            st.hset(key, new)
        upd(('type',), I(self.coll_tag(elem_ty)))
        if isinstance(elem_ty, ListT):
            upd(lkey(elem_ty.elem), I(0))
            if elem_ty.elem in (STR, BYTES):
                upd(self.ghost_key('joined', z3.StringSort()), S(''))
            if elem_ty.elem == INT:
                upd(self.ghost_key('sum', z3.IntSort()), I(0))
        else:
            has, val, size = dkeys(elem_ty.key, elem_ty.val)
            upd(size, I(0))
            upd(has, z3.K(sort_of(elem_ty.key), B(False)))
        outer = self.new_list(st, elem_ty)
        arr = fresh('blk!arr', z3.ArraySort(z3.IntSort(), z3.IntSort()))
        j = fresh('j', z3.IntSort())
        st.assume(z3.ForAll([j], z3.Implies(z3.And(0 <= j, j < cnt), z3.Select(arr, j) == base + j), patterns=[z3.Select(arr, j)]))
        self.list_set_raw(st, outer, cnt, arr)
        st.fresh_refs.append(base)
        return outer

    def new_dict(self, st, kt, vt):
        r = self.new_ref(st)
        st.hset(('type',), z3.Store(st.hget(('type',)), r, I(self.coll_tag(DictT(kt, vt)))))
        has, val, size = dkeys(kt, vt)
        st.hset(has, z3.Store(st.hget(has), r, z3.K(sort_of(kt), B(False))))
        st.hset(size, z3.Store(st.hget(size), r, I(0)))
        return SV(DictT(kt, vt), r)

    def dict_get(self, ctx, st, d, k):
        has, val, size = dkeys(d.ty.key, d.ty.val)
        kk = self.coerce(k, d.ty.key)
        self.safe(ctx, st, z3.Select(z3.Select(st.hget(has), d.z), kk.z), 'KeyError', 'dict key')
        z = z3.Select(z3.Select(st.hget(val), d.z), kk.z)
        self.ref_fact(st, d.ty.val, z, val, [d.z, kk.z])
        return SV(d.ty.val, z)

    def dict_set(self, ctx, st, d, k, v):
        has, val, size = dkeys(d.ty.key, d.ty.val)
        kk = self.coerce(k, d.ty.key)
        vv = self.coerce(v, d.ty.val)
        hmap = z3.Select(st.hget(has), d.z)
        was = z3.Select(hmap, kk.z)
        st.hset(size, z3.Store(st.hget(size), d.z, z3.Select(st.hget(size), d.z) + z3.If(was, I(0), I(1))))
        st.hset(has, z3.Store(st.hget(has), d.z, z3.Store(hmap, kk.z, B(True))))
        st.hset(val, z3.Store(st.hget(val), d.z, z3.Store(z3.Select(st.hget(val), d.z), kk.z, vv.z)))

    # ------------------------------------------------------------------------------
    # expression evaluation (generator of (state, SV))
    def ev(self, e, st, ctx):
        m = getattr(self, 'ev_' + type(e).__name__, None)
        if m is None:
            raise Unsupported('expression %s' % type(e).__name__)
        for st2, sv in m(e, st, ctx):
            self.flush_facts(st2)
            yield st2, sv

    def ev_Constant(self, e, st, ctx):
        yield st, self.lit(e.value)

    def lookup_name(self, name, st, ctx):
        if name in ctx.bound:
            return ctx.bound[name]
        if name in st.locals:
            return st.locals[name]
        if name == 'result' and ctx.spec:
            return ctx.result
        if name in ('True', 'False'):
            return self.lit(name == 'True')
        if name == 'None':
            return self.lit(None)
        # module constant
        if ctx.module:
            ok, v = self.db.constant(ctx.module, name)
            if ok:
                try:
                    return self.lit(v)
                except Unsupported:
                    pass
            m = self.db.module(ctx.module)
            hook = self.opts.get('name_hook')
            if hook:
                r = hook(self, ctx, st, ctx.module, name)
                if r is not None:
                    return r
            tgt = m.imports.get(name)
            if name in m.functions:
                return SV(ANYFUNC, ('func', ctx.module + '.' + name))
            if tgt and tgt.startswith('pybufrkit') and (self.db.function(tgt) is not None or self.reg.get(tgt) is not None):
                return SV(ANYFUNC, ('func', tgt))
            if name in m.classes or (tgt and self.known_class(tgt.rsplit('.', 1)[-1])):
                cname = name if name in m.classes else tgt.rsplit('.', 1)[-1]
                return SV(CLS, I(self.class_id(cname)))
        if self.known_class(name):
            return SV(CLS, I(self.class_id(name)))
        return None

    def known_class(self, name):
        return name in self.classes or name in self.exc_table

    def ev_Name(self, e, st, ctx):
        sv = self.lookup_name(e.id, st, ctx)
        if sv is None:
            if e.id in BUILTIN_TYPES:
                yield st, SV(CLS, I(self.class_id(e.id)))
                return
            if e.id in ('next', 'len', 'int', 'str'):
                yield st, SV(ANYFUNC, ('builtin', e.id))
                return
            raise Unsupported('name %s' % e.id)
        yield st, sv

    def ev_Tuple(self, e, st, ctx):
        for st2, items in self.ev_list(e.elts, st, ctx):
            yield st2, self.mk_tuple(items)

    def ev_list(self, exprs, st, ctx):
        """Evaluate a list of expressions left to right -> (state, [SV])."""
        if not exprs:
            yield st, []
            return
        for st1, a in self.ev(exprs[0], st, ctx):
            for st2, rest in self.ev_list(exprs[1:], st1, ctx):
                yield st2, [a] + rest

    def ev_List(self, e, st, ctx):
        for st2, items in self.ev_list(e.elts, st, ctx):
            elem = self.hint_elem(ctx, e, items)
            for it in items:
                if is_reflike(elem):
                    self.elem_store_check(ctx, st2, elem, self.coerce(it, elem))
            yield st2, self.new_list(st2, elem, items)

    def hint_elem(self, ctx, node, items):
        h = getattr(node, '_pyvc_elem', None)
        if h is not None:
            return h
        if items:
            tys = set(i.ty for i in items)
            if len(tys) == 1:
                return items[0].ty
            if all(t in (INT, NONE, FLOAT, BYTES, STR, VAL, BOOL) for t in tys):
                return VAL
            if all(is_reflike(t) or t == NONE for t in tys):
                return [t for t in tys if t != NONE][0]
        raise Unsupported('cannot infer list element type (give a `locals` hint)')

    def ev_Dict(self, e, st, ctx):
        h = getattr(e, '_pyvc_dict', None)
        if h is None:
            raise Unsupported('dict literal without type hint')
        d = self.new_dict(st, h.key, h.val)
        if e.keys:
            for st2, ks in self.ev_list(e.keys, st, ctx):
                for st3, vs in self.ev_list(e.values, st2, ctx):
                    for k, v in zip(ks, vs):
                        self.dict_set(ctx, st3, d, k, v)
                    yield st3, d
        else:
            yield st, d

    def ev_UnaryOp(self, e, st, ctx):
        for st2, a in self.ev(e.operand, st, ctx):
            if isinstance(e.op, ast.Not):
                yield st2, SV(BOOL, z3.Not(self.truth(st2, a)))
            elif isinstance(e.op, ast.USub):
                if a.ty == INT:
                    yield st2, SV(INT, -a.z)
                elif a.ty == BOOL:
                    yield st2, SV(INT, -self.coerce(a, INT).z)
                elif a.ty == VAL:
                    yield st2, SV(VAL, z3.If(Val.is_vint(a.z), Val.vint(-Val.ival(a.z)),
                                             Val.vflt(f_sub(f_i2f(I(0)), Val.fval(a.z)))))
                else:
                    yield st2, SV(FLOAT, f_sub(f_i2f(I(0)), self.as_float(a)))
            elif isinstance(e.op, ast.UAdd):
                yield st2, a
            else:
                raise Unsupported('unary op')

    def ev_BinOp(self, e, st, ctx):
        for st1, a in self.ev(e.left, st, ctx):
            for st2, b in self.ev(e.right, st1, ctx):
                yield st2, self.binop(ctx, st2, e.op, a, b)

    def mergeable(self, a, b):
        if a.ty in (ANYFUNC, CLS) or b.ty in (ANYFUNC, CLS):
            return a.ty == CLS and b.ty == CLS
        if isinstance(a.z, tuple) or isinstance(b.z, tuple):
            return False
        if a.ty == b.ty:
            return True
        if a.ty == NONE and is_reflike(b.ty) or b.ty == NONE and is_reflike(a.ty):
            return True
        if sort_key(a.ty) == sort_key(b.ty) and is_reflike(a.ty):
            return True
        return all(t in (INT, NONE, FLOAT, BYTES, STR, VAL, BOOL) for t in (a.ty, b.ty))

    def merge(self, cond, a, b):
        if a.ty == b.ty:
            return SV(a.ty, z3.If(cond, a.z, b.z))
        if a.ty == NONE and is_reflike(b.ty):
            return SV(b.ty, z3.If(cond, I(0), b.z))
        if b.ty == NONE and is_reflike(a.ty):
            return SV(a.ty, z3.If(cond, a.z, I(0)))
        if is_reflike(a.ty) and is_reflike(b.ty):
            return SV(a.ty, z3.If(cond, a.z, b.z))
        return SV(VAL, z3.If(cond, self.to_val(a), self.to_val(b)))

    def pure_expr(self, e):
        """No calls (other than a few total builtins), so both branches can be evaluated eagerly."""
        for n in ast.walk(e):
            if isinstance(n, ast.Call):
                f = n.func
                if isinstance(f, ast.Name) and f.id in ('len', 'old', 'pow2', 'ite', 'abs', 'min', 'max', 'implies'):
                    continue
                return False
            if isinstance(n, (ast.ListComp, ast.List, ast.Dict, ast.Lambda)):
                return False
        return True

    def same_heap(self, a, b):
        if a.nalloc != b.nalloc:
            return False
        for k in set(a.heap) | set(b.heap):
            if not a.hget(k).eq(b.hget(k)):
                return False
        return True

    def branch_merge(self, st1, take_first, first, second, ctx):
        """Value = first() if take_first else second(); `first`/`second` map a state to a list of
        (state, SV).  Merges into an ite when both sides are single-valued and side-effect free,
        otherwise forks."""
        ts = z3.simplify(take_first)
        if z3.is_true(ts):
            return first(st1)
        if z3.is_false(ts):
            return second(st1)
        st_t = st1.fork()
        st_t.assume(take_first)
        st_f = st1.fork()
        st_f.assume(z3.Not(take_first))
        nt, nf = len(st_t.pc), len(st_f.pc)
        if not ctx.spec:
            ft, ff = self.feasible(st_t), self.feasible(st_f)
            if not ft and not ff:
                return []
            if not ft:
                return second(st_f)
            if not ff:
                return first(st_t)
        rt = first(st_t)
        rf = second(st_f)
        if len(rt) == 1 and len(rf) == 1 and self.mergeable(rt[0][1], rf[0][1]) \
                and self.same_heap(rt[0][0], st1) and self.same_heap(rf[0][0], st1):
            for f in rt[0][0].pc[nt:]:
                st1.assume(z3.Implies(take_first, f))
            for f in rf[0][0].pc[nf:]:
                st1.assume(z3.Implies(z3.Not(take_first), f))
            return [(st1, self.merge(take_first, rt[0][1], rf[0][1]))]
        return rt + rf

    def ev_IfExp(self, e, st, ctx):
        for st1, c in self.ev(e.test, st, ctx):
            cond = self.truth(st1, c)
            for r in self.branch_merge(st1, cond,
                                       lambda s: list(self.ev(e.body, s, ctx)),
                                       lambda s: list(self.ev(e.orelse, s, ctx)), ctx):
                yield r

    def ev_BoolOp(self, e, st, ctx):
        # a and b and c  /  a or b or c, returning operands (Python semantics)
        is_or = isinstance(e.op, ast.Or)

        def go(values, st0):
            if len(values) == 1:
                return list(self.ev(values[0], st0, ctx))
            out = []
            for st1, a in self.ev(values[0], st0, ctx):
                t = self.truth(st1, a)
                take_a = t if is_or else z3.Not(t)

                def second(s, _vals=values[1:]):
                    return go(_vals, s)

                def first(s, _a=a):
                    return [(s, _a)]
                res = self.branch_merge(st1, take_a, first, second, ctx)
                if len(res) == 1 and a.ty == BOOL and res[0][1].ty == BOOL:
                    pass
                out.extend(res)
            return out
        for r in go(e.values, st):
            yield r

    def ev_Compare(self, e, st, ctx):
        operands = [e.left] + list(e.comparators)
        if len(e.ops) == 1 or all(self.pure_expr(o) for o in operands):
            for st1, vals in self.ev_list(operands, st, ctx):
                conj = []
                for op, a, b in zip(e.ops, vals, vals[1:]):
                    conj.append(self.compare(ctx, st1, op, a, b))
                yield st1, SV(BOOL, conj[0] if len(conj) == 1 else z3.And(conj))
            return
        raise Unsupported('chained comparison with impure operands')

    def ev_Attribute(self, e, st, ctx):
        # module attribute shortcuts
        if isinstance(e.value, ast.Name):
            modattr = self.module_attr(ctx, st, e.value.id, e.attr)
            if modattr is not None:
                yield st, modattr
                return
        for st1, obj in self.ev(e.value, st, ctx):
            yield st1, self.get_attr(ctx, st1, obj, e.attr)

    def module_attr(self, ctx, st, modname, attr):
        if modname in ctx.bound or modname in st.locals:
            return None
        table = {
            ('string', 'whitespace'): lambda: self.lit(WHITESPACE),
            ('six', 'text_type'): lambda: SV(CLS, I(self.class_id('str'))),
            ('six', 'binary_type'): lambda: SV(CLS, I(self.class_id('bytes'))),
            ('six', 'PY3'): lambda: self.lit(True),
            ('six', 'PY2'): lambda: self.lit(False),
        }
        f = table.get((modname, attr))
        if f:
            return f()
        full = modname + '.' + attr
        if full in self.exc_table:
            return SV(CLS, I(self.class_id(full)))
        hook = self.opts.get('modattr_hook')
        if hook:
            return hook(self, ctx, modname, attr)
        return None

    def get_attr(self, ctx, st, obj, attr):
        t = obj.ty
        if isinstance(t, Ref):
            for k in self.mro(t.cls):
                info = self.classes.get(k, {})
                if attr in info.get('props', {}):
                    return info['props'][attr](self, ctx, st, obj)
                if attr in info.get('methods', {}):
                    return SV(ANYFUNC, ('bound', obj, attr))
            # property / method?
            dcls, fi = self.find_method(t.cls, attr)
            if fi is not None:
                if 'property' in fi.decorators:
                    outs = list(self.call_function(ctx, st, fi, [obj], {}, recv_cls=t.cls))
                    if len(outs) != 1 or outs[0][0] is not st:
                        raise Unsupported('forking property %s' % attr)
                    return outs[0][1]
                return SV(ANYFUNC, ('bound', obj, attr))
            mc = self.reg.get(self.method_contract_name(t.cls, attr))
            if mc is not None:
                return SV(ANYFUNC, ('bound', obj, attr))
            return self.read_field(ctx, st, obj, attr)
        if t in (STR, BYTES) or isinstance(t, (ListT, DictT)):
            return SV(ANYFUNC, ('bound', obj, attr))
        if t == VAL and attr in ('start', 'stop', 'step') and 'PySlice' in self.classes:
            # a dynamically typed slot used as a slice object: anything else has no such attribute
            self.safe(ctx, st, z3.And(Val.is_vref(obj.z), self.typeis(st, Val.rval(obj.z), 'PySlice')), 'AttributeError', 'slice attribute of a non-slice')
            st.assume(Val.rval(obj.z) > 0)       # vref(0) does not exist: None is vnone (to_val)
            return self.read_field(ctx, st, SV(Ref('PySlice'), Val.rval(obj.z)), attr)
        if t == VAL and attr in self.opts.get('val_attr_class', {}):
            # a dynamically typed slot used as an object of a known class (anything else has no such attribute)
            cls = self.opts['val_attr_class'][attr]
            self.safe(ctx, st, z3.And(Val.is_vref(obj.z), self.isinst(st, Val.rval(obj.z), cls)), 'AttributeError', 'attribute %s of a non-%s' % (attr, cls))
            st.assume(Val.rval(obj.z) > 0)
            return self.get_attr(ctx, st, SV(Ref(cls), Val.rval(obj.z)), attr)
        if t == VAL:
            return SV(ANYFUNC, ('bound', obj, attr))
        if isinstance(t, TupleT):
            names = getattr(t, 'names', None)
            if names and attr in names:
                return self.tuple_items(obj)[names.index(attr)]
            return SV(ANYFUNC, ('bound', obj, attr))
        if t == CLS:
            return SV(ANYFUNC, ('classattr', obj, attr))
        raise Unsupported('attribute %s on %r' % (attr, t))

    def method_contract_name(self, cls, meth):
        for c in self.mro(cls):
            info = self.classes.get(c)
            if info and 'module' in info:
                name = info['module'] + '.' + c + '.' + meth
                if self.reg.get(name) is not None:
                    return name
        info = self.classes.get(cls, {})
        return info.get('module', '?') + '.' + cls + '.' + meth

    def ev_Subscript(self, e, st, ctx):
        for st1, obj in self.ev(e.value, st, ctx):
            if isinstance(e.slice, ast.Slice):
                sl = e.slice
                parts = [sl.lower, sl.upper, sl.step]
                present = [p for p in parts if p is not None]
                for st2, vals in self.ev_list(present, st1, ctx):
                    it = iter(vals)
                    lo = next(it) if sl.lower is not None else None
                    hi = next(it) if sl.upper is not None else None
                    step = next(it) if sl.step is not None else None
                    if step is not None:
                        raise Unsupported('slice with step')
                    yield st2, self.slice_of(ctx, st2, obj, lo, hi)
                continue
            for st2, idx in self.ev(e.slice, st1, ctx):
                yield st2, self.index_of(ctx, st2, obj, idx)

    def index_of(self, ctx, st, obj, idx):
        t = obj.ty
        if isinstance(t, ListT):
            return self.list_get(ctx, st, obj, self.coerce(idx, INT).z)
        if isinstance(t, DictT):
            return self.dict_get(ctx, st, obj, idx)
        if t in (STR, BYTES):
            i = self.coerce(idx, INT).z
            n = z3.Length(obj.z)
            self.safe(ctx, st, z3.And(i >= -n, i < n), 'IndexError', 'string index')
            j = z3.If(i < 0, i + n, i)
            if t == BYTES:
                raise Unsupported('bytes[i] (int result)')
            return SV(STR, z3.SubString(obj.z, z3.simplify(j), 1))
        if isinstance(t, TupleT):
            i = z3.simplify(self.coerce(idx, INT).z)
            if z3.is_int_value(i):
                items = self.tuple_items(obj)
                k = i.as_long()
                if -len(items) <= k < len(items):
                    return items[k]
            raise Unsupported('tuple index')
        if isinstance(t, Ref):
            hook = self.class_hook(t.cls, 'getitem')
            if hook:
                return hook(self, ctx, st, obj, idx)
        raise Unsupported('subscript on %r' % (t,))

    def clamp(self, i, n):
        """Python slice index normalisation for step 1."""
        j = z3.If(i < 0, i + n, i)
        return z3.If(j < 0, I(0), z3.If(j > n, n, j))

    def slice_of(self, ctx, st, obj, lo, hi):
        t = obj.ty
        if t in (STR, BYTES):
            n = z3.Length(obj.z)
            a = self.clamp(self.coerce(lo, INT).z, n) if lo is not None and lo.ty != NONE else I(0)
            if (hi is None or hi.ty == NONE) and lo is not None and lo.ty == INT:
                # peephole: ("lit" ++ rest)[len("lit"):] == rest
                los = z3.simplify(lo.z)
                oz = obj.z
                if z3.is_int_value(los) and z3.is_app_of(oz, z3.Z3_OP_SEQ_CONCAT) and oz.num_args() == 2 \
                        and z3.is_string_value(oz.arg(0)) and len(pystr(oz.arg(0))) == los.as_long():
                    return SV(t, oz.arg(1))
            b = self.clamp(self.coerce(hi, INT).z, n) if hi is not None and hi.ty != NONE else n
            return SV(t, z3.SubString(obj.z, a, z3.If(b > a, b - a, I(0))))
        if isinstance(t, ListT):
            n = self.list_len(st, obj)
            a = self.clamp(self.coerce(lo, INT).z, n) if lo is not None and lo.ty != NONE else I(0)
            b = self.clamp(self.coerce(hi, INT).z, n) if hi is not None and hi.ty != NONE else n
            m = z3.If(b > a, b - a, I(0))
            r = self.new_list(st, t.elem)
            src = self.list_arr(st, obj)
            arr = fresh('slice', z3.ArraySort(z3.IntSort(), sort_of(t.elem)))
            j = fresh('j', z3.IntSort())
            st.assume(z3.ForAll([j], z3.Implies(z3.And(0 <= j, j < m), z3.Select(arr, j) == z3.Select(src, a + j)), patterns=[z3.Select(arr, j)]))
            self.list_set_raw(st, r, m, arr)
            return r
        if isinstance(t, TupleT):
            items = self.tuple_items(obj)
            a = 0 if lo is None else z3.simplify(lo.z)
            b = len(items) if hi is None else z3.simplify(hi.z)
            if not isinstance(a, int):
                a = a.as_long()
            if not isinstance(b, int):
                b = b.as_long()
            return self.mk_tuple(items[a:b])
        raise Unsupported('slice on %r' % (t,))

    def ev_ListComp(self, e, st, ctx):
        """[elt for x in L (if cond)] over a list (or enumerate(list)) with pure elt / cond.

        Without a filter: len(r) == len(L) and r[j] == elt(L[j]) for every j.
        With a filter the result is characterised by a strictly increasing index map `idx` (result position ->
        source position) whose range is exactly the set of source positions satisfying cond, together with
        its inverse `inv` (DESIGN 3.2, L6)."""
        hook = self.opts.get('listcomp_hook')
        if hook:
            r = hook(self, e, st, ctx)
            if r is not None:
                for x in r:
                    yield x
                return
        if len(e.generators) != 1 or len(e.generators[0].ifs) > 1 or e.generators[0].is_async:
            raise Unsupported('list comprehension shape')
        gen = e.generators[0]
        src = gen.iter
        enum = False
        if isinstance(src, ast.Call) and isinstance(src.func, ast.Name) and src.func.id == 'enumerate' and len(src.args) == 1:
            enum = True
            src = src.args[0]
        fresh_elt = isinstance(e.elt, (ast.List, ast.Dict)) and not getattr(e.elt, 'elts', None) and not getattr(e.elt, 'keys', None)
        if fresh_elt and not gen.ifs and isinstance(src, ast.Call) and isinstance(src.func, ast.Name) and src.func.id == 'range' \
                and len(src.args) == 1 and not enum:
            # [[] for _ in range(n)] / [{} for _ in range(n)]: n pairwise distinct fresh empty collections
            hint = getattr(e, '_pyvc_elem', None)
            if hint is None or not isinstance(hint, (ListT, DictT)):
                raise Unsupported('comprehension of fresh collections needs a type hint')
            for st1, nv in self.ev(src.args[0], st, ctx):
                yield st1, self.fresh_block(st1, hint, self.coerce(nv, INT).z)
            return
        zipped = None
        if isinstance(src, ast.Call) and isinstance(src.func, ast.Name) and src.func.id == 'zip' and len(src.args) == 2 and not src.keywords:
            # zip(a, b) of two lists: positions 0 .. min(len(a), len(b)) - 1, item = (a[j], b[j])
            zipped = src.args
            src = ast.Tuple(elts=list(src.args), ctx=ast.Load())
        for st1, seq in self.ev(src, st, ctx):
            if zipped is not None:
                seqs = [self.iter_source(ctx, st1, x) for x in self.tuple_items(seq)]
                if not all(isinstance(x.ty, ListT) for x in seqs):
                    raise Unsupported('list comprehension over zip of %r' % ([x.ty for x in seqs],))
                for x in seqs:
                    self.safe(ctx, st1, x.z != 0, 'TypeError', 'zip of None')
            else:
                seq = self.iter_source(ctx, st1, seq)
                if not isinstance(seq.ty, ListT):
                    raise Unsupported('list comprehension over %r' % (seq.ty,))
                seqs = [seq]
            lens = [self.list_len(st1, x) for x in seqs]
            for ln in lens:
                st1.assume(ln >= 0)
            n = lens[0] if len(lens) == 1 else z3.If(lens[0] <= lens[1], lens[0], lens[1])
            arrs = [self.list_arr(st1, x) for x in seqs]
            arr = arrs[0]
            jv = fresh('lc!j', z3.IntSort())

            def at(pos, want_cond, want_elt):
                """Evaluate cond / elt with the loop variable bound to L[pos] -> (facts, cond z3 | None, elt SV | None)"""
                tmp = st1.fork()
                tmp.assume(z3.And(0 <= pos, pos < n))
                n0 = len(tmp.pc)
                items = []
                for sq, ar in zip(seqs, arrs):
                    z = z3.Select(ar, pos)
                    self.ref_fact(tmp, sq.ty.elem, z)
                    self.elem_fact(tmp, sq.ty.elem, z)
                    it = SV(sq.ty.elem, z)
                    if isinstance(sq.ty.elem, Ref):
                        self.type_fact(tmp, it)
                    items.append(it)
                item = items[0] if zipped is None else self.mk_tuple(items)
                val = self.mk_tuple([SV(INT, pos), item]) if enum else item
                saved = {}
                names = [x.id for x in ast.walk(gen.target) if isinstance(x, ast.Name)]
                for nm in names:
                    saved[nm] = tmp.locals.get(nm)
                outs = self.assign(gen.target, val, tmp, ctx)
                if len(outs) != 1:
                    raise Unsupported('forking comprehension target')
                cz = None
                ez = None
                if want_cond and gen.ifs:
                    r1 = list(self.ev(gen.ifs[0], tmp, ctx))
                    if len(r1) != 1 or not self.same_heap(r1[0][0], st1):
                        raise Unsupported('comprehension filter is not a pure single-path expression')
                    tmp = r1[0][0]
                    cz = self.truth(tmp, r1[0][1])
                if want_elt:
                    r2 = list(self.ev(e.elt, tmp, ctx))
                    if len(r2) != 1 or not self.same_heap(r2[0][0], st1):
                        raise Unsupported('comprehension element is not a pure single-path expression')
                    tmp = r2[0][0]
                    ez = r2[0][1]
                return list(tmp.pc[n0:]), cz, ez

            mark = next(_fresh)
            facts, cz, ez = at(jv, True, True)
            probe = list(facts) + ([cz] if cz is not None else []) + ([ez.z] if not isinstance(ez.z, tuple) else [])
            if uses_fresh_since(probe, mark, jv):
                # a symbol introduced while evaluating the body would have to be a function of the position
                raise Unsupported('comprehension body introduces per-element fresh symbols')
            elem_ty = getattr(e, '_pyvc_elem', None) or ez.ty
            if isinstance(ez.z, tuple):
                raise Unsupported('comprehension element of python-level type')
            ezz = self.coerce(ez, elem_ty).z
            r = self.new_list(st1, elem_ty)
            rarr = fresh('lc!arr', z3.ArraySort(z3.IntSort(), sort_of(elem_ty)))
            rng = z3.And(0 <= jv, jv < n)
            if not gen.ifs:
                st1.assume(z3.ForAll([jv], z3.Implies(rng, z3.And(facts + [z3.Select(rarr, jv) == ezz]))))
                self.list_set_raw(st1, r, n, rarr)
                yield st1, r
                continue
            m = fresh('lc!m', z3.IntSort())
            idx = fresh('lc!idx', z3.ArraySort(z3.IntSort(), z3.IntSort()))
            inv = fresh('lc!inv', z3.ArraySort(z3.IntSort(), z3.IntSort()))
            kv = fresh('lc!k', z3.IntSort())
            k2 = fresh('lc!k2', z3.IntSort())
            # every result position comes from a source position that passes the filter
            sub = [(jv, z3.Select(idx, kv))]
            body_k = z3.substitute(z3.And(facts + [cz, z3.Select(rarr, kv) == ezz]), *sub)
            st1.assume(z3.And(m >= 0, m <= n))
            st1.assume(z3.ForAll([kv], z3.Implies(z3.And(0 <= kv, kv < m),
                                                  z3.And(0 <= z3.Select(idx, kv), z3.Select(idx, kv) < n,
                                                         z3.Select(inv, z3.Select(idx, kv)) == kv, body_k)),
                                 patterns=[z3.Select(rarr, kv), z3.Select(idx, kv)]))
            st1.assume(z3.ForAll([kv, k2], z3.Implies(z3.And(0 <= kv, kv < k2, k2 < m),
                                                      z3.Select(idx, kv) < z3.Select(idx, k2)),
                                 patterns=[z3.MultiPattern(z3.Select(idx, kv), z3.Select(idx, k2))]))
            # every source position that passes the filter is some result position
            if facts:
                st1.assume(z3.ForAll([jv], z3.Implies(rng, z3.And(facts))))
            st1.assume(z3.ForAll([jv], z3.Implies(z3.And(rng, cz),
                                                  z3.And(0 <= z3.Select(inv, jv), z3.Select(inv, jv) < m,
                                                         z3.Select(idx, z3.Select(inv, jv)) == jv)),
                                 patterns=[z3.Select(arr, jv), z3.Select(inv, jv)]))
            self.list_set_raw(st1, r, m, rarr)
            # the index maps are ghosts of the result list (definitional: contracts may speak about them, see lc_idx / lc_inv)
            ai = z3.ArraySort(z3.IntSort(), z3.IntSort())
            self.set_ghost(st1, 'lc_idx', ai, r.z, idx)
            self.set_ghost(st1, 'lc_inv', ai, r.z, inv)
            yield st1, r

    def ev_Lambda(self, e, st, ctx):
        yield st, SV(ANYFUNC, ('lambda', e, dict(st.locals)))

    def ev_JoinedStr(self, e, st, ctx):
        yield st, SV(STR, fresh('fstr', z3.StringSort()))

    def ev_Starred(self, e, st, ctx):
        raise Unsupported('starred expression')

    # ---- calls ----------------------------------------------------------------------
    def ev_Call(self, e, st, ctx):
        from . import builtins as bi
        for r in bi.eval_call(self, e, st, ctx):
            yield r

    # ------------------------------------------------------------------------------
    # spec evaluation helpers
    def spec_ctx(self, ctx, old_state=None, result=None, bound=None):
        c = Ctx(self, ctx.contract, ctx.finfo, spec=True)
        c.module = ctx.module
        c.cls = ctx.cls
        c.old_state = old_state
        c.result = result
        c.bound = dict(bound or {})
        c.implicit = 'assume'
        if getattr(ctx, 'loop_entry_state', None) is not None:
            c.loop_entry_state = ctx.loop_entry_state       # entry(e) / newer(x) stay usable inside quantifier bodies
        if getattr(ctx, 'call_exit_cache', None) is not None:
            c.call_exit_cache = ctx.call_exit_cache         # at_exit / has_exit inside an assumed postcondition
        return c

    def spec_eval(self, expr, st, ctx):
        """Evaluate a spec expression (str or ast) in state `st` without changing it."""
        if isinstance(expr, str):
            try:
                node = ast.parse(expr.strip(), mode='eval').body
            except SyntaxError as ex:
                raise Unsupported('spec syntax: %s in %r' % (ex, expr))
        else:
            node = expr
        base = st.fork()
        n0 = len(base.pc)
        outs = list(self.ev(node, base, ctx))
        if not outs:
            raise Unsupported('spec expression has no value: %s' % (expr,))
        if len(outs) == 1:
            extra = outs[0][0].pc[n0:]
            # facts introduced while evaluating (definitions of fresh symbols) are kept
            for f in extra:
                st.assume(f)
            st.heap.update({k: v for k, v in outs[0][0].heap.items() if k not in st.heap})
            st.nalloc = max(st.nalloc, outs[0][0].nalloc)
            return outs[0][1]
        res = None
        for s, sv in reversed(outs):
            guard = z3.And(s.pc[n0:]) if len(s.pc) > n0 else B(True)
            res = sv if res is None else self.merge(guard, sv, res)
        return res

    def spec_bool(self, expr, st, ctx):
        sv = self.spec_eval(expr, st, ctx)
        return self.truth(st, sv)
