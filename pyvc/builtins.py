"""Call evaluation: spec forms, builtin / library models (DESIGN.md section 5), contracts, inlining."""
import ast
import z3

from .ty import (INT, BOOL, STR, BYTES, FLOAT, NONE, VAL, REAL, ANYFUNC, Ref, ListT, DictT, TupleT,
                 Fl, Val, sort_of, sort_key, is_reflike)
from . import engine as E
from .engine import pystr, SV, Exc, Unsupported, CLS, I, B, S, fresh

BUILTIN_TYPES = ('int', 'str', 'bytes', 'list', 'tuple', 'dict', 'float', 'bool', 'slice', 'object', 'type')
E.BUILTIN_TYPES = BUILTIN_TYPES

SPEC_FORMS = ('old', 'forall', 'exists', 'implies', 'ite', 'pow2', 'typeis', 'isinst', 'fresh', 'joined', 'sumof',
              'haskey', 'dsize', 'vnone', 'vint', 'is_none', 'is_int', 'is_flt', 'is_byt', 'is_txt', 'ival', 'bval',
              'fval', 'tval', 'unchanged', 'select', 'strlen', 'isintlit', 'intlit', 'pystrip', 'int2str', 'zpad', 'fdiv',
              'fmul', 'fround', 'i2f', 'bitlen', 'popcount', 'substr', 'pow10', 'fpow10', 'allws', 'same_list',
              'list_eq_upto', 'alloc_lt', 'cls_of', 'isfresh', 'same_elems', 'str_contains', 'str_prefixof',
              'str_indexof', 'str_at', 'str_suffixof', 'Eq', 'wsonly', 'lstripped', 'val_eq',
              'U', 'app', 'splice', 'Bst', 'appb', 'Bin', 'appbin', 'is_binstr', 'binval',
              'prefix_same', 'outside_same', 'chars_eq', 'allspaces', 'allchar', 'is_bool', 'oval',
              'isdigits', 'str2int', 'same_dict', 'dval', 'gh', 'ghat', 'same_ghosts', 'npow2', 'asref', 'allzero_bytes', 'chars', 'entry', 'is_ref', 'refof', 'aslist_vv',
              'at_exit', 'has_exit', 'is_slice', 'slice_part', 'ndistinct', 'lc_idx', 'lc_inv', 'aslist_v', 'lc_map', 'at', 'aslist_i', 'uprefix_same', 'newer')


EXTRA_SPEC_FORMS = {}


def eval_call(eng, e, st, ctx):
    f = e.func
    if e.keywords and any(k.arg is None for k in e.keywords):
        raise Unsupported('**kwargs call')
    if isinstance(f, ast.Name):
        name = f.id
        if name in st.locals or name in ctx.bound:
            fv = eng.lookup_name(name, st, ctx)
            for r in apply_args(eng, e, st, ctx, fv):
                yield r
            return
        if name in SPEC_FORMS and (ctx.spec or name in ('pow2',) or (ctx.module or '').startswith('spec.')):
            yield st, spec_form(eng, e, st, ctx)
            return
        if name in EXTRA_SPEC_FORMS and ctx.spec:
            # spec forms contributed by the class table (contracts/classes.py): fn(eng, ctx, st, [argument values]) -> value
            for st2, args in eng.ev_list(e.args, st, ctx):
                yield st2, EXTRA_SPEC_FORMS[name](eng, ctx, st2, args)
            return
        if name in eng.reg.predicates and ctx.spec:
            for st2, args in eng.ev_list(e.args, st, ctx):
                yield st2, call_predicate(eng, ctx, st2, name, args)
            return
        if name in eng.spec_funcs and ctx.spec:
            for st2, args in eng.ev_list(e.args, st, ctx):
                yield st2, call_spec_func(eng, ctx, st2, name, args)
            return
        if name == 'slice' and len(e.args) == 1 and isinstance(e.args[0], ast.Starred) and not e.keywords:
            for r in b_slice_starred(eng, e, st, ctx):
                yield r
            return
        h = BUILTINS.get(name)
        if h is not None:
            for r in h(eng, e, st, ctx):
                yield r
            return
        # module-level function / class
        target = resolve_name(eng, ctx, name)
        if target is not None:
            kind, q = target
            if kind == 'func':
                for st2, args, kwargs in ev_args(eng, e, st, ctx):
                    for r in eng.call_qualname(ctx, st2, q, args, kwargs):
                        yield r
                return
            if kind == 'class':
                for st2, args, kwargs in ev_args(eng, e, st, ctx):
                    for r in eng.construct(ctx, st2, q, args, kwargs):
                        yield r
                return
            if kind == 'exc':
                yield st, SV(CLS, ('excinst', q))
                return
        raise Unsupported('call of %s' % name)
    if isinstance(f, ast.Attribute):
        # super(X, self).meth(...)
        if isinstance(f.value, ast.Call) and isinstance(f.value.func, ast.Name) and f.value.func.id == 'super':
            sargs = f.value.args
            cls = sargs[0].id if sargs else ctx.cls
            for st2, args, kwargs in ev_args(eng, e, st, ctx):
                selfv = st2.locals.get('self')
                bases = eng.bases(cls)
                done = False
                for b in bases:
                    dcls, fi = eng.find_method(b, f.attr)
                    if fi is not None:
                        for r in eng.call_function(ctx, st2, fi, [selfv] + args, kwargs, recv_cls=dcls, static=True):
                            yield r
                        done = True
                        break
                if not done:
                    if f.attr == '__init__':
                        yield st2, eng.lit(None)
                    else:
                        raise Unsupported('super().%s not found' % f.attr)
            return
        if isinstance(f.value, ast.Name) and f.value.id not in st.locals and f.value.id not in ctx.bound:
            h = MODULE_FUNCS.get((f.value.id, f.attr)) or eng.opts.get('module_funcs', {}).get((f.value.id, f.attr))
            if h is not None:
                for r in h(eng, e, st, ctx):
                    yield r
                return
        for st1, fv in eng.ev(f, st, ctx):
            for r in apply_args(eng, e, st1, ctx, fv):
                yield r
        return
    for st1, fv in eng.ev(f, st, ctx):
        for r in apply_args(eng, e, st1, ctx, fv):
            yield r


def ev_args(eng, e, st, ctx):
    """-> (state, [positional SV], {kw: SV}); supports *tuple_literal-free calls only."""
    pos = []
    for a in e.args:
        if isinstance(a, ast.Starred):
            raise Unsupported('*args call')
        pos.append(a)
    kwn = [k.arg for k in e.keywords]
    kwe = [k.value for k in e.keywords]
    for st2, vals in eng.ev_list(pos + kwe, st, ctx):
        yield st2, vals[:len(pos)], dict(zip(kwn, vals[len(pos):]))


def apply_args(eng, e, st, ctx, fv):
    for st2, args, kwargs in ev_args(eng, e, st, ctx):
        for r in apply(eng, ctx, st2, fv, args, kwargs):
            yield r


def apply(eng, ctx, st, fv, args, kwargs):
    if fv.ty == CLS:
        # calling a class object: constructor
        if isinstance(fv.z, tuple):
            raise Unsupported('call of exception instance')
        cid = z3.simplify(fv.z)
        if z3.is_int_value(cid):
            for name, k in eng.class_ids.items():
                if k == cid.as_long():
                    for r in eng.construct(ctx, st, name, args, kwargs):
                        yield r
                    return
        raise Unsupported('call of symbolic class')
    if isinstance(fv.ty, Ref):
        hook = eng.class_hook(fv.ty.cls, 'call')
        if hook is None:
            raise Unsupported('call of an object of class %s' % fv.ty.cls)
        eng.safe(ctx, st, fv.z != 0, 'TypeError', 'call of None')
        for r in hook(eng, ctx, st, fv, args, kwargs):
            yield r
        return
    if fv.ty != ANYFUNC:
        raise Unsupported('call of non-function %r' % (fv.ty,))
    d = fv.z
    kind = d[0]
    if kind == 'bound':
        obj, name = d[1], d[2]
        t = obj.ty
        if t in (STR, BYTES):
            for r in str_method(eng, ctx, st, obj, name, args, kwargs):
                yield r
            return
        if isinstance(t, ListT):
            for r in list_method(eng, ctx, st, obj, name, args, kwargs):
                yield r
            return
        if isinstance(t, DictT):
            for r in dict_method(eng, ctx, st, obj, name, args, kwargs):
                yield r
            return
        if isinstance(t, Ref):
            for r in eng.call_method(ctx, st, obj, name, args, kwargs):
                yield r
            return
        if t == VAL:
            # method on a dynamically typed value: split on the variants that have the method
            if name in ('strip', 'rstrip', 'lstrip', 'decode', 'encode', 'startswith'):
                outs = []
                for pred, acc, ty in ((Val.is_vbyt, Val.bval, BYTES), (Val.is_vtxt, Val.tval, STR)):
                    s2 = st.fork()
                    s2.assume(pred(obj.z))
                    if eng.feasible(s2):
                        for r in str_method(eng, ctx, s2, SV(ty, acc(obj.z)), name, args, kwargs):
                            yield r
                eng.safe(ctx, st, z3.Or(Val.is_vbyt(obj.z), Val.is_vtxt(obj.z)), 'AttributeError', 'str method on non-str')
                return
        raise Unsupported('method %s on %r' % (name, t))
    if kind == 'func':
        for r in eng.call_qualname(ctx, st, d[1], args, kwargs):
            yield r
        return
    if kind == 'lambda':
        node, closure = d[1], d[2]
        names = [a.arg for a in node.args.args]
        saved = dict(st.locals)
        st.locals = dict(closure)
        st.locals.update(dict(zip(names, args)))
        outs = list(eng.ev(node.body, st, ctx))
        for s2, sv in outs:
            s2.locals = dict(saved)
            yield s2, sv
        return
    if kind == 'partial':
        for r in apply(eng, ctx, st, d[1], list(d[2]) + args, kwargs):
            yield r
        return
    if kind == 'model':
        for r in d[1](eng, ctx, st, args, kwargs):
            yield r
        return
    if kind == 'builtin':
        raise Unsupported('indirect call of builtin %s' % d[1])
    if kind == 'classattr':
        # Class.method(...): static methods and plain functions looked up on the class
        cid = z3.simplify(d[1].z)
        if z3.is_int_value(cid):
            cname = [n for n, k in eng.class_ids.items() if k == cid.as_long()]
            if cname:
                dcls, fi = eng.find_method(cname[0], d[2])
                if fi is not None:
                    q = fi.qualname
                    c = eng.reg.get(q)
                    if c is not None and not c.inline:
                        for r in eng.use_contract(ctx, st, c, args, kwargs, fi):
                            yield r
                    else:
                        for r in eng.call_function(ctx, st, fi, args, kwargs, recv_cls=dcls, static=True):
                            yield r
                    return
        raise Unsupported('class attribute call %s' % d[2])
    raise Unsupported('apply %s' % kind)


def resolve_name(eng, ctx, name):
    if not ctx.module:
        return None
    m = eng.db.module(ctx.module)
    if name in m.functions:
        return 'func', ctx.module + '.' + name
    if name in m.classes:
        return ('exc' if name in eng.exc_table and name not in eng.classes else 'class'), name
    tgt = m.imports.get(name)
    if tgt:
        tm, _, tn = tgt.rpartition('.')
        if tn in eng.exc_table and tn not in eng.classes:
            return 'exc', tn
        if eng.known_class(tn):
            return 'class', tn
        if tm.startswith('pybufrkit'):
            return 'func', tgt
    if name in eng.exc_table:
        return 'exc', name
    if eng.known_class(name):
        return 'class', name
    return None


# ---------------------------------------------------------------------------------
# spec forms

def spec_form(eng, e, st, ctx):
    name = e.func.id
    a = e.args

    def ev1(x, c=None, s=None):
        return eng.spec_eval(x, s or st, c or ctx)

    if name == 'old':
        if ctx.old_state is None:
            raise Unsupported('old() outside a postcondition')
        c2 = eng.spec_ctx(ctx, old_state=ctx.old_state, result=ctx.result, bound=ctx.bound)
        tmp = ctx.old_state.fork()
        n0 = len(tmp.pc)
        sv = eng.spec_eval(a[0], tmp, c2)
        # facts about the old heap (well-formedness, definitions) are facts of the current path too
        for f in tmp.pc[n0:]:
            st.assume(f)
        return sv
    if name in ('forall', 'exists'):
        var = a[0].id
        c = fresh(var, z3.IntSort())
        lo = ev1(a[1])
        hi = ev1(a[2])
        c2 = eng.spec_ctx(ctx, old_state=ctx.old_state, result=ctx.result, bound=ctx.bound)
        c2.bound[var] = SV(INT, c)
        tmp = st.fork()
        n0 = len(tmp.pc)
        body = eng.spec_eval(a[3], tmp, c2)
        bz = eng.truth(tmp, body)
        extra = tmp.pc[n0:]
        rng = z3.And(lo.z <= c, c < hi.z)
        if extra:
            # facts met while evaluating the body (heap well-formedness, definitions of fresh symbols) are assumptions of
            # the model for every position of the range; they are not part of the quantified statement
            wf = z3.Implies(rng, z3.And(extra))
            st.assume(forall_with_patterns(c, wf))
        if name == 'forall':
            return SV(BOOL, forall_with_patterns(c, z3.Implies(rng, bz)))
        return SV(BOOL, z3.Exists([c], z3.And([rng, bz])))
    if name == 'implies':
        p = eng.truth(st, ev1(a[0]))
        if z3.is_false(z3.simplify(p)):
            return SV(BOOL, B(True))          # the consequent may be undefined on this path (e.g. at_exit)
        tmp = st.fork()
        tmp.assume(p)
        n0 = len(tmp.pc)
        q = eng.truth(tmp, eng.spec_eval(a[1], tmp, ctx))
        extra = tmp.pc[n0:]
        if extra:
            st.assume(z3.Implies(p, z3.And(extra)))      # well-formedness facts are assumptions, not part of the claim
        return SV(BOOL, z3.Implies(p, q))
    if name == 'ite':
        c = eng.truth(st, ev1(a[0]))
        x, y = ev1(a[1]), ev1(a[2])
        return eng.merge(c, x, y)
    if name == 'Eq':
        x, y = ev1(a[0]), ev1(a[1])
        return SV(BOOL, eng.equal(st, x, y))
    if name == 'pow2':
        return SV(INT, E.pow2_term(ev1(a[0]).z))
    if name == 'pow10':
        return SV(INT, E.pow10_term(ev1(a[0]).z))
    if name == 'fpow10':
        return SV(FLOAT, E.f_pow10(ev1(a[0]).z))
    if name in ('typeis', 'isinst'):
        x = ev1(a[0])
        cls = a[1].value
        return SV(BOOL, eng.typeis(st, x.z, cls) if name == 'typeis' else eng.isinst(st, x.z, cls))
    if name == 'cls_of':
        x = ev1(a[0])
        return SV(INT, z3.Select(st.hget(('type',)), x.z))
    if name == 'joined':
        x = ev1(a[0])
        return SV(STR, eng.get_ghost(st, 'joined', z3.StringSort(), x.z))
    if name == 'sumof':
        x = ev1(a[0])
        return SV(INT, eng.get_ghost(st, 'sum', z3.IntSort(), x.z))
    if name == 'haskey':
        d, k = ev1(a[0]), ev1(a[1])
        return SV(BOOL, eng.contains(ctx, st, d, k))
    if name == 'dsize':
        d = ev1(a[0])
        return SV(INT, z3.Select(st.hget(E.dkeys(d.ty.key, d.ty.val)[2]), d.z))
    if name == 'vnone':
        return SV(VAL, Val.vnone)
    if name == 'vint':
        return SV(VAL, Val.vint(ev1(a[0]).z))
    if name == 'aslist_vv':
        # the list of per-subset value lists held in a dynamically typed slot (SectionParameter.value of the data section)
        x = ev1(a[0])
        return SV(ListT(ListT(VAL)), Val.rval(eng.coerce(x, VAL).z))
    if name == 'is_ref':
        x = ev1(a[0])
        return SV(BOOL, Val.is_vref(eng.coerce(x, VAL).z))
    if name == 'refof':
        # refof(v, 'list:val') style casts are not needed: refof(v) gives the identity held in a dynamically typed slot
        x = ev1(a[0])
        return SV(INT, Val.rval(eng.coerce(x, VAL).z))
    if name in ('is_none', 'is_int', 'is_flt', 'is_byt', 'is_txt', 'is_bool'):
        x = ev1(a[0])
        if x.ty != VAL:
            x = eng.coerce(x, VAL)
        p = {'is_none': Val.is_vnone, 'is_int': Val.is_vint, 'is_flt': Val.is_vflt, 'is_byt': Val.is_vbyt,
             'is_txt': Val.is_vtxt, 'is_bool': Val.is_vbool}[name]
        return SV(BOOL, p(x.z))
    if name in ('ival', 'bval', 'fval', 'tval', 'oval'):
        x = ev1(a[0])
        acc, ty = {'ival': (Val.ival, INT), 'bval': (Val.bval, BYTES), 'fval': (Val.fval, FLOAT), 'tval': (Val.tval, STR),
                   'oval': (Val.oval, BOOL)}[name]
        return SV(ty, acc(eng.coerce(x, VAL).z))
    if name == 'val_eq':
        x, y = ev1(a[0]), ev1(a[1])
        return SV(BOOL, eng.coerce(x, VAL).z == eng.coerce(y, VAL).z)
    if name == 'strlen':
        return SV(INT, z3.Length(ev1(a[0]).z))
    if name == 'substr':
        x = ev1(a[0])
        return SV(x.ty, z3.SubString(x.z, ev1(a[1]).z, ev1(a[2]).z))
    if name == 'chars_eq':
        # equality of the character sequences of two str / bytes values (latin-1 view, L5)
        return SV(BOOL, ev1(a[0]).z == ev1(a[1]).z)
    if name == 'str_contains':
        return SV(BOOL, z3.Contains(ev1(a[0]).z, ev1(a[1]).z))
    if name == 'str_prefixof':
        return SV(BOOL, z3.PrefixOf(ev1(a[0]).z, ev1(a[1]).z))
    if name == 'str_suffixof':
        return SV(BOOL, z3.SuffixOf(ev1(a[0]).z, ev1(a[1]).z))
    if name == 'str_indexof':
        return SV(INT, z3.IndexOf(ev1(a[0]).z, ev1(a[1]).z, ev1(a[2]).z))
    if name == 'str_at':
        return SV(STR, z3.SubString(ev1(a[0]).z, ev1(a[1]).z, I(1)))
    if name == 'isdigits':
        return SV(BOOL, z3.InRe(ev1(a[0]).z, z3.Plus(digits_re())))
    if name == 'str2int':
        return SV(INT, z3.StrToInt(ev1(a[0]).z))
    if name == 'isintlit':
        return SV(BOOL, E.s_isint(ev1(a[0]).z))
    if name == 'intlit':
        return SV(INT, E.s_toint(ev1(a[0]).z))
    if name == 'pystrip':
        return SV(STR, E.s_strip(ev1(a[0]).z))
    if name == 'allws' or name == 'wsonly':
        return SV(BOOL, z3.InRe(ev1(a[0]).z, z3.Star(ws_re())))
    if name == 'int2str':
        return SV(STR, int_to_str(ev1(a[0]).z))
    if name == 'zpad':
        return SV(STR, zpad(ev1(a[0]).z, int(a[1].value)))
    if name == 'fdiv':
        return SV(FLOAT, E.f_div(eng.as_float(ev1(a[0])), eng.as_float(ev1(a[1]))))
    if name == 'fmul':
        return SV(FLOAT, E.f_mul(eng.as_float(ev1(a[0])), eng.as_float(ev1(a[1]))))
    if name == 'fround':
        return SV(INT, E.f_round(eng.as_float(ev1(a[0]))))
    if name == 'i2f':
        return SV(FLOAT, E.f_i2f(ev1(a[0]).z))
    if name == 'bitlen':
        return SV(INT, E.bitlen_f(ev1(a[0]).z))
    if name == 'popcount':
        return SV(INT, E.popcount_f(ev1(a[0]).z))
    if name == 'isfresh' or name == 'fresh':
        x = ev1(a[0])
        if ctx.old_state is None:
            raise Unsupported('fresh() outside postcondition')
        return SV(BOOL, z3.And(x.z >= ctx.old_state.alloc + ctx.old_state.nalloc, x.z != 0))
    if name == 'newer':
        # newer(x): x was allocated after the enclosing loop was entered (loop invariants; outside a loop: after function entry)
        x = ev1(a[0])
        base = getattr(ctx, 'loop_entry_state', None) or ctx.old_state
        if base is None:
            raise Unsupported('newer() outside a loop invariant / postcondition')
        return SV(BOOL, z3.And(x.z >= base.alloc + base.nalloc, x.z != 0))
    if name == 'unchanged':
        # unchanged(obj): every declared field of obj has its old value (objects only)
        x = ev1(a[0])
        if ctx.old_state is None:
            raise Unsupported('unchanged() outside postcondition')
        conj = []
        fields = {}
        for c in eng.mro(x.ty.cls):
            fields.update(eng.classes.get(c, {}).get('fields', {}))
        excl = set(k.value for k in a[1:])
        for fname, fty in fields.items():
            if fname in excl or fty in (CLS, ANYFUNC):
                continue
            k = E.fkey(fname, fty)
            conj.append(z3.Select(st.hget(k), x.z) == z3.Select(ctx.old_state.hget(k), x.z))
        return SV(BOOL, z3.And(conj) if conj else B(True))
    if name in ('same_list', 'same_elems'):
        # same_list(l): list l has the same length and elements as in the old state
        x = ev1(a[0])
        if ctx.old_state is None:
            raise Unsupported('same_list() outside postcondition')
        el = x.ty.elem
        o = ctx.old_state
        return SV(BOOL, z3.And(z3.Select(st.hget(E.lkey(el)), x.z) == z3.Select(o.hget(E.lkey(el)), x.z),
                               z3.Select(st.hget(E.ekey(el)), x.z) == z3.Select(o.hget(E.ekey(el)), x.z)))
    if name in ('gh', 'ghat'):
        # ghost fields declared in the class table (`ghosts`): gh(obj, 'name') / ghat(obj, 'name', k) for array-valued ghosts
        x = ev1(a[0])
        gname = a[1].value
        srt = None
        for c in eng.mro(x.ty.cls):
            srt = eng.classes.get(c, {}).get('ghosts', {}).get(gname, srt)
        if srt is None:
            raise Unsupported('ghost %s of %s' % (gname, x.ty.cls))
        z = z3.Select(st.hget(eng.ghost_key(gname, srt)), x.z)
        for c in eng.mro(x.ty.cls):
            ff = eng.classes.get(c, {}).get('ghost_facts', {})
            if gname in ff:
                st.assume(ff[gname](z))
        if name == 'ghat':
            z = z3.Select(z, ev1(a[2]).z)
            rs = srt.range()
        else:
            rs = srt
        ty = {z3.IntSort(): INT, z3.BoolSort(): BOOL, z3.StringSort(): STR}.get(rs)
        if ty is None:
            ty = FLOAT if rs == Fl else None
        if ty is None:
            raise Unsupported('ghost sort %s' % rs)
        return SV(ty, z)
    if name == 'entry':
        # entry(e): e evaluated in the state in which the enclosing loop was entered (loop invariants / step clauses)
        les = getattr(ctx, 'loop_entry_state', None)
        if les is None:
            raise Unsupported('entry() outside a loop invariant')
        c2 = eng.spec_ctx(ctx, old_state=ctx.old_state, result=ctx.result, bound=ctx.bound)
        tmp = les.fork()
        n0 = len(tmp.pc)
        sv = eng.spec_eval(a[0], tmp, c2)
        for f in tmp.pc[n0:]:
            st.assume(f)
        return sv
    if name == 'ndistinct':
        return SV(INT, ndistinct(eng, st, ev1(a[0])))
    if name in ('lc_idx', 'lc_inv'):
        # the index maps of a filtering list comprehension (ghosts of its result list): lc_idx(r, k) = source position of
        # result element k (strictly increasing), lc_inv(r, i) = result position of source element i (for those that pass)
        r = ev1(a[0])
        g = eng.get_ghost(st, name, _AI, r.z)
        return SV(INT, z3.Select(g, ev1(a[1]).z))
    if name == 'lc_map':
        # lc_map(r, 'lc_idx' | 'lc_inv'): the whole index map of a filtering comprehension's result list (an Int -> Int array)
        from .engine import BITS
        r = ev1(a[0])
        return SV(BITS, eng.get_ghost(st, a[1].value, _AI, r.z))
    if name == 'at':
        return SV(INT, z3.Select(ev1(a[0]).z, ev1(a[1]).z))
    if name == 'aslist_v':
        x = ev1(a[0])
        return SV(ListT(VAL), Val.rval(eng.coerce(x, VAL).z))
    if name == 'aslist_i':
        # the list of ints held in a dynamically typed slot (the descriptor ids of section 3)
        x = ev1(a[0])
        return SV(ListT(INT), Val.rval(eng.coerce(x, VAL).z))
    if name == 'is_slice':
        v = eng.coerce(ev1(a[0]), VAL).z
        return SV(BOOL, z3.And(Val.is_vref(v), Val.rval(v) > 0, eng.typeis(st, Val.rval(v), 'PySlice')))
    if name == 'slice_part':
        v = eng.coerce(ev1(a[0]), VAL).z
        return SV(VAL, z3.Select(st.hget(E.fkey(a[1].value, VAL)), Val.rval(v)))
    if name == 'has_exit' and getattr(ctx, 'call_exit_cache', None) is not None:
        return SV(BOOL, B(True))          # assumed postcondition of a callee that returned normally: its loops were left
    if name == 'has_exit':
        # has_exit(k): this path left loop k (normally or by break) -- decided per path, not a formula
        return SV(BOOL, B(('exit%d' % int(a[0].value)) in st.marks))
    if name == 'at_exit' and getattr(ctx, 'call_exit_cache', None) is not None:
        # in the ASSUMED postcondition of a call, the callee's loop-exit state is not visible: at_exit(k, e) is an unknown value of e's
        # type, the same for every mention of the same expression within this call (a weaker, hence sound, reading)
        key = (int(a[0].value), ast.unparse(a[1]))
        if key not in ctx.call_exit_cache:
            probe = eng.spec_eval(a[1], st.fork(), eng.spec_ctx(ctx, old_state=ctx.old_state, result=ctx.result, bound=ctx.bound))
            if isinstance(probe.z, tuple):
                raise Unsupported('at_exit of a Python-level value in an assumed postcondition')
            ctx.call_exit_cache[key] = SV(probe.ty, fresh('atexit', probe.z.sort()))
        return ctx.call_exit_cache[key]
    if name == 'at_exit':
        # at_exit(k, e): e evaluated in the state in which this path left loop k
        m = st.marks.get('exit%d' % int(a[0].value))
        if m is None:
            raise Unsupported('at_exit(%s, ..) on a path that did not leave that loop (guard it with has_exit)' % a[0].value)
        c2 = eng.spec_ctx(ctx, old_state=ctx.old_state, result=ctx.result, bound=ctx.bound)
        tmp = m.fork()
        n0 = len(tmp.pc)
        sv = eng.spec_eval(a[1], tmp, c2)
        for f in tmp.pc[n0:]:
            st.assume(f)
        return sv
    if name == 'chars':
        # the character sequence of a bytes / text value (latin-1 view, L5)
        x = ev1(a[0])
        if x.ty in (STR, BYTES):
            return SV(STR, x.z)
        v = eng.coerce(x, VAL).z
        return SV(STR, z3.If(Val.is_vbyt(v), Val.bval(v), Val.tval(v)))
    if name == 'asref':
        # asref(int expression, 'Class'): view an object identity kept in an integer ghost as a reference of that class
        return SV(Ref(a[1].value), ev1(a[0]).z)
    if name == 'same_ghosts':
        x = ev1(a[0])
        conj = []
        for c in eng.mro(x.ty.cls):
            for gname, srt in eng.classes.get(c, {}).get('ghosts', {}).items():
                k = eng.ghost_key(gname, srt)
                conj.append(z3.Select(st.hget(k), x.z) == z3.Select(ctx.old_state.hget(k), x.z))
        return SV(BOOL, z3.And(conj) if conj else B(True))
    if name == 'npow2':
        return SV(INT, -E.pow2_term(ev1(a[0]).z))
    if name == 'same_dict':
        x = ev1(a[0])
        if ctx.old_state is None:
            raise Unsupported('same_dict() outside a two-state clause')
        o = ctx.old_state
        return SV(BOOL, z3.And([z3.Select(st.hget(k), x.z) == z3.Select(o.hget(k), x.z) for k in E.dkeys(x.ty.key, x.ty.val)]))
    if name == 'dval':
        d, k = ev1(a[0]), ev1(a[1])
        kk = eng.coerce(k, d.ty.key)
        return SV(d.ty.val, z3.Select(z3.Select(st.hget(E.dkeys(d.ty.key, d.ty.val)[1]), d.z), kk.z))
    if name == 'list_eq_upto':
        # list_eq_upto(l, n): first n elements equal the old ones
        x, n = ev1(a[0]), ev1(a[1])
        el = x.ty.elem
        o = ctx.old_state
        j = fresh('j', z3.IntSort())
        return SV(BOOL, z3.ForAll([j], z3.Implies(z3.And(0 <= j, j < n.z),
                                                  z3.Select(z3.Select(st.hget(E.ekey(el)), x.z), j) ==
                                                  z3.Select(z3.Select(o.hget(E.ekey(el)), x.z), j))))
    if name in BIT_FORMS:
        return BIT_FORMS[name](eng, st, [ev1(x) for x in a])
    if name == 'select':
        lst, i = ev1(a[0]), ev1(a[1])
        z = z3.Select(eng.list_arr(st, lst), i.z)
        eng.ref_fact(st, lst.ty.elem, z)
        return SV(lst.ty.elem, z)
    raise Unsupported('spec form %s' % name)


def forall_with_patterns(c, body):
    pats = index_patterns(body, c)
    if pats:
        try:
            return z3.ForAll([c], body, patterns=pats)
        except z3.Z3Exception:
            pass          # a candidate trigger z3 does not accept (e.g. it contains an if-then-else): let z3 choose
    return z3.ForAll([c], body)


def index_patterns(body, c):
    """Triggers for a bounded quantifier over a list position: the array reads indexed exactly by the bound
    variable (smallest first).  Keeps E-matching from choosing a trigger that never occurs in ground facts."""
    found = {}
    seen = set()
    stack = [body]
    while stack:
        x = stack.pop()
        if x.get_id() in seen:
            continue
        seen.add(x.get_id())
        if z3.is_quantifier(x):
            stack.append(x.body())
            continue
        if z3.is_app_of(x, z3.Z3_OP_SELECT) and x.arg(1).eq(c) and not _mentions(x.arg(0), c):
            if not _has_bound_var(x.arg(0)) and not _has_connective(x.arg(0)):
                found[x.get_id()] = x
        stack.extend(x.children())
    pats = sorted(found.values(), key=lambda t: len(str(t)))
    return pats[:2]


def _mentions(e, c):
    seen = set()
    stack = [e]
    while stack:
        x = stack.pop()
        if x.get_id() in seen:
            continue
        seen.add(x.get_id())
        if x.eq(c):
            return True
        stack.extend(x.children())
    return False


def _has_connective(e):
    """if-then-else / boolean structure inside a term: not allowed in a trigger"""
    seen = set()
    stack = [e]
    while stack:
        x = stack.pop()
        if x.get_id() in seen:
            continue
        seen.add(x.get_id())
        if z3.is_app(x) and x.decl().kind() in (z3.Z3_OP_ITE, z3.Z3_OP_AND, z3.Z3_OP_OR, z3.Z3_OP_NOT, z3.Z3_OP_IMPLIES, z3.Z3_OP_EQ,
                                                z3.Z3_OP_LE, z3.Z3_OP_LT, z3.Z3_OP_GE, z3.Z3_OP_GT):
            return True
        stack.extend(x.children())
    return False


def _has_bound_var(e):
    seen = set()
    stack = [e]
    while stack:
        x = stack.pop()
        if x.get_id() in seen:
            continue
        seen.add(x.get_id())
        if z3.is_var(x):
            return True
        stack.extend(x.children())
    return False


_BA = z3.ArraySort(z3.IntSort(), z3.IntSort())
U_f = z3.Function('U', _BA, z3.IntSort(), z3.IntSort(), z3.IntSort())
Bst_f = z3.Function('Bst', _BA, z3.IntSort(), z3.IntSort(), z3.StringSort())
Bin_f = z3.Function('Bin', _BA, z3.IntSort(), z3.IntSort(), z3.StringSort())


def _frame_before(b2, b1, upto):
    """Every field lying entirely before bit `upto` reads the same in b2 as in b1."""
    q = fresh('q', z3.IntSort())
    m = fresh('m', z3.IntSort())
    inside = z3.And(0 <= q, m >= 0, q + m <= upto)
    return z3.And(
        z3.ForAll([q, m], z3.Implies(inside, U_f(b2, q, m) == U_f(b1, q, m)), patterns=[U_f(b2, q, m)]),
        z3.ForAll([q, m], z3.Implies(inside, Bst_f(b2, q, m) == Bst_f(b1, q, m)), patterns=[Bst_f(b2, q, m)]),
        z3.ForAll([q, m], z3.Implies(inside, Bin_f(b2, q, m) == Bin_f(b1, q, m)), patterns=[Bin_f(b2, q, m)]))


def bf_U(eng, st, a):
    from .engine import BITS
    t = U_f(a[0].z, a[1].z, a[2].z)
    st.assume(z3.And(t >= 0, t < E.pow2_term(a[2].z)))
    return SV(INT, t)


def bf_app(eng, st, a):
    from .engine import BITS
    b1, l, n, v = a[0].z, a[1].z, a[2].z, a[3].z
    b2 = fresh('bits', _BA)
    st.assume(z3.And(U_f(b2, l, n) == v, _frame_before(b2, b1, l)))
    return SV(BITS, b2)


def bf_splice(eng, st, a):
    from .engine import BITS
    b1, lo, hi, n2, v2 = [x.z for x in a]
    b2 = fresh('bits', _BA)
    q = fresh('q', z3.IntSort())
    m = fresh('m', z3.IntSort())
    after = z3.ForAll([q, m], z3.Implies(z3.And(q >= hi, m >= 0), U_f(b2, q - (hi - lo) + n2, m) == U_f(b1, q, m)),
                      patterns=[U_f(b1, q, m)])
    st.assume(z3.And(U_f(b2, lo, n2) == v2, _frame_before(b2, b1, lo), after))
    return SV(BITS, b2)


def bf_Bst(eng, st, a):
    t = Bst_f(a[0].z, a[1].z, a[2].z)
    st.assume(z3.Length(t) == z3.If(a[2].z > 0, a[2].z, I(0)))
    return SV(BYTES, t)


def bf_appb(eng, st, a):
    from .engine import BITS
    b1, l, s = a[0].z, a[1].z, a[2].z
    b2 = fresh('bits', _BA)
    st.assume(z3.And(Bst_f(b2, l, z3.Length(s)) == s, _frame_before(b2, b1, l)))
    return SV(BITS, b2)


def bf_Bin(eng, st, a):
    t = Bin_f(a[0].z, a[1].z, a[2].z)
    st.assume(z3.And(z3.Length(t) == z3.If(a[2].z > 0, a[2].z, I(0)), z3.InRe(t, z3.Star(z3.Union(z3.Re(S('0')), z3.Re(S('1')))))))
    return SV(STR, t)


def bf_appbin(eng, st, a):
    from .engine import BITS
    b1, l, s = a[0].z, a[1].z, a[2].z
    b2 = fresh('bits', _BA)
    zeros = z3.InRe(s, z3.Star(z3.Re(S('0'))))
    st.assume(z3.And(Bin_f(b2, l, z3.Length(s)) == s, _frame_before(b2, b1, l),
                     z3.Implies(zeros, U_f(b2, l, z3.Length(s)) == 0)))
    return SV(BITS, b2)


def bf_is_binstr(eng, st, a):
    return SV(BOOL, z3.InRe(a[0].z, z3.Star(z3.Union(z3.Re(S('0')), z3.Re(S('1'))))))


def bf_prefix_same(eng, st, a):
    return SV(BOOL, _frame_before(a[0].z, a[1].z, a[2].z))


def bf_uprefix_same(eng, st, a):
    """every unsigned field lying entirely before bit `upto` reads the same in b2 as in b1 (the U part of prefix_same: follows from
    prefix_same up to any later position and from outside_same over any range that starts at or after `upto`)"""
    b2, b1, upto = [x.z for x in a]
    q = fresh('q', z3.IntSort())
    m = fresh('m', z3.IntSort())
    return SV(BOOL, z3.ForAll([q, m], z3.Implies(z3.And(0 <= q, m >= 0, q + m <= upto), U_f(b2, q, m) == U_f(b1, q, m)), patterns=[U_f(b2, q, m)]))


def bf_outside_same(eng, st, a):
    b2, b1, lo, hi = [x.z for x in a]
    q = fresh('q', z3.IntSort())
    m = fresh('m', z3.IntSort())
    out = z3.And(0 <= q, m >= 0, z3.Or(q + m <= lo, q >= hi))
    return SV(BOOL, z3.ForAll([q, m], z3.Implies(out, U_f(b2, q, m) == U_f(b1, q, m)), patterns=[U_f(b2, q, m)]))


def bf_allspaces(eng, st, a):
    return SV(BOOL, z3.InRe(a[0].z, z3.Star(z3.Re(S(' ')))))


def bf_allchar(eng, st, a):
    return SV(BOOL, z3.InRe(a[0].z, z3.Star(z3.Re(a[1].z))))


def bf_allzero_bytes(eng, st, a):
    return SV(BOOL, z3.InRe(a[0].z, z3.Star(z3.Re(S('\x00')))))


BIT_FORMS = {'uprefix_same': bf_uprefix_same, 'allzero_bytes': bf_allzero_bytes, 'prefix_same': bf_prefix_same, 'outside_same': bf_outside_same, 'allspaces': bf_allspaces,
             'allchar': bf_allchar, 'U': bf_U, 'app': bf_app, 'splice': bf_splice, 'Bst': bf_Bst, 'appb': bf_appb, 'Bin': bf_Bin,
             'appbin': bf_appbin, 'is_binstr': bf_is_binstr}


def ws_re():
    return z3.Union(*[z3.Re(S(c)) for c in E.WHITESPACE])


def digits_re():
    return z3.Range(S('0'), S('9'))


def int_to_str(n):
    return z3.If(n >= 0, z3.IntToStr(n), z3.Concat(S('-'), z3.IntToStr(-n)))


def zpad(n, width):
    """'{:0<width>d}'.format(n) for n >= 0 (negative numbers: sign then zero padding)."""
    t = z3.IntToStr(n)
    r = t
    for k in range(width - 1, 0, -1):
        r = z3.If(n < 10 ** k, z3.Concat(S('0' * (width - k)), t), r) if True else r
    # build from the smallest range upwards so the first matching (smallest) bound wins
    r = t
    for k in range(width - 1, 0, -1):
        pass
    out = t
    for k in range(1, width):
        # numbers with exactly k digits get width-k zeros
        out = z3.If(z3.And(n >= (10 ** (k - 1) if k > 1 else 0), n < 10 ** k), z3.Concat(S('0' * (width - k)), t), out)
    neg = z3.Concat(S('-'), z3.IntToStr(-n))   # not zero padded precisely; negative ids are outside every contract
    return z3.If(n >= 0, out, neg)


_pred_funcs = {}


def call_predicate(eng, ctx, st, name, args):
    """opaque spec predicate (Registry.define): uninterpreted function of the argument values + ground definitional instance"""
    from .engine import BITS, State, Ctx
    params, body, _ = eng.reg.predicates[name]
    if len(args) != len(params):
        raise Unsupported('predicate %s: %d arguments expected' % (name, len(params)))
    zargs = []
    scratch = State()
    scratch.alloc = st.alloc
    bound = {}
    for k, ((pn, pt), a) in enumerate(zip(params.items(), args)):
        if isinstance(pt, ListT):
            if not isinstance(a.ty, ListT) or sort_key(a.ty.elem) != sort_key(pt.elem):
                raise Unsupported('predicate %s: argument %s must be %r, got %r' % (name, pn, pt, a.ty))
            arr, n = eng.list_arr(st, a), eng.list_len(st, a)
            zargs += [arr, n]
            ref = I(-1000 - k)
            lst = SV(pt, ref)
            eng.list_set_raw(scratch, lst, n, arr)
            bound[pn] = lst
        else:
            v = eng.coerce(a, pt)
            zargs.append(v.z)
            bound[pn] = v
    key = (name, tuple(str(z.sort()) for z in zargs))
    if key not in _pred_funcs:
        _pred_funcs[key] = z3.Function('pred!' + name, *([z.sort() for z in zargs] + [z3.BoolSort()]))
    term = _pred_funcs[key](*zargs)
    c2 = Ctx(eng, None, None, spec=True)
    c2.module = None
    c2.bound = bound
    c2.implicit = 'assume'
    n0 = len(scratch.pc)
    val = eng.spec_bool(body, scratch, c2)
    wf = scratch.pc[n0:]
    if wf:
        st.assume(z3.And(wf))
    import os
    if not os.environ.get('PYVC_NO_PRED_DEF'):
        st.assume(term == val)
    return SV(BOOL, term)


def call_spec_func(eng, ctx, st, name, args):
    node, pyf = eng.spec_funcs[name]
    if ctx.depth > 12:
        raise Unsupported('spec function recursion too deep: %s' % name)
    names = [a.arg for a in node.args.args]
    c2 = E.Ctx(eng, None, None, spec=True, parent=ctx)
    c2.module = None
    c2.old_state = ctx.old_state
    c2.result = ctx.result
    s2 = st.fork()
    n0 = len(s2.pc)
    saved = s2.locals
    s2.locals = dict(zip(names, args))
    outs = []
    for s3, flow in eng.exec_block(node.body, s2, c2):
        if flow and flow[0] == 'return':
            outs.append((s3, flow[1]))
        else:
            raise Unsupported('spec function %s falls off the end' % name)
    if c2.sinks[0]:
        raise Unsupported('spec function %s raises' % name)
    if len(outs) == 1:
        # well-formedness facts and definitions of fresh symbols met while evaluating stay known
        for f in outs[0][0].pc[n0:]:
            st.assume(f)
        for k, v in outs[0][0].heap.items():
            if k not in st.heap:
                st.heap[k] = v
        return outs[0][1]
    res = None
    for s3, sv in reversed(outs):
        guard = z3.And(s3.pc[n0:]) if len(s3.pc) > n0 else B(True)
        res = sv if res is None else eng.merge(guard, sv, res)
    return res


# ---------------------------------------------------------------------------------
# builtins

def _args(eng, e, st, ctx):
    for st2, args, kwargs in ev_args(eng, e, st, ctx):
        yield st2, args, kwargs


_AI = z3.ArraySort(z3.IntSort(), z3.IntSort())
ndistinct_f = z3.Function('ndistinct', _AI, z3.IntSort(), z3.IntSort())


def ndistinct(eng, st, lst):
    """len(set(l)) for a list of ints: a function of (elements, length) with 0 <= nd <= n, nd >= 1 for a non-empty list,
    nd == n iff the elements are pairwise distinct (L6)"""
    n = eng.list_len(st, lst)
    arr = eng.list_arr(st, lst)
    nd = ndistinct_f(arr, n)
    i, j = fresh('i', z3.IntSort()), fresh('j', z3.IntSort())
    dup = z3.Exists([i, j], z3.And(0 <= i, i < j, j < n, z3.Select(arr, i) == z3.Select(arr, j)))
    st.assume(z3.And(nd >= 0, nd <= n, z3.Implies(n >= 1, nd >= 1), dup == (nd < n)))
    return nd


def b_len(eng, e, st, ctx):
    a0 = e.args[0] if e.args else None
    if isinstance(a0, ast.Call) and isinstance(a0.func, ast.Name) and a0.func.id == 'set' and len(a0.args) == 1 and not a0.keywords \
            and 'set' not in st.locals:
        for st2, lst in eng.ev(a0.args[0], st, ctx):
            if not (isinstance(lst.ty, ListT) and lst.ty.elem == INT):
                raise Unsupported('len(set(%r))' % (lst.ty,))
            eng.safe(ctx, st2, lst.z != 0, 'TypeError', 'set of None')
            yield st2, SV(INT, ndistinct(eng, st2, lst))
        return
    for st2, args, _ in _args(eng, e, st, ctx):
        x = args[0]
        t = x.ty
        if t in (STR, BYTES):
            yield st2, SV(INT, z3.Length(x.z))
        elif isinstance(t, ListT):
            eng.safe(ctx, st2, x.z != 0, 'TypeError', 'len of None')
            n = eng.list_len(st2, x)
            st2.assume(n >= 0)
            yield st2, SV(INT, n)
        elif isinstance(t, DictT):
            n = z3.Select(st2.hget(E.dkeys(t.key, t.val)[2]), x.z)
            st2.assume(n >= 0)
            yield st2, SV(INT, n)
        elif isinstance(t, TupleT):
            yield st2, SV(INT, I(len(t.elems)))
        elif isinstance(t, Ref):
            hook = eng.class_hook(t.cls, 'len')
            if hook is None:
                raise Unsupported('len of %r' % (t,))
            yield st2, hook(eng, ctx, st2, x)
        elif t == VAL:
            eng.safe(ctx, st2, z3.Or(Val.is_vbyt(x.z), Val.is_vtxt(x.z)), 'TypeError', 'len of non-sequence value')
            yield st2, SV(INT, z3.If(Val.is_vbyt(x.z), z3.Length(Val.bval(x.z)), z3.Length(Val.tval(x.z))))
        else:
            raise Unsupported('len of %r' % (t,))


def int_of_text(eng, ctx, st2, s):
    ok = E.s_isint(s)
    # facts about the model (L3): plain decimal literals with optional sign are accepted with their value
    plain = z3.InRe(s, z3.Concat(z3.Option(z3.Re(S('-'))), z3.Plus(digits_re())))
    neg = z3.PrefixOf(S('-'), s)
    val = z3.If(neg, -z3.StrToInt(z3.SubString(s, 1, z3.Length(s) - 1)), z3.StrToInt(s))
    st2.assume(z3.Implies(plain, z3.And(ok, E.s_toint(s) == val)))
    st2.assume(z3.Implies(s == S(''), z3.Not(ok)))
    # anything containing a character that can never occur in an int literal is rejected
    eng.safe(ctx, st2, ok, 'ValueError', 'int() of non-literal')
    return SV(INT, E.s_toint(s))


def b_int(eng, e, st, ctx):
    for st2, args, _ in _args(eng, e, st, ctx):
        x = args[0]
        if x.ty == INT:
            yield st2, x
        elif x.ty == BOOL:
            yield st2, eng.coerce(x, INT)
        elif x.ty == FLOAT:
            yield st2, SV(INT, float_to_int(x.z))
        elif x.ty in (STR, BYTES):
            yield st2, int_of_text(eng, ctx, st2, x.z)
        elif x.ty == VAL:
            v = x.z
            s_t = st2.fork()
            s_t.assume(z3.Or(Val.is_vtxt(v), Val.is_vbyt(v)))
            if eng.feasible(s_t):
                yield s_t, int_of_text(eng, ctx, s_t, z3.If(Val.is_vtxt(v), Val.tval(v), Val.bval(v)))
            st2.assume(z3.Not(z3.Or(Val.is_vtxt(v), Val.is_vbyt(v))))
            if not eng.feasible(st2):
                continue
            eng.safe(ctx, st2, z3.Or(Val.is_vint(v), Val.is_vflt(v), Val.is_vbool(v)), 'TypeError', 'int() of non-number')
            yield st2, SV(INT, z3.If(Val.is_vint(v), Val.ival(v),
                                     z3.If(Val.is_vbool(v), z3.If(Val.oval(v), I(1), I(0)), float_to_int(Val.fval(v)))))
        else:
            raise Unsupported('int(%r)' % (x.ty,))


def float_to_int(f):
    return E.f_trunc(f)


def b_round(eng, e, st, ctx):
    for st2, args, _ in _args(eng, e, st, ctx):
        x = args[0]
        if len(args) > 1:
            raise Unsupported('round with ndigits')
        if x.ty == INT:
            yield st2, x
        else:
            # round(float) returns an int in Python 3; int(round(x)) is the identity on it
            yield st2, SV(INT, E.f_round(eng.as_float(x)))


def b_abs(eng, e, st, ctx):
    for st2, args, _ in _args(eng, e, st, ctx):
        if args[0].ty == REAL:
            yield st2, SV(REAL, z3.If(args[0].z >= 0, args[0].z, -args[0].z))
            continue
        x = eng.coerce(args[0], INT) if args[0].ty in (INT, BOOL) else None
        if x is None:
            raise Unsupported('abs of %r' % (args[0].ty,))
        yield st2, SV(INT, z3.If(x.z >= 0, x.z, -x.z))


def b_minmax(which):
    def h(eng, e, st, ctx):
        for st2, args, _ in _args(eng, e, st, ctx):
            if len(args) == 1 and isinstance(args[0].ty, ListT):
                lst = args[0]
                if lst.ty.elem != INT:
                    raise Unsupported('min/max of non-int list')
                n = eng.list_len(st2, lst)
                eng.safe(ctx, st2, n > 0, 'ValueError', 'min/max of empty sequence')
                arr = eng.list_arr(st2, lst)
                r = fresh(which, z3.IntSort())
                j = fresh('j', z3.IntSort())
                k = fresh('k', z3.IntSort())
                cmp = (lambda a, b: a <= b) if which == 'min' else (lambda a, b: a >= b)
                st2.assume(z3.ForAll([j], z3.Implies(z3.And(0 <= j, j < n), cmp(r, z3.Select(arr, j)))))
                st2.assume(z3.And(0 <= k, k < n, z3.Select(arr, k) == r))
                yield st2, SV(INT, r)
                continue
            vals = [eng.coerce(a, INT) for a in args]
            r = vals[0].z
            for v in vals[1:]:
                r = z3.If(v.z < r, v.z, r) if which == 'min' else z3.If(v.z > r, v.z, r)
            yield st2, SV(INT, r)
    return h


def class_of_sv(eng, st, x):
    """-> list of (condition, class name) describing type(x)."""
    t = x.ty
    if t == INT:
        return [(B(True), 'int')]
    if t == BOOL:
        return [(B(True), 'bool')]
    if t == STR:
        return [(B(True), 'str')]
    if t == BYTES:
        return [(B(True), 'bytes')]
    if t == FLOAT:
        return [(B(True), 'float')]
    if t == NONE:
        return [(B(True), 'NoneType')]
    if isinstance(t, ListT):
        return [(B(True), 'list')]
    if isinstance(t, DictT):
        return [(B(True), 'dict')]
    if isinstance(t, TupleT):
        return [(B(True), 'tuple')]
    if t == VAL:
        v = x.z
        return [(Val.is_vnone(v), 'NoneType'), (Val.is_vint(v), 'int'), (Val.is_vflt(v), 'float'),
                (Val.is_vbyt(v), 'bytes'), (Val.is_vtxt(v), 'str'), (Val.is_vbool(v), 'bool')]
    return None


def b_isinstance(eng, e, st, ctx):
    for st1, x in eng.ev(e.args[0], st, ctx):
        cexpr = e.args[1]
        names = []

        def collect(node):
            if isinstance(node, ast.Tuple):
                for el in node.elts:
                    collect(el)
            elif isinstance(node, ast.Name):
                names.append(node.id)
            elif isinstance(node, ast.Attribute) and isinstance(node.value, ast.Name):
                names.append({'text_type': 'str', 'binary_type': 'bytes'}.get(node.attr, node.attr))
            else:
                raise Unsupported('isinstance class expression')
        collect(cexpr)
        if isinstance(x.ty, Ref):
            conds = []
            for n in names:
                if n == 'Integral':
                    continue
                if eng.known_class(n):
                    conds.append(eng.isinst(st1, x.z, n))
            yield st1, SV(BOOL, z3.And(x.z != 0, z3.Or(conds)) if conds else B(False))
            continue
        desc = class_of_sv(eng, st1, x)
        if desc is None:
            raise Unsupported('isinstance on %r' % (x.ty,))
        conds = []
        if x.ty == VAL and 'slice' in names and 'PySlice' in eng.classes:
            conds.append(z3.And(Val.is_vref(x.z), eng.typeis(st1, Val.rval(x.z), 'PySlice')))
        for cond, cname in desc:
            for n in names:
                if n == cname or (n == 'int' and cname == 'bool') or (n == 'Integral' and cname in ('int', 'bool')) \
                        or n == 'object':
                    conds.append(cond)
        yield st1, SV(BOOL, z3.Or(conds) if conds else B(False))


def b_type(eng, e, st, ctx):
    for st2, args, _ in _args(eng, e, st, ctx):
        x = args[0]
        if isinstance(x.ty, Ref):
            eng.safe(ctx, st2, x.z != 0, 'AttributeError', 'type of None used as object')
            yield st2, SV(CLS, z3.Select(st2.hget(('type',)), x.z))
            continue
        desc = class_of_sv(eng, st2, x)
        if desc is None:
            raise Unsupported('type() on %r' % (x.ty,))
        r = I(0)
        for cond, cname in reversed(desc):
            r = z3.If(cond, I(eng.class_id(cname)), r)
        yield st2, SV(CLS, r)


def b_issubclass(eng, e, st, ctx):
    for st2, args, _ in _args(eng, e, st, ctx):
        a, b = args
        bs = z3.simplify(b.z)
        if not z3.is_int_value(bs):
            raise Unsupported('issubclass with symbolic class')
        bname = [n for n, k in eng.class_ids.items() if k == bs.as_long()][0]
        subs = eng.subclasses(bname)
        yield st2, SV(BOOL, z3.Or([a.z == eng.class_id(c) for c in subs]) if subs else B(False))


def b_getattr(eng, e, st, ctx):
    for st1, obj in eng.ev(e.args[0], st, ctx):
        for st2, nm in eng.ev(e.args[1], st1, ctx):
            ns = z3.simplify(nm.z)
            if z3.is_string_value(ns):
                name = pystr(ns)
                if len(e.args) > 2:
                    raise Unsupported('getattr with default')
                yield st2, eng.get_attr(ctx, st2, obj, name)
                continue
            # symbolic attribute name: case split over the methods of the static class
            if not isinstance(obj.ty, Ref):
                raise Unsupported('getattr with symbolic name on %r' % (obj.ty,))
            cands = eng.method_names(obj.ty.cls)
            conds = []
            for c in cands:
                s3 = st2.fork()
                s3.assume(nm.z == S(c))
                conds.append(nm.z == S(c))
                if eng.feasible(s3):
                    yield s3, eng.get_attr(ctx, s3, obj, c)
            eng.safe(ctx, st2, z3.Or(conds) if conds else B(False), 'AttributeError', 'getattr of unknown method')


def b_hasattr(eng, e, st, ctx):
    for st1, obj in eng.ev(e.args[0], st, ctx):
        name = e.args[1].value
        if not isinstance(obj.ty, Ref):
            raise Unsupported('hasattr on %r' % (obj.ty,))
        hook = eng.class_hook(obj.ty.cls, 'hasattr')
        if hook is None:
            raise Unsupported('hasattr on %s' % obj.ty.cls)
        yield st1, hook(eng, ctx, st1, obj, name)


def b_setattr(eng, e, st, ctx):
    for st2, args, _ in _args(eng, e, st, ctx):
        obj, nm, val = args
        ns = z3.simplify(nm.z)
        if z3.is_string_value(ns):
            eng.write_field(ctx, st2, obj, pystr(ns), val)
            yield st2, eng.lit(None)
            continue
        hook = eng.class_hook(obj.ty.cls, 'setattr_dyn')
        if hook is None:
            raise Unsupported('setattr with symbolic name')
        hook(eng, ctx, st2, obj, nm, val)
        yield st2, eng.lit(None)


def b_str(eng, e, st, ctx):
    for st2, args, _ in _args(eng, e, st, ctx):
        x = args[0]
        if x.ty == INT:
            yield st2, SV(STR, int_to_str(x.z))
        elif x.ty == STR:
            yield st2, x
        elif isinstance(x.ty, Ref):
            for r in eng.call_method(ctx, st2, x, '__str__', [], {}):
                yield r
        else:
            yield st2, SV(STR, fresh('str', z3.StringSort()))


isdigit_f = z3.Function('pyisdigit', z3.StringSort(), z3.BoolSort())
bindigits_f = z3.Function('bindigits', z3.IntSort(), z3.StringSort())
strcount_f = z3.Function('strcount', z3.StringSort(), z3.StringSort(), z3.IntSort())


def b_bin(eng, e, st, ctx):
    """bin(x) for x >= 0 is '0b' + bindigits(x); bindigits is characterised through bitlen / popcount (L2)."""
    for st2, args, _ in _args(eng, e, st, ctx):
        x = args[0]
        bd = bindigits_f(x.z)
        bl = E.bitlen_f(x.z)
        st2.assume(z3.Implies(x.z >= 1, z3.And(z3.Length(bd) == bl,
                                                strcount_f(bd, S('1')) == E.popcount_f(x.z),
                                                strcount_f(bd, S('0')) == bl - E.popcount_f(x.z))))
        st2.assume(bitlen_facts(x.z))
        r = z3.If(x.z >= 0, z3.Concat(S('0b'), bd), z3.Concat(S('-0b'), bindigits_f(-x.z)))
        yield st2, SV(STR, z3.Concat(S('0b'), bd) if True else r)
        # negative arguments: callers in contracted code pass x >= 1 (a `requires`)


def bitlen_facts(x):
    """L2: for x >= 1: 2^(bitlen-1) <= x < 2^bitlen, 1 <= bitlen; popcount(x) == bitlen(x) <=> x == 2^bitlen - 1;
    1 <= popcount(x) <= bitlen(x).  Table-based so it stays quantifier free; valid for 1 <= x < 2^64."""
    bl = E.bitlen_f(x)
    pc = E.popcount_f(x)
    p = E.pow2_term(bl)
    return z3.Implies(z3.And(x >= 1, x < I(2 ** 64)),
                      z3.And(bl >= 1, bl <= 64, p <= 2 * x, x < p, pc >= 1, pc <= bl,
                             (pc == bl) == (x == p - 1)))


def b_sum(eng, e, st, ctx):
    for st2, args, _ in _args(eng, e, st, ctx):
        x = args[0]
        if isinstance(x.ty, ListT) and x.ty.elem == INT:
            yield st2, SV(INT, eng.get_ghost(st2, 'sum', z3.IntSort(), x.z))
        else:
            raise Unsupported('sum of %r' % (x.ty,))


def b_list(eng, e, st, ctx):
    for st2, args, _ in _args(eng, e, st, ctx):
        if not args:
            raise Unsupported('list() without type hint')
        x = args[0]
        if isinstance(x.ty, ListT):
            n = eng.list_len(st2, x)
            r = eng.new_list(st2, x.ty.elem)
            eng.list_set_raw(st2, r, n, eng.list_arr(st2, x))
            yield st2, r
        else:
            raise Unsupported('list(%r)' % (x.ty,))


def b_tuple(eng, e, st, ctx):
    for st2, args, _ in _args(eng, e, st, ctx):
        x = args[0]
        if isinstance(x.ty, TupleT):
            yield st2, x
        else:
            raise Unsupported('tuple(%r)' % (x.ty,))


def b_bool(eng, e, st, ctx):
    for st2, args, _ in _args(eng, e, st, ctx):
        yield st2, SV(BOOL, eng.truth(st2, args[0]))


def b_slice(eng, e, st, ctx):
    for st2, args, _ in _args(eng, e, st, ctx):
        parts = [eng.coerce(a, VAL) for a in args]
        while len(parts) < 3:
            parts.append(SV(VAL, Val.vnone))
        if len(args) == 1:
            parts = [SV(VAL, Val.vnone), parts[0], SV(VAL, Val.vnone)]
        yield st2, new_slice(eng, st2, parts)


def new_slice(eng, st, parts):
    """a Python slice object: a fresh immutable object of model class PySlice with fields start / stop / step"""
    if 'PySlice' not in eng.classes:
        raise Unsupported('slice objects (class PySlice not declared)')
    r = eng.new_ref(st)
    st.hset(('type',), z3.Store(st.hget(('type',)), r, I(eng.class_id('PySlice'))))
    for f, v in zip(('start', 'stop', 'step'), parts):
        k = E.fkey(f, VAL)
        st.hset(k, z3.Store(st.hget(k), r, eng.coerce(v, VAL).z))
    return SV(Ref('PySlice'), r)


def b_slice_starred(eng, e, st, ctx):
    """slice(*lst): Python takes 1..3 arguments, anything else is a TypeError"""
    for st1, lst in eng.ev(e.args[0].value, st, ctx):
        if not isinstance(lst.ty, ListT):
            raise Unsupported('slice(*%r)' % (lst.ty,))
        n = eng.list_len(st1, lst)
        eng.safe(ctx, st1, z3.And(n >= 1, n <= 3), 'TypeError', 'slice expected 1 to 3 arguments')
        arr = eng.list_arr(st1, lst)
        for k in (1, 2, 3):
            s2 = st1.fork()
            s2.assume(n == k)
            if not eng.feasible(s2):
                continue
            items = [SV(lst.ty.elem, z3.Select(arr, I(i))) for i in range(k)]
            parts = [eng.coerce(x, VAL) for x in items]
            if k == 1:
                parts = [SV(VAL, Val.vnone), parts[0], SV(VAL, Val.vnone)]
            while len(parts) < 3:
                parts.append(SV(VAL, Val.vnone))
            yield s2, new_slice(eng, s2, parts)


def cursor_name(elem):
    return 'Cursor$' + sort_key(elem) + ('$' + repr(elem) if isinstance(elem, TupleT) else '')


def cursor_class_entry(elem):
    return dict(bases=[], fields={'lst': ListT(elem), 'pos': INT}, hooks={'call': cursor_call},
                field_facts={'pos': lambda z: z >= 0}, nonnull=['lst'])


def cursor_class(eng, elem):
    name = cursor_name(elem)
    if name not in eng.classes:
        eng.classes[name] = cursor_class_entry(elem)
    return name


def cursor_next(eng, ctx, st, cur):
    """next(iter(L)) (L9): the element at the cursor, which advances; StopIteration at the end"""
    lst = eng.read_field(ctx, st, cur, 'lst')
    pos = eng.read_field(ctx, st, cur, 'pos')
    n = eng.list_len(st, lst)
    eng.safe(ctx, st, pos.z < n, 'StopIteration', 'next() on an exhausted iterator')
    z = z3.Select(eng.list_arr(st, lst), pos.z)
    eng.ref_fact(st, lst.ty.elem, z)
    eng.elem_fact(st, lst.ty.elem, z)
    eng.write_field(ctx, st, cur, 'pos', SV(INT, pos.z + 1))
    return SV(lst.ty.elem, z)


def cursor_call(eng, ctx, st, cur, args, kwargs):
    yield st, cursor_next(eng, ctx, st, cur)


def b_iter(eng, e, st, ctx):
    for st2, args, _ in _args(eng, e, st, ctx):
        x = eng.iter_source(ctx, st2, args[0])
        if not isinstance(x.ty, ListT):
            raise Unsupported('iter(%r)' % (x.ty,))
        eng.safe(ctx, st2, x.z != 0, 'TypeError', 'iter(None)')
        cname = cursor_class(eng, x.ty.elem)
        r = eng.new_ref(st2)
        st2.hset(('type',), z3.Store(st2.hget(('type',)), r, I(eng.class_id(cname))))
        cur = SV(Ref(cname), r)
        eng.write_field(ctx, st2, cur, 'lst', x)
        eng.write_field(ctx, st2, cur, 'pos', SV(INT, I(0)))
        yield st2, cur


def b_next(eng, e, st, ctx):
    for st2, args, _ in _args(eng, e, st, ctx):
        cur = args[0]
        if isinstance(cur.ty, Ref) and cur.ty.cls.startswith('Cursor$'):
            yield st2, cursor_next(eng, ctx, st2, cur)
        else:
            raise Unsupported('next(%r)' % (cur.ty,))


def b_noop(eng, e, st, ctx):
    for st2, args, _ in _args(eng, e, st, ctx):
        yield st2, eng.lit(None)


BUILTINS = {
    'len': b_len, 'int': b_int, 'round': b_round, 'abs': b_abs, 'min': b_minmax('min'), 'max': b_minmax('max'),
    'isinstance': b_isinstance, 'type': b_type, 'issubclass': b_issubclass, 'getattr': b_getattr,
    'hasattr': b_hasattr, 'setattr': b_setattr, 'str': b_str, 'bin': b_bin, 'sum': b_sum, 'list': b_list,
    'tuple': b_tuple, 'bool': b_bool, 'slice': b_slice, 'print': b_noop, 'iter': b_iter, 'next': b_next,
}


def mf_object_setattr(eng, e, st, ctx):
    for st2, args, _ in _args(eng, e, st, ctx):
        obj, nm, val = args
        ns = z3.simplify(nm.z)
        hook = eng.class_hook(obj.ty.cls, 'object_setattr')
        if hook is not None:
            hook(eng, ctx, st2, obj, nm, val)
        elif z3.is_string_value(ns):
            eng.write_field(ctx, st2, obj, pystr(ns), val)
        else:
            raise Unsupported('object.__setattr__ with symbolic name')
        yield st2, eng.lit(None)


def mf_object_getattribute(eng, e, st, ctx):
    for st2, args, _ in _args(eng, e, st, ctx):
        obj, nm = args
        ns = z3.simplify(nm.z)
        hook = eng.class_hook(obj.ty.cls, 'object_getattribute')
        if hook is not None:
            yield st2, hook(eng, ctx, st2, obj, nm)
        elif z3.is_string_value(ns):
            yield st2, eng.read_field(ctx, st2, obj, pystr(ns))
        else:
            raise Unsupported('object.__getattribute__ with symbolic name')


def mf_partial(eng, e, st, ctx):
    for st2, args, _ in _args(eng, e, st, ctx):
        hook = eng.opts.get('partial_hook')
        if hook is not None:
            r = hook(eng, ctx, st2, args)
            if r is not None:
                yield st2, r
                continue
        if len(args) == 2 and args[0].ty == ANYFUNC and args[0].z == ('builtin', 'next') and isinstance(args[1].ty, Ref) \
                and args[1].ty.cls.startswith('Cursor$'):
            yield st2, args[1]
            continue
        yield st2, SV(ANYFUNC, ('partial', args[0], args[1:]))


MODULE_FUNCS = {
    ('object', '__setattr__'): mf_object_setattr,
    ('object', '__getattribute__'): mf_object_getattribute,
    ('functools', 'partial'): mf_partial,
}


# ---------------------------------------------------------------------------------
# str / bytes methods (L5)

FORMAT_SIMPLE = ('{}', '{:06d}', '{:05d}', '{!r}')


def split_template(t):
    """Split a str.format template into literal pieces and fields; None if not in the subset."""
    out = []
    i = 0
    cur = ''
    while i < len(t):
        c = t[i]
        if c == '{':
            if t.startswith('{{', i):
                cur += '{'
                i += 2
                continue
            j = t.find('}', i)
            if j < 0:
                return None
            out.append(('lit', cur))
            cur = ''
            out.append(('field', t[i:j + 1]))
            i = j + 1
        elif c == '}':
            if t.startswith('}}', i):
                cur += '}'
                i += 2
                continue
            return None
        else:
            cur += c
            i += 1
    out.append(('lit', cur))
    return out


valstr_f = z3.Function('valstr', Val, z3.StringSort())


def val_to_str(v):
    """str() of a dynamically typed value: ints in decimal, text as it is, None as 'None' (other variants uninterpreted)"""
    return z3.If(Val.is_vint(v), int_to_str(Val.ival(v)),
                 z3.If(Val.is_vtxt(v), Val.tval(v), z3.If(Val.is_vnone(v), S('None'), valstr_f(v))))


def str_format(eng, ctx, st, tmpl, args):
    parts = split_template(tmpl)
    if parts is None:
        return None
    pieces = []
    k = 0
    for kind, text in parts:
        if kind == 'lit':
            if text:
                pieces.append(S(text))
            continue
        if k >= len(args):
            return None
        a = args[k]
        k += 1
        if text == '{}':
            if a.ty in (STR,):
                pieces.append(a.z)
            elif a.ty == INT:
                pieces.append(int_to_str(a.z))
            elif a.ty == BOOL:
                pieces.append(z3.If(a.z, S('True'), S('False')))
            elif a.ty == VAL:
                pieces.append(val_to_str(a.z))
            elif a.ty == NONE:
                pieces.append(S('None'))
            else:
                return None
        elif text in ('{:06d}', '{:05d}'):
            if a.ty != INT:
                return None
            pieces.append(zpad(a.z, int(text[3])))
        else:
            return None
    if not pieces:
        return S('')
    return z3.Concat(*pieces) if len(pieces) > 1 else pieces[0]


def literal_alternatives(s):
    """String term -> [(condition, python str)] if it is a literal or an ite tree over literals."""
    ss = z3.simplify(s)
    if z3.is_string_value(ss):
        return [(B(True), pystr(ss))]
    if z3.is_app_of(s, z3.Z3_OP_ITE):
        c = s.arg(0)
        a = literal_alternatives(s.arg(1))
        b = literal_alternatives(s.arg(2))
        if a is None or b is None:
            return None
        return [(z3.And(c, x), l) for x, l in a] + [(z3.And(z3.Not(c), x), l) for x, l in b]
    return None


def str_method(eng, ctx, st, obj, name, args, kwargs):
    s = obj.z
    t = obj.ty
    if name == 'format':
        # the template may be a literal or an if-then-else over literals (conditional expression)
        alts = literal_alternatives(s)
        if alts is None:
            yield st, SV(STR, fresh('fmt', z3.StringSort()))
            return
        for cond, lit in alts:
            s2 = st if len(alts) == 1 else st.fork()
            if len(alts) > 1:
                s2.assume(cond)
                if not eng.feasible(s2):
                    continue
            r = str_format(eng, ctx, s2, lit, args)
            z = r if r is not None else fresh('fmt', z3.StringSort())
            yield s2, SV(t, z, meta=('fmt', lit, tuple(args)))
        return
    if name in ('strip', 'lstrip', 'rstrip') and not args:
        f = {'strip': E.s_strip, 'lstrip': E.s_lstrip, 'rstrip': E.s_rstrip}[name]
        r = f(s)
        a = fresh('ws', z3.StringSort())
        b = fresh('ws', z3.StringSort())
        ws = z3.Star(ws_re())
        nonws_first = z3.Not(z3.InRe(z3.SubString(r, 0, 1), ws_re()))
        nonws_last = z3.Not(z3.InRe(z3.SubString(r, z3.Length(r) - 1, 1), ws_re()))
        facts = [s == z3.Concat(a, r, b), z3.InRe(a, ws), z3.InRe(b, ws)]
        if name in ('strip', 'lstrip'):
            facts.append(z3.Implies(z3.Length(r) > 0, nonws_first))
        else:
            facts.append(a == S(''))
        if name in ('strip', 'rstrip'):
            facts.append(z3.Implies(z3.Length(r) > 0, nonws_last))
        else:
            facts.append(b == S(''))
        if name == 'lstrip':
            facts.append(z3.Implies(z3.Length(r) == 0, b == S('')))
        st.assume(z3.And(facts))
        yield st, SV(t, r)
        return
    if name in ('lstrip', 'rstrip') and len(args) == 1 and args[0].ty == t:
        cs = z3.simplify(args[0].z)
        if z3.is_string_value(cs) and len(pystr(cs)) >= 1:
            chars = pystr(cs)
            one = z3.Union(*[z3.Re(S(ch)) for ch in chars]) if len(chars) > 1 else z3.Re(S(chars))
            r = fresh('strip', z3.StringSort())
            a = fresh('cut', z3.StringSort())
            if name == 'lstrip':
                st.assume(z3.And(s == z3.Concat(a, r), z3.InRe(a, z3.Star(one)), z3.Not(z3.InRe(z3.SubString(r, 0, 1), one))))
            else:
                st.assume(z3.And(s == z3.Concat(r, a), z3.InRe(a, z3.Star(one)),
                                 z3.Not(z3.InRe(z3.SubString(r, z3.Length(r) - 1, 1), one))))
            yield st, SV(t, r)
            return
    if name == 'isdigit' and not args:
        # ASCII digits only are known to be digits; for anything else the answer is left open, except that
        # the empty string and strings containing an ASCII non-digit are not (L5)
        d = isdigit_f(s)
        asc = z3.Range(S(chr(0)), S(chr(127)))
        st.assume(z3.Implies(z3.InRe(s, z3.Plus(digits_re())), d))
        st.assume(z3.Implies(z3.And(d, z3.InRe(s, z3.Star(asc))), z3.InRe(s, z3.Plus(digits_re()))))
        st.assume(z3.Implies(s == S(''), z3.Not(d)))
        yield st, SV(BOOL, d)
        return
    if name == 'startswith':
        p = args[0]
        yield st, SV(BOOL, z3.PrefixOf(p.z, s))
        return
    if name == 'endswith':
        yield st, SV(BOOL, z3.SuffixOf(args[0].z, s))
        return
    if name == 'find':
        start = args[1].z if len(args) > 1 else I(0)
        if len(args) > 2:
            raise Unsupported('find with end')
        # str.find(sub, start): start is clamped like a slice index
        n = z3.Length(s)
        st_ = z3.If(start < 0, z3.If(start + n < 0, I(0), start + n), start)
        yield st, SV(INT, z3.If(st_ > n, I(-1), z3.IndexOf(s, args[0].z, st_)))
        return
    if name == 'count':
        if len(args) != 1:
            raise Unsupported('str.count with range')
        c = strcount_f(s, args[0].z)
        st.assume(z3.And(c >= 0, c <= z3.Length(s)))
        yield st, SV(INT, c)
        return
    if name == 'join':
        lst = args[0]
        ss = z3.simplify(s)
        if isinstance(lst.ty, ListT) and lst.ty.elem in (STR, BYTES) and z3.is_string_value(ss) and pystr(ss) == '':
            yield st, SV(t, eng.get_ghost(st, 'joined', z3.StringSort(), lst.z))
            return
        raise Unsupported('join')
    if name == 'split':
        hook = eng.opts.get('split_hook')
        if hook:
            r = hook(eng, ctx, st, obj, args)
            if r is not None:
                yield st, r
                return
        if len(args) == 1 and args[0].ty in (STR, BYTES):
            seps = z3.simplify(args[0].z)
            if z3.is_string_value(seps) and len(pystr(seps)) >= 1:
                yield st, str_split(eng, st, obj, pystr(seps))
                return
        raise Unsupported('str.split')
    if name == 'encode':
        # latin-1 / utf-8 on code points < 256 resp. ascii: identity on the model's code points (L5)
        yield st, SV(BYTES, s)
        return
    if name == 'decode':
        yield st, SV(STR, s)
        return
    if name == 'splitlines':
        raise Unsupported('splitlines')
    raise Unsupported('str method %s' % name)


def str_split(eng, st, obj, sep):
    """s.split(sep) for a literal non-empty separator: the first two pieces are characterised exactly, the
    number of pieces is 1 / 2 / >= 3 according to the occurrences of sep (L5)."""
    s = obj.z
    k = len(sep)
    r = eng.new_list(st, obj.ty)
    n = fresh('nsplit', z3.IntSort())
    arr = fresh('split', z3.ArraySort(z3.IntSort(), z3.StringSort()))
    i = z3.IndexOf(s, S(sep), I(0))
    rest = z3.SubString(s, i + k, z3.Length(s) - i - k)
    j = z3.IndexOf(rest, S(sep), I(0))
    st.assume(z3.And(n >= 1, (i < 0) == (n == 1),
                     z3.Implies(i < 0, z3.Select(arr, 0) == s),
                     z3.Implies(i >= 0, z3.And(z3.Select(arr, 0) == z3.SubString(s, 0, i),
                                               (j < 0) == (n == 2),
                                               z3.Implies(j < 0, z3.Select(arr, 1) == rest),
                                               z3.Implies(j >= 0, z3.Select(arr, 1) == z3.SubString(rest, 0, j))))))
    eng.list_set_raw(st, r, n, arr)
    eng.set_ghost(st, 'joined', z3.StringSort(), r.z, fresh('joined', z3.StringSort()))
    return r


def list_method(eng, ctx, st, obj, name, args, kwargs):
    e = obj.ty.elem
    if name == 'append':
        eng.list_append(ctx, st, obj, args[0])
        yield st, eng.lit(None)
        return
    if name == 'pop':
        n = eng.list_len(st, obj)
        arr = eng.list_arr(st, obj)
        eng.safe(ctx, st, n > 0, 'IndexError', 'pop from empty list')
        if not args:
            x = z3.Select(arr, n - 1)
            eng.list_set_raw(st, obj, n - 1, arr)
            if e == INT:
                eng.set_ghost(st, 'sum', z3.IntSort(), obj.z, eng.get_ghost(st, 'sum', z3.IntSort(), obj.z) - x)
            if e in (STR, BYTES):
                eng.set_ghost(st, 'joined', z3.StringSort(), obj.z, fresh('joined', z3.StringSort()))
            yield st, SV(e, x)
            return
        i = z3.simplify(args[0].z)
        if z3.is_int_value(i) and i.as_long() == 0:
            x = z3.Select(arr, 0)
            narr = fresh('popped', z3.ArraySort(z3.IntSort(), sort_of(e)))
            j = fresh('j', z3.IntSort())
            st.assume(z3.ForAll([j], z3.Implies(z3.And(0 <= j, j < n - 1), z3.Select(narr, j) == z3.Select(arr, j + 1))))
            eng.list_set_raw(st, obj, n - 1, narr)
            if e == INT:
                eng.set_ghost(st, 'sum', z3.IntSort(), obj.z, eng.get_ghost(st, 'sum', z3.IntSort(), obj.z) - x)
            yield st, SV(e, x)
            return
        raise Unsupported('list.pop(i)')
    if name == 'insert':
        i = z3.simplify(args[0].z)
        n = eng.list_len(st, obj)
        arr = eng.list_arr(st, obj)
        v = eng.coerce(args[1], e)
        if z3.is_int_value(i) and i.as_long() == 0:
            narr = fresh('ins', z3.ArraySort(z3.IntSort(), sort_of(e)))
            j = fresh('j', z3.IntSort())
            st.assume(z3.Select(narr, 0) == v.z)
            # both directions carry a trigger: a mention of the new element j finds the old one j - 1 and vice versa
            st.assume(z3.ForAll([j], z3.Implies(z3.And(0 <= j, j < n), z3.Select(narr, j + 1) == z3.Select(arr, j)), patterns=[z3.Select(arr, j)]))
            st.assume(z3.ForAll([j], z3.Implies(z3.And(1 <= j, j <= n), z3.Select(narr, j) == z3.Select(arr, j - 1)), patterns=[z3.Select(narr, j)]))
            eng.list_set_raw(st, obj, n + 1, narr)
            yield st, eng.lit(None)
            return
        raise Unsupported('list.insert(i != 0)')
    if name == 'count':
        hook = eng.opts.get('list_count_hook')
        if hook:
            yield st, hook(eng, ctx, st, obj, args[0])
            return
        # L6: list.count(x): 0 <= c <= len; c == len iff every element equals x (Python ==); c == 0 iff none does
        n = eng.list_len(st, obj)
        arr = eng.list_arr(st, obj)
        x = eng.coerce(args[0], e)
        c = fresh('count', z3.IntSort())
        j = fresh('j', z3.IntSort())
        eqj = eng.equal(st, SV(e, z3.Select(arr, j)), x)
        st.assume(z3.And(c >= 0, c <= n,
                         (c == n) == z3.ForAll([j], z3.Implies(z3.And(0 <= j, j < n), eqj), patterns=[z3.Select(arr, j)]),
                         (c == 0) == z3.ForAll([j], z3.Implies(z3.And(0 <= j, j < n), z3.Not(eqj)), patterns=[z3.Select(arr, j)])))
        yield st, SV(INT, c)
        return
    if name == 'index':
        n = eng.list_len(st, obj)
        arr = eng.list_arr(st, obj)
        v = eng.coerce(args[0], e)
        r = fresh('idx', z3.IntSort())
        j = fresh('j', z3.IntSort())
        present = z3.Exists([j], z3.And(0 <= j, j < n, z3.Select(arr, j) == v.z))
        eng.safe(ctx, st, present, 'ValueError', 'list.index of absent value')
        st.assume(z3.And(0 <= r, r < n, z3.Select(arr, r) == v.z,
                         z3.ForAll([j], z3.Implies(z3.And(0 <= j, j < r), z3.Select(arr, j) != v.z))))
        yield st, SV(INT, r)
        return
    if name == 'extend':
        raise Unsupported('list.extend')
    raise Unsupported('list method %s' % name)


def dict_method(eng, ctx, st, obj, name, args, kwargs):
    kt, vt = obj.ty.key, obj.ty.val
    has, val, size = E.dkeys(kt, vt)
    if name == 'get':
        k = eng.coerce(args[0], kt)
        present = z3.Select(z3.Select(st.hget(has), obj.z), k.z)
        v = z3.Select(z3.Select(st.hget(val), obj.z), k.z)
        dflt = args[1] if len(args) > 1 else eng.lit(None)
        got = SV(vt, v)
        eng.ref_fact(st, vt, v)
        if eng.mergeable(got, dflt):
            yield st, eng.merge(present, got, dflt)
        else:
            s1 = st.fork()
            s1.assume(present)
            s2 = st.fork()
            s2.assume(z3.Not(present))
            yield s1, got
            yield s2, dflt
        return
    if name == 'clear':
        st.hset(has, z3.Store(st.hget(has), obj.z, z3.K(sort_of(kt), B(False))))
        st.hset(size, z3.Store(st.hget(size), obj.z, I(0)))
        yield st, eng.lit(None)
        return
    raise Unsupported('dict method %s' % name)
