"""Check driver: ./check <PROPERTY> [--tier quick|thorough] [--replay FILE]

exit 0  every obligation of the property discharged (or only listed known findings reproduce)
exit 1  VIOLATION property=<id> replay=<path> ...
exit 2  UNDECIDED (unknown / unsupported, nothing refuted)
exit 3  CHECKER-ERROR (vacuity, self-check, crash)
"""
import argparse
import hashlib
import json
import os
import re
import shutil
import subprocess
import sys
import tempfile
import time
import traceback

ROOT = os.path.dirname(os.path.dirname(os.path.abspath(__file__)))
if ROOT not in sys.path:
    sys.path.insert(0, ROOT)

VENV_PY = '/venv/bin/python'


def base_id(oid):
    return oid.split('~')[0]


def load_known_findings():
    path = os.path.join(ROOT, 'known_findings.txt')
    findings, fixed = [], []
    if os.path.exists(path):
        for line in open(path):
            line = line.strip()
            if not line or line.startswith('#'):
                continue
            m = re.match(r'^(finding|fixed):\s+property=(\S+)\s+(.*)$', line)
            if not m:
                continue
            kind, prop, rest = m.groups()
            if kind == 'finding':
                # finding: property=C09 key=<key> <description>
                km = re.match(r'key=(\S+)\s+(.*)$', rest)
                if km:
                    findings.append({'property': prop, 'key': km.group(1), 'text': km.group(2)})
            else:
                fixed.append({'property': prop, 'text': rest})
    return findings, fixed


def run_native(script, payload, timeout):
    """Run a /verif/bounded script under the repository's interpreter; JSON in, JSON out."""
    tmpdir = tempfile.mkdtemp(prefix='pyvc_native_')
    try:
        inp = os.path.join(tmpdir, 'in.json')
        out = os.path.join(tmpdir, 'out.json')
        with open(inp, 'w') as f:
            json.dump(payload, f)
        env = dict(os.environ)
        env['PYTHONPATH'] = os.environ.get('PYVC_REPO', '/repo') + os.pathsep + ROOT
        env['PYTHONDONTWRITEBYTECODE'] = '1'
        p = subprocess.run([VENV_PY, '-B', os.path.join(ROOT, 'bounded', script), inp, out],
                           capture_output=True, text=True, timeout=timeout, env=env, cwd=ROOT)
        if os.path.exists(out):
            with open(out) as f:
                res = json.load(f)
            res['_stderr'] = p.stderr[-2000:]
            res['_rc'] = p.returncode
            return res
        return {'error': 'no output', '_stderr': p.stderr[-4000:], '_stdout': p.stdout[-2000:], '_rc': p.returncode}
    except subprocess.TimeoutExpired:
        return {'error': 'timeout after %ss' % timeout, '_rc': -1}
    finally:
        shutil.rmtree(tmpdir, ignore_errors=True)


def contract_to_json(c):
    return {'target': c.target, 'name': c.name, 'params': {k: repr(v) for k, v in c.params.items()},
            'returns': repr(c.returns) if c.returns is not None else None,
            'requires': c.requires, 'ensures': c.ensures, 'cases': [[n, w, e] for n, w, e in c.cases],
            'raises': c.raises, 'must_raise': [[a, b] for a, b in c.must_raise],
            'exc_ensures': c.exc_ensures, 'harness': c.harness, 'serves': c.serves, 'variant': c.variant,
            'ghost': {k: repr(v) for k, v in c.ghost.items()}}


def main(argv=None):
    ap = argparse.ArgumentParser()
    ap.add_argument('prop')
    ap.add_argument('--tier', default=os.environ.get('VERIF_TIER', 'quick'), choices=['quick', 'thorough'])
    ap.add_argument('--replay')
    ap.add_argument('--only', help='substring filter on contract names (debugging)')
    ap.add_argument('--no-bounded', action='store_true')
    ap.add_argument('--dump', action='store_true')
    ap.add_argument('--update-baseline', action='store_true')
    args = ap.parse_args(argv)
    seed = int(os.environ.get('VERIF_SEED', '0') or 0)
    t_start = time.time()
    prop = args.prop
    try:
        rc = run_check(prop, args, seed, t_start)
    except Exception:
        traceback.print_exc()
        print('CHECKER-ERROR property=%s crash (see traceback)' % prop)
        rc = 3
    sys.exit(rc)


class Ob(object):
    """obligation record returned by a verification worker (the z3 terms stay in the worker)"""

    def __init__(self, d):
        self.__dict__.update(d)

    def smt2(self, relaxed=False):
        return self.smt2_text or '(omitted: proved obligations are not shipped back)'


def verify_worker(job):
    """Generate the obligations of ONE contract (own process: real source re-read, fresh z3 context) and write each query to a scratch
    file; the parent discharges all queries of all contracts in one shared pool (so that one big contract does not serialise the run)."""
    name, tier, scratch = job
    from pyvc.run import build
    from pyvc.engine import Unsupported
    v = build()
    c = v.reg.contracts[name]
    out = {'name': name, 'obligations': [], 'unsupported': None, 'sha': '', 'kind': 'lemma' if c.lemma else 'function', 'warnings': []}
    try:
        v.verify(c)
        fi = v.db.function(c.target)
        out['sha'] = fi.sha if fi else ''
    except Unsupported as ex:
        out['unsupported'] = str(ex)
        return out
    except RecursionError:
        out['unsupported'] = 'recursion limit in symbolic execution'
        return out
    except Exception as ex:      # noqa: an engine error on this contract must not take the other contracts down
        out['unsupported'] = 'engine error: %r\n%s' % (ex, traceback.format_exc()[-1200:])
        return out
    out['warnings'] = sorted(set(v.warnings))
    out['assumed_inputs'] = sorted(v.assumed_inputs)
    sub = os.path.join(scratch, hashlib.sha1(name.encode()).hexdigest()[:12])
    os.makedirs(sub, exist_ok=True)
    for i, o in enumerate(v.obligations):
        full = o.smt2()
        rel = o.smt2(relaxed=True)
        path = os.path.join(sub, '%d.smt2' % i)
        with open(path, 'w') as f:
            f.write(full)
        rpath = None
        if rel != full:
            rpath = os.path.join(sub, '%d.rel.smt2' % i)
            with open(rpath, 'w') as f:
                f.write(rel)
        out['obligations'].append({'oid': o.oid, 'kind': o.kind, 'func': o.func, 'note': o.note, 'expect_sat': o.expect_sat,
                                   'sha': getattr(o, 'sha', ''), 'goal': (o.note or str(o.goal))[:300],
                                   'path': path, 'rel_path': rpath, 'size': len(full)})
    return out


def solve_file_job(job):
    from pyvc.solve import solve_one
    d, t_z3, t_cvc5, both = job
    with open(d['path']) as f:
        full = f.read()
    rel = None
    if d.get('rel_path'):
        with open(d['rel_path']) as f:
            rel = f.read()
    r = solve_one((d['oid'], full, d['expect_sat'], t_z3, t_cvc5, both, rel))
    keep = r['verdict'] != 'proved'
    d = dict(d)
    d.update(verdict=r['verdict'], backend=r['backend'], time=r['time'], reason=r['reason'], model=r['model'], agree=r.get('agree'),
             candidate=r.get('candidate', False), smt2_text=(full if keep and len(full) < 400000 else None))
    return d


def run_check(prop, args, seed, t_start):
    from pyvc.run import build
    from pyvc.solve import solve_all
    from pyvc.engine import Unsupported
    from contracts import classes as K
    from contracts import props as P

    if args.replay:
        return do_replay(prop, args.replay)

    tier = args.tier
    findings, fixed = load_known_findings()
    my_findings = [f for f in findings if f['property'] == prop]
    v = build()
    contracts = [c for c in v.reg.contracts.values() if prop in c.serves]
    if args.only:
        contracts = [c for c in contracts if args.only in c.name]
    info = P.PROPS.get(prop, {})
    # ---- 1. generate obligations from the current tree --------------------------------------
    unsupported = []
    funcs = []
    assumed = [c.name for c in contracts if c.trusted]
    todo = [c for c in contracts if not c.trusted]
    import multiprocessing
    obs = []
    infeasible_calls = []
    assumed_inputs = set()
    if todo:
        mp = multiprocessing.get_context('fork')
        scratch = tempfile.mkdtemp(prefix='pyvc_queries_')
        try:
            with mp.Pool(min(16, len(todo))) as pool:
                results = pool.map(verify_worker, [(c.name, tier, scratch) for c in todo], chunksize=1)
            budgets = (25000, 30000, False) if tier == "quick" else (90000, 90000, True)
            jobs = []
            for r in results:
                for d in r['obligations']:
                    jobs.append((d,) + budgets)
            jobs.sort(key=lambda j: -j[0]['size'])          # big queries first: better packing of the pool
            solved = {}
            if jobs:
                with mp.Pool(min(16, len(jobs))) as pool:
                    for d in pool.imap_unordered(solve_file_job, jobs, chunksize=1):
                        solved[(d['func'], d['oid'])] = d
            for r in results:
                r['obligations'] = [solved[(d['func'], d['oid'])] for d in r['obligations']]
        finally:
            shutil.rmtree(scratch, ignore_errors=True)
        for r in results:
            for w in r.get('warnings', []):
                if 'is infeasible at a call' in w:
                    # a callee postcondition that contradicts the caller's path silently removes that path: vacuity, fail closed
                    infeasible_calls.append(w)
            if r['unsupported'] is not None:
                unsupported.append({'contract': r['name'], 'reason': r['unsupported']})
                continue
            funcs.append({'name': r['name'], 'sha256': r['sha'], 'obligations': len(r['obligations']), 'kind': r['kind']})
            assumed_inputs.update('in %s, at the call of %s' % (r['name'], a) for a in r.get('assumed_inputs', []))
            obs.extend(Ob(d) for d in r['obligations'])
    info = dict(info, assumed_contracts=assumed)
    if assumed_inputs:
        info['assumptions'] = list(info.get('assumptions', [])) + ['input well-formedness assumed (not derivable from coder state; real code raises '
                                                                   'there): %s' % a for a in sorted(assumed_inputs)]
    ground = [g for g in K.ground_checks(v.db) if info.get('ground') is None or g[0] in info['ground'] or True]
    syntactic = []
    for fn in info.get('syntactic', []):
        syntactic.extend(fn(v.db))
    # ---- 2. discharged inside the workers -----------------------------------------------------------
    proved = [o for o in obs if o.verdict == 'proved']
    refuted = [o for o in obs if o.verdict == 'refuted']
    unknown = [o for o in obs if o.verdict == 'unknown']
    vacuous = [o for o in obs if o.verdict == 'vacuous']
    ground_bad = [g for g in ground if not g[1]]
    syn_bad = [g for g in syntactic if not g[1]]
    n_oblig = len(obs) + len(ground) + len(syntactic)
    n_disch = len(proved) + sum(1 for g in ground if g[1]) + sum(1 for g in syntactic if g[1])
    if args.dump:
        for o in obs:
            print('%-8s %-6s %6.2fs %s' % (o.verdict, o.backend, o.time, o.oid))
        for r in funcs:
            print('contract %-70s %5d obligations' % (r['name'], r['obligations']))
        for r in results if todo else []:
            for w in r.get('warnings', []):
                print('warning: ' + w)

    # ---- 3. counterexamples: replay on the real code ----------------------------------------------
    violations = []        # dicts: obligation, replay path, reproduced
    undecided = []
    shutil.rmtree(os.path.join(ROOT, 'replays', prop), ignore_errors=True)
    os.makedirs(os.path.join(ROOT, 'replays', prop), exist_ok=True)
    cjson = {c.name: contract_to_json(c) for c in contracts}
    # ---- bounded stand-in (run first: its concrete failing inputs also serve as witnesses for refuted obligations) ----
    bounded = None
    if info.get('bounded') and not args.no_bounded:
        bounded = run_native(info['bounded'], {'property': prop, 'tier': tier, 'seed': seed,
                                               'contracts': cjson, 'known': my_findings},
                             info.get('bounded_timeout', {}).get(tier, 1500))
    witness_map = info.get('witness_map', {})

    def bounded_witness(func):
        """a concrete failing input found by the bounded layer for the function a refuted obligation belongs to"""
        if not bounded or bounded.get('error'):
            return None
        prefixes = [pref for f, pref in witness_map.items() if func.startswith(f)]
        for bv in bounded.get('violations', []):
            if bv.get('function') and func.startswith(bv['function']):
                return bv
            if any(str(bv.get('key', '')).startswith(pref) for pref in prefixes):
                return bv
        return None
    to_replay = refuted + [o for o in unknown if getattr(o, 'candidate', False)]
    seen_base = {}
    for o in to_replay:
        b = base_id(o.oid)
        if b in seen_base and seen_base[b].get('reproduced'):
            continue
        cname = o.func
        rep = {'reproduced': False, 'detail': 'no replay harness'}
        if cname in cjson and not args.no_bounded:
            rep = run_native('replay.py', {'contract': cjson[cname], 'model': o.model or {}, 'obligation': o.oid,
                                           'note': o.note, 'seed': seed, 'tier': tier}, 300)
        if not rep.get('reproduced') and o.verdict == 'refuted':
            # only an obligation the solver REFUTED borrows the bounded layer's failing input; an obligation without a verdict stays undecided
            # (otherwise an unrelated timeout would be reported under the name of this obligation)
            bw = bounded_witness(o.func)
            if bw is not None:
                rep = {'reproduced': True, 'input': bw.get('input'), 'observed': bw.get('what'), 'expected': bw.get('expected'),
                       'detail': 'the solver model is not a complete input (loop cut / object state); the bounded refuter found this '
                                 'concrete input on which the real %s violates the property (%s)' % (o.func, bw.get('key'))}
        seen_base[b] = dict(rep, obligation=o)
    for b, rep in seen_base.items():
        o = rep['obligation']
        rec = {'property': prop, 'obligation': o.oid, 'function': o.func, 'kind': o.kind, 'note': o.note,
               'solver_verdict': o.verdict + (' (candidate from relaxed query)' if o.verdict != 'refuted' else ''),
               'backend': o.backend, 'model': o.model, 'sha256': getattr(o, 'sha', ''),
               'reproduced': bool(rep.get('reproduced')), 'concrete_input': rep.get('input'),
               'observed': rep.get('observed'), 'expected': rep.get('expected'), 'replay_detail': rep.get('detail'),
               'smt2': o.smt2() if len(o.smt2()) < 400000 else '(omitted: too large)',
               'replay_cmd': './check %s --replay replays/%s/%s.json' % (prop, prop, safe_name(b))}
        if o.verdict == 'refuted' or rep.get('reproduced'):
            violations.append(rec)
        else:
            undecided.append({'obligation': o.oid, 'reason': 'no verdict; candidate counterexample did not replay'})
    for o in unknown:
        if not getattr(o, 'candidate', False):
            undecided.append({'obligation': o.oid, 'reason': o.reason[:200]})

    # ---- 4. bounded stand-in: report ---------------------------------------------------------------------
    if bounded is not None:
        if bounded.get('error'):
            print('CHECKER-ERROR property=%s bounded layer failed: %s %s' % (prop, bounded.get('error'), bounded.get('_stderr', '')[-800:]))
            write_evidence(prop, tier, seed, info, funcs, obs, ground, syntactic, unsupported, bounded, violations, t_start, n_oblig, n_disch, contracts)
            return 3
        for bv in bounded.get('violations', []):
            violations.append({'property': prop, 'obligation': bv.get('contract', 'bounded'), 'function': bv.get('function', ''),
                               'kind': 'bounded', 'note': bv.get('what', ''), 'reproduced': True,
                               'concrete_input': bv.get('input'), 'observed': bv.get('observed'), 'expected': bv.get('expected'),
                               'key': bv.get('key'), 'solver_verdict': 'n/a (run-time contract on the real code)'})

    # ---- 5. known findings ------------------------------------------------------------------------------
    reported = []
    known_hit = []
    for rec in violations:
        key = rec.get('key') or finding_key(rec)
        rec['key'] = key
        hit = [f for f in my_findings if f['key'] == key]
        if hit:
            known_hit.append((hit[0], rec))
        else:
            reported.append(rec)

    # ---- 6. evidence, output ------------------------------------------------------------------------------
    ev = write_evidence(prop, tier, seed, info, funcs, obs, ground, syntactic, unsupported, bounded, reported, t_start, n_oblig, n_disch, contracts)
    for f, rec in known_hit:
        pass
    printed = set()
    for f, rec in known_hit:
        if f['key'] not in printed:
            print('KNOWN-FINDING: property=%s %s [%s]' % (prop, f['text'], f['key']))
            printed.add(f['key'])
    rc = 0
    for w in sorted(set(infeasible_calls)):
        print('CHECKER-ERROR property=%s vacuous path: %s' % (prop, w))
        rc = 3
    if vacuous:
        for o in vacuous:
            print('CHECKER-ERROR property=%s vacuous: %s is unsatisfiable' % (prop, o.oid))
        rc = 3
    # frame obligations decided on the AST: a failure means "this function now writes through an object it did not allocate".  Whether that
    # breaks the property is decided by a concrete input: with a failing input from the bounded layer the violation is reported (below, with
    # that input); without one the verdict is UNDECIDED (a transparent cache would be such a write), never a violation by itself.
    frame_bad = [g for g in syn_bad if '#frame[' in g[0]]
    syn_bad = [g for g in syn_bad if '#frame[' not in g[0]]
    for g in frame_bad:
        undecided.append({'obligation': g[0], 'reason': 'frame obligation fails (%s); no verdict without a failing input' % g[2]})
    if ground_bad or syn_bad:
        for g in ground_bad + syn_bad:
            path = os.path.join('replays', prop, safe_name(g[0]) + '.json')
            with open(os.path.join(ROOT, path), 'w') as f:
                json.dump({'property': prop, 'obligation': g[0], 'kind': 'ground', 'detail': g[2], 'reproduced': True,
                           'replay_cmd': './check %s' % prop}, f, indent=1)
            print('VIOLATION property=%s replay=%s obligation=%s (%s)' % (prop, path, g[0], g[2]))
        rc = max(rc, 1) if rc != 3 else 3
    for rec in reported:
        path = os.path.join('replays', prop, safe_name(base_id(rec['obligation']) + '_' + rec['key'][:40]) + '.json')
        with open(os.path.join(ROOT, path), 'w') as f:
            json.dump({k: (val if not hasattr(val, 'oid') else None) for k, val in rec.items()}, f, indent=1, default=str)
        tail = '' if rec.get('reproduced') else ' no-failing-input-found'
        print('VIOLATION property=%s replay=%s obligation=%s%s' % (prop, path, rec['obligation'], tail))
        rc = 1 if rc != 3 else 3
    if rc == 0 and (undecided or unsupported):
        for u in undecided[:20]:
            print('UNDECIDED property=%s obligation=%s reason=%s' % (prop, u['obligation'], u['reason'].replace('\n', ' ')[:160]))
        for u in unsupported:
            print('UNDECIDED property=%s obligation=%s reason=unsupported: %s' % (prop, u['contract'], u['reason']))
        rc = 2
    if rc == 0:
        nb = bounded.get('evaluations', 0) if bounded else 0
        print('OK property=%s obligations=%d discharged=%d bounded=%d' % (prop, n_oblig, n_disch, nb))
    elif rc == 1:
        pass
    return rc


def safe_name(s):
    return re.sub(r'[^A-Za-z0-9_.#\[\]-]', '_', s)[:150]


def finding_key(rec):
    """Identity of a violation for the known-findings file: the named obligation (deductive) or the key the
    bounded layer derives from the failing input."""
    return base_id(rec['obligation'])


def write_evidence(prop, tier, seed, info, funcs, obs, ground, syntactic, unsupported, bounded, violations, t_start,
                   n_oblig, n_disch, contracts):
    level = info.get('level', 'proof')
    by_backend = {}
    for o in obs:
        if o.verdict == 'proved':
            by_backend[o.backend] = by_backend.get(o.backend, 0) + 1
    slowest = sorted(obs, key=lambda o: -o.time)[:5]
    samples = []
    for o in obs[:400]:
        if o.kind in ('post', 'raises', 'lemma') and len(samples) < 6:
            samples.append({'id': o.oid, 'kind': o.kind, 'verdict': o.verdict, 'formula': o.goal})
    cover = [o for o in obs if o.kind == 'cover']
    trusted = list(info.get('trusted_base', []))
    coverage = {
        'obligations': n_oblig,
        'discharged': n_disch,
        'checker_cmd': './check %s --tier %s   (PyVC: /verif/pyvc, z3-solver %s via python3-vt, /usr/bin/cvc5 --strings-exp for z3 unknowns)' % (prop, tier, z3_version()),
        'trusted_base': trusted,
        'functions_under_contract': funcs,
        'by_backend': dict(by_backend, ground_evaluation=sum(1 for g in ground if g[1]), syntactic=sum(1 for g in syntactic if g[1])),
        'by_kind': count_by(obs, lambda o: o.kind),
        'verdicts': count_by(obs, lambda o: o.verdict),
        'solver_time_s': round(sum(o.time for o in obs), 2),
        'slowest': [{'id': o.oid, 's': round(o.time, 2)} for o in slowest],
        'vacuity': {'cover_obligations': len(cover), 'cover_satisfiable': sum(1 for o in cover if o.verdict == 'proved')},
        'ground_obligations': [{'id': g[0], 'ok': g[1], 'what': g[2]} for g in ground + syntactic],
        'unsupported': unsupported,
        'assumed_contracts': info.get('assumed_contracts', []),
        'samples': samples,
        'explanation': info.get('explanation', ''),
    }
    if bounded is not None:
        coverage['bounded'] = {k: bounded.get(k) for k in ('rule', 'bound', 'evaluations', 'distinct_nontrivial', 'exhaustive', 'samples', 'parts') if k in bounded}
        coverage['evaluations'] = int(bounded.get('evaluations', 0))
        coverage['distinct_nontrivial'] = int(bounded.get('distinct_nontrivial', 0))
        coverage['rule'] = bounded.get('rule', '')
        if level != 'proof':
            coverage['samples'] = (bounded.get('samples') or [])[:8] + samples[:3]
        coverage['exhaustive'] = bool(bounded.get('exhaustive', False))
    ev = {
        'property_id': prop, 'tier': tier, 'seed': seed, 'level': level,
        'coverage': coverage,
        'assumptions': list(info.get('assumptions', [])) + ['unsupported (not verified): %s' % u['contract'] for u in unsupported] +
                       ['assumed interface / library contract (used at calls, not verified against a body): %s' % a
                        for a in info.get('assumed_contracts', [])],
        'wall_s': round(time.time() - t_start, 2),
        'violations': len(violations),
    }
    os.makedirs(os.path.join(ROOT, 'evidence'), exist_ok=True)
    with open(os.path.join(ROOT, 'evidence', prop + '.json'), 'w') as f:
        json.dump(ev, f, indent=1, default=str)
    return ev


def count_by(items, keyf):
    d = {}
    for i in items:
        k = keyf(i)
        d[k] = d.get(k, 0) + 1
    return d


def z3_version():
    try:
        import z3
        return z3.get_version_string()
    except Exception:
        return '?'


def do_replay(prop, path):
    with open(path if os.path.isabs(path) else os.path.join(ROOT, path)) as f:
        rec = json.load(f)
    print(json.dumps({k: rec.get(k) for k in ('obligation', 'note', 'concrete_input', 'observed', 'expected', 'reproduced')}, indent=1, default=str))
    # re-run the check restricted to the function; the concrete input is re-tried by the replay harness
    from pyvc.run import build
    v = build()
    cname = rec.get('function')
    c = v.reg.contracts.get(cname)
    if c is None or not rec.get('concrete_input'):
        print('replay: no concrete input stored; re-run ./check %s' % prop)
        return 0
    rep = run_native('replay.py', {'contract': contract_to_json(c), 'model': rec.get('model') or {}, 'obligation': rec['obligation'],
                                   'note': rec.get('note'), 'seed': 0, 'tier': 'quick', 'fixed_input': rec.get('concrete_input')}, 300)
    print('replay on current tree: reproduced=%s %s' % (rep.get('reproduced'), rep.get('detail', '')))
    return 1 if rep.get('reproduced') else 0


if __name__ == '__main__':
    main()
