"""Statement execution, loop cutting, calls by contract, function verification (mixed into Engine)."""
import ast
import z3

from .ty import (INT, BOOL, STR, BYTES, FLOAT, NONE, VAL, ANYFUNC, Ref, ListT, DictT, TupleT,
                 Val, sort_of, sort_key, is_reflike)
from . import engine as E
from .engine import SV, Exc, Unsupported, CLS, I, B, S, fresh, Ctx, State
from .contract import Loop


class ExecMixin(object):

    # ------------------------------------------------------------------------------
    def exec_block(self, stmts, st, ctx):
        """Generator of (state, flow); flow is None | ('return', sv) | ('break',) | ('continue',)."""
        if not stmts:
            yield st, None
            return
        first, rest = stmts[0], stmts[1:]
        for st1, flow in self.exec_stmt(first, st, ctx):
            if flow is not None:
                yield st1, flow
            else:
                for r in self.exec_block(rest, st1, ctx):
                    yield r

    def exec_stmt(self, s, st, ctx):
        m = getattr(self, 'ex_' + type(s).__name__, None)
        if m is None:
            raise Unsupported('statement %s' % type(s).__name__)
        for r in m(s, st, ctx):
            yield r

    def ex_Pass(self, s, st, ctx):
        yield st, None

    def ex_Expr(self, s, st, ctx):
        for st1, _ in self.ev(s.value, st, ctx):
            yield st1, None

    def ex_Return(self, s, st, ctx):
        if s.value is None:
            yield st, ('return', self.lit(None))
            return
        for st1, v in self.ev(s.value, st, ctx):
            yield st1, ('return', v)

    def ex_Break(self, s, st, ctx):
        yield st, ('break',)

    def ex_Continue(self, s, st, ctx):
        yield st, ('continue',)

    def ex_Global(self, s, st, ctx):
        yield st, None

    def exc_class_of(self, node, st, ctx):
        """Class name of the exception constructed by a `raise` operand (message text is not modelled)."""
        if isinstance(node, ast.Call):
            node2 = node.func
        else:
            node2 = node
        if isinstance(node2, ast.Name):
            if node2.id in st.locals:
                v = st.locals[node2.id]
                if isinstance(v, Exc):
                    return v
                if v.ty == CLS and isinstance(v.z, tuple) and v.z[0] == 'exc':
                    return Exc(v.z[1])
            name = node2.id
            if name in self.exc_table:
                return Exc(name)
            if ctx.module:
                tgt = self.db.module(ctx.module).imports.get(name)
                if tgt and tgt.rsplit('.', 1)[-1] in self.exc_table:
                    return Exc(tgt.rsplit('.', 1)[-1])
                # function returning an exception object (e.g. unexpected_char_error)
                fi = self.db.function(ctx.module + '.' + name)
                if fi is not None:
                    for n in ast.walk(fi.node):
                        if isinstance(n, ast.Return) and n.value is not None:
                            return self.exc_class_of(n.value, State(), Ctx(self, None, fi))
        if isinstance(node2, ast.Attribute) and isinstance(node2.value, ast.Name):
            full = node2.value.id + '.' + node2.attr
            if full in self.exc_table:
                return Exc(full)
        raise Unsupported('raise of %s' % ast.unparse(node))

    def ex_Raise(self, s, st, ctx):
        if s.exc is None:
            cur = getattr(ctx, 'current_exc', None)
            if cur is None:
                raise Unsupported('bare raise outside handler')
            ctx.raise_(st, cur)
            return
            yield
        exc = self.exc_class_of(s.exc, st, ctx)
        ctx.raise_(st, exc)
        return
        yield

    def ex_Assert(self, s, st, ctx):
        for st1, c in self.ev(s.test, st, ctx):
            cond = self.truth(st1, c)
            self.safe(ctx, st1, cond, 'AssertionError', 'assert')
            yield st1, None

    def ex_If(self, s, st, ctx):
        for st1, c in self.ev(s.test, st, ctx):
            cond = self.truth(st1, c)
            cs = z3.simplify(cond)
            if z3.is_true(cs):
                for r in self.exec_block(s.body, st1, ctx):
                    yield r
                continue
            if z3.is_false(cs):
                for r in self.exec_block(s.orelse, st1, ctx):
                    yield r
                continue
            st_t = st1.fork()
            st_t.assume(cond)
            st_f = st1.fork()
            st_f.assume(z3.Not(cond))
            if self.feasible(st_t):
                for r in self.exec_block(s.body, st_t, ctx):
                    yield r
            if self.feasible(st_f):
                for r in self.exec_block(s.orelse, st_f, ctx):
                    yield r

    # ---- assignment -------------------------------------------------------------------
    def assign(self, target, val, st, ctx):
        if isinstance(target, ast.Name):
            hint = ctx.contract.locals.get(target.id) if ctx.contract else None
            if hint is not None and not isinstance(val, Exc):
                val = self.coerce(val, hint)
            st.locals[target.id] = val
            return [st]
        if isinstance(target, ast.Attribute):
            outs = []
            for st1, obj in self.ev(target.value, st, ctx):
                self.write_field(ctx, st1, obj, target.attr, val)
                outs.append(st1)
            return outs
        if isinstance(target, ast.Subscript):
            outs = []
            for st1, obj in self.ev(target.value, st, ctx):
                if isinstance(target.slice, ast.Slice):
                    hook = self.class_hook(obj.ty.cls, 'setslice') if isinstance(obj.ty, Ref) else None
                    if hook is None:
                        raise Unsupported('slice assignment')
                    parts = [p for p in (target.slice.lower, target.slice.upper) if p is not None]
                    for st2, vals in self.ev_list(parts, st1, ctx):
                        for st3 in hook(self, ctx, st2, obj, vals, val):
                            outs.append(st3)
                    continue
                for st2, idx in self.ev(target.slice, st1, ctx):
                    t = obj.ty
                    if isinstance(t, ListT):
                        n = self.list_len(st2, obj)
                        i = self.coerce(idx, INT).z
                        self.safe(ctx, st2, z3.And(i >= -n, i < n), 'IndexError', 'list assignment index')
                        j = z3.If(i < 0, i + n, i)
                        v = self.coerce(val, t.elem)
                        self.elem_store_check(ctx, st2, t.elem, v)
                        old = z3.Select(self.list_arr(st2, obj), j)
                        self.list_set_raw(st2, obj, n, z3.Store(self.list_arr(st2, obj), z3.simplify(j), v.z))
                        if t.elem == INT:
                            self.set_ghost(st2, 'sum', z3.IntSort(), obj.z,
                                           self.get_ghost(st2, 'sum', z3.IntSort(), obj.z) - old + v.z)
                        if t.elem in (STR, BYTES):
                            self.set_ghost(st2, 'joined', z3.StringSort(), obj.z, fresh('joined', z3.StringSort()))
                    elif isinstance(t, DictT):
                        self.dict_set(ctx, st2, obj, idx, val)
                    else:
                        raise Unsupported('subscript assignment on %r' % (t,))
                    outs.append(st2)
            return outs
        if isinstance(target, (ast.Tuple, ast.List)):
            if isinstance(val.ty, ListT):
                # unpacking a list: Python raises ValueError unless the lengths agree
                n = self.list_len(st, val)
                self.safe(ctx, st, n == len(target.elts), 'ValueError', 'unpack list of wrong length')
                arr = self.list_arr(st, val)
                items = [SV(val.ty.elem, z3.Select(arr, I(k))) for k in range(len(target.elts))]
                states = [st]
                for t, v in zip(target.elts, items):
                    nxt = []
                    for s0 in states:
                        nxt.extend(self.assign(t, v, s0, ctx))
                    states = nxt
                return states
            items = self.tuple_items(val) if isinstance(val.ty, TupleT) else None
            if items is None or len(items) != len(target.elts):
                raise Unsupported('unpacking of %r' % (val.ty,))
            states = [st]
            for t, v in zip(target.elts, items):
                nxt = []
                for s0 in states:
                    nxt.extend(self.assign(t, v, s0, ctx))
                states = nxt
            return states
        raise Unsupported('assignment target %s' % type(target).__name__)

    def ex_Assign(self, s, st, ctx):
        self.annotate_literal(s.value, s.targets[0], ctx)
        for st1, v in self.ev(s.value, st, ctx):
            states = [st1]
            # Python assigns targets left to right
            for t in s.targets:
                nxt = []
                for s0 in states:
                    nxt.extend(self.assign(t, v, s0, ctx))
                states = nxt
            for s0 in states:
                yield s0, None

    def annotate_literal(self, value, target, ctx):
        """Attach contract type hints to empty list / dict literals assigned to hinted locals or fields."""
        hint = None
        if isinstance(target, ast.Name) and ctx.contract:
            hint = ctx.contract.locals.get(target.id)
        elif isinstance(target, ast.Attribute) and isinstance(target.value, ast.Name):
            sv = None
            cls = None
            if target.value.id == 'self' and ctx.cls:
                cls = ctx.cls
            elif ctx.contract and target.value.id in ctx.contract.params and isinstance(ctx.contract.params[target.value.id], Ref):
                cls = ctx.contract.params[target.value.id].cls
            if cls:
                try:
                    hint = self.field_type(cls, target.attr)
                except Unsupported:
                    hint = None
        if hint is None:
            return
        self.annotate_node(value, hint)

    def annotate_node(self, node, hint):
        """push a static type hint down into list / dict literals and comprehensions, one nesting level per literal"""
        if isinstance(node, ast.List) and isinstance(hint, ListT):
            node._pyvc_elem = hint.elem
            for el in node.elts:
                self.annotate_node(el, hint.elem)
        elif isinstance(node, ast.Dict) and isinstance(hint, DictT):
            node._pyvc_dict = hint
        elif isinstance(node, ast.ListComp) and isinstance(hint, ListT):
            node._pyvc_elem = hint.elem
            self.annotate_node(node.elt, hint.elem)
        elif isinstance(node, ast.BinOp):
            self.annotate_node(node.left, hint)
            if not isinstance(node.op, ast.Mult):
                self.annotate_node(node.right, hint)
        elif isinstance(node, ast.IfExp):
            self.annotate_node(node.body, hint)
            self.annotate_node(node.orelse, hint)
        elif isinstance(node, ast.BoolOp):
            for v in node.values:
                self.annotate_node(v, hint)

    def ex_AugAssign(self, s, st, ctx):
        load = s.target
        if isinstance(load, ast.Name):
            for st1, cur in self.ev(ast.Name(id=load.id, ctx=ast.Load()), st, ctx):
                for st2, v in self.ev(s.value, st1, ctx):
                    if isinstance(cur.ty, ListT) and isinstance(s.op, ast.Add):
                        raise Unsupported('list += (in-place extend)')
                    r = self.binop(ctx, st2, s.op, cur, v)
                    for s3 in self.assign(load, r, st2, ctx):
                        yield s3, None
            return
        if isinstance(load, ast.Attribute):
            for st1, obj in self.ev(load.value, st, ctx):
                cur = self.get_attr(ctx, st1, obj, load.attr)
                for st2, v in self.ev(s.value, st1, ctx):
                    if isinstance(cur.ty, Ref):
                        hook = self.class_hook(cur.ty.cls, 'iadd')
                        if hook is not None and isinstance(s.op, ast.Add):
                            for st3 in hook(self, ctx, st2, cur, v):
                                yield st3, None
                            continue
                    if isinstance(cur.ty, ListT):
                        raise Unsupported('list += (in-place extend)')
                    r = self.binop(ctx, st2, s.op, cur, v)
                    self.write_field(ctx, st2, obj, load.attr, r)
                    yield st2, None
            return
        if isinstance(load, ast.Subscript):
            for st1, obj in self.ev(load.value, st, ctx):
                for st2, idx in self.ev(load.slice, st1, ctx):
                    cur = self.index_of(ctx, st2, obj, idx)
                    for st3, v in self.ev(s.value, st2, ctx):
                        r = self.binop(ctx, st3, s.op, cur, v)
                        tmp = ast.Subscript(value=ast.Name(id='$obj', ctx=ast.Load()), slice=ast.Name(id='$idx', ctx=ast.Load()), ctx=ast.Store())
                        st3.locals['$obj'] = obj
                        st3.locals['$idx'] = idx
                        for s4 in self.assign(tmp, r, st3, ctx):
                            s4.locals.pop('$obj', None)
                            s4.locals.pop('$idx', None)
                            yield s4, None
            return
        raise Unsupported('augmented assignment target')

    def ex_Delete(self, s, st, ctx):
        for t in s.targets:
            if isinstance(t, ast.Name):
                st.locals.pop(t.id, None)
            elif isinstance(t, ast.Attribute):
                hook = self.opts.get('delattr_hook')
                if hook is None:
                    raise Unsupported('del attribute')
                for st1, obj in self.ev(t.value, st, ctx):
                    hook(self, ctx, st1, obj, t.attr)
            else:
                raise Unsupported('del target')
        yield st, None

    # ---- try / except ----------------------------------------------------------------
    def handler_classes(self, h, st, ctx):
        if h.type is None:
            return [None]
        names = []
        nodes = h.type.elts if isinstance(h.type, ast.Tuple) else [h.type]
        for n in nodes:
            if isinstance(n, ast.Name):
                nm = n.id
                if ctx.module:
                    tgt = self.db.module(ctx.module).imports.get(nm)
                    if tgt and tgt.rsplit('.', 1)[-1] in self.exc_table:
                        nm = tgt.rsplit('.', 1)[-1]
                if nm not in self.exc_table:
                    raise Unsupported('handler class %s' % nm)
                names.append(nm)
            elif isinstance(n, ast.Attribute):
                # e.g. self.bitstring_Error: a class-valued field (constant per class table)
                outs = list(self.ev(n, st.fork(), ctx))
                if len(outs) != 1 or outs[0][1].ty != CLS:
                    raise Unsupported('handler class expression')
                cid = z3.simplify(outs[0][1].z)
                if not z3.is_int_value(cid):
                    raise Unsupported('symbolic handler class')
                nm = [k for k, v in self.class_ids.items() if v == cid.as_long()][0]
                names.append(nm)
            else:
                raise Unsupported('handler class expression')
        return names

    def ex_Try(self, s, st, ctx):
        if s.finalbody:
            raise Unsupported('try/finally')
        hclasses = [self.handler_classes(h, st, ctx) for h in s.handlers]
        ctx.sinks.append([])
        ctx.handlers.append([c for hc in hclasses for c in hc])
        normal = list(self.exec_block(s.body, st, ctx))
        ctx.handlers.pop()
        raised = ctx.sinks.pop()
        for st1, flow in normal:
            if flow is None and s.orelse:
                for r in self.exec_block(s.orelse, st1, ctx):
                    yield r
            else:
                yield st1, flow
        for st1, exc in raised:
            handled = False
            for h, hc in zip(s.handlers, hclasses):
                if any(c is None or self.is_subclass(exc.cls, c) for c in hc):
                    handled = True
                    if h.name:
                        st1.locals[h.name] = exc
                    prev = getattr(ctx, 'current_exc', None)
                    ctx.current_exc = exc
                    outs = list(self.exec_block(h.body, st1, ctx))
                    ctx.current_exc = prev
                    for r in outs:
                        yield r
                    break
            if not handled:
                ctx.raise_(st1, exc)

    def ex_With(self, s, st, ctx):
        hook = self.opts.get('with_hook')
        if hook is None:
            raise Unsupported('with statement')
        for r in hook(self, s, st, ctx):
            yield r

    # ---- loops ------------------------------------------------------------------------
    def assigned_names(self, stmts):
        names = []

        def tgt(t):
            if isinstance(t, ast.Name):
                if t.id not in names:
                    names.append(t.id)
            elif isinstance(t, (ast.Tuple, ast.List)):
                for x in t.elts:
                    tgt(x)
        for node in stmts:
            for n in ast.walk(node):
                if isinstance(n, ast.Assign):
                    for t in n.targets:
                        tgt(t)
                elif isinstance(n, (ast.AugAssign, ast.AnnAssign)):
                    tgt(n.target)
                elif isinstance(n, ast.For):
                    tgt(n.target)
                elif isinstance(n, ast.ExceptHandler) and n.name:
                    names.append(n.name)
        return names

    def loop_spec(self, ctx, node=None):
        """loops are keyed by their ordinal in source order within the function (stable across execution paths)"""
        ids = getattr(ctx, 'loop_ids', None)
        if ids is None:
            ids = {}
            if ctx.finfo is not None:
                loops = [n for n in ast.walk(ctx.finfo.node) if isinstance(n, (ast.For, ast.While))]
                loops.sort(key=lambda n: (n.lineno, n.col_offset))
                ids = {id(n): i for i, n in enumerate(loops)}
            ctx.loop_ids = ids
        if node is not None and id(node) in ids:
            k = ids[id(node)]
        else:
            k = ctx.loop_ordinal
            ctx.loop_ordinal += 1
        spec = ctx.contract.loops.get(k) if ctx.contract else None
        return k, spec

    def havoc_local(self, name, sv, st):
        if isinstance(sv, Exc) or sv.ty in (ANYFUNC,) or isinstance(sv.z, tuple):
            return sv
        if sv.ty == CLS:
            return sv
        z = fresh('hv!' + name, sort_of(sv.ty))
        if is_reflike(sv.ty):
            st.assume(z3.And(z >= 0, z < st.alloc + st.nalloc))
            self.coll_fact(st, sv.ty, z)
        return SV(sv.ty, z)

    def havoc_locs(self, st, ctx, specs, tag='hv'):
        """Havoc the heap locations named by location specs (evaluated in st). Returns the list of
        (key, ref-or-None) that were havocked, for the frame check."""
        locs = []
        sctx = self.spec_ctx(ctx, bound=ctx.bound)
        for spec in specs:
            locs.extend(self.resolve_loc(spec, st, sctx))
        for key, ref in locs:
            arr = st.hget(key)
            if ref is None:
                st.hset(key, fresh(tag + '!' + E.key_name(key), arr.sort()))
            else:
                st.hset(key, z3.Store(arr, ref, fresh(tag + '!' + E.key_name(key), arr.sort().range())))
        return locs

    def resolve_loc(self, spec, st, sctx):
        """Location spec -> [(heap key, ref | None)].

        'x.f'           field f of object x
        'x.*'           every declared field of object x
        'list(e)'       length and elements of the list e
        'lists(e)'      every list of the element type of e (e: list of lists)  [whole maps]
        'dict(e)'       content of dict e
        'ghost(e, n)'   ghost field n of object e
        'alllists(T)' / 'allfields(f)' whole maps
        """
        spec = spec.strip()
        node = ast.parse(spec, mode='eval').body
        out = []
        if isinstance(node, ast.Call) and isinstance(node.func, ast.Name):
            fn = node.func.id
            if fn == 'list':
                lst = self.spec_eval(node.args[0], st, sctx)
                el = lst.ty.elem
                out += [(E.lkey(el), lst.z), (E.ekey(el), lst.z)]
                if el in (STR, BYTES):
                    out.append((self.ghost_key('joined', z3.StringSort()), lst.z))
                if el == INT:
                    out.append((self.ghost_key('sum', z3.IntSort()), lst.z))
                return out
            if fn == 'lists':
                lst = self.spec_eval(node.args[0], st, sctx)
                el = lst.ty.elem.elem
                out += [(E.lkey(el), None), (E.ekey(el), None)]
                if el in (STR, BYTES):
                    out.append((self.ghost_key('joined', z3.StringSort()), None))
                if el == INT:
                    out.append((self.ghost_key('sum', z3.IntSort()), None))
                return out
            if fn == 'dict':
                d = self.spec_eval(node.args[0], st, sctx)
                for k in E.dkeys(d.ty.key, d.ty.val):
                    out.append((k, d.z))
                return out
            if fn == 'elems_of':
                # every list / dict that is an element of the list e (e: list of lists / list of dicts)
                outer = self.spec_eval(node.args[0], st, sctx)
                inner = outer.ty.elem
                member = ('member', outer.z, self.list_len(st, outer), self.list_arr(st, outer))
                if isinstance(inner, ListT):
                    el = inner.elem
                    out += [(E.lkey(el), member), (E.ekey(el), member)]
                    if el in (STR, BYTES):
                        out.append((self.ghost_key('joined', z3.StringSort()), member))
                    if el == INT:
                        out.append((self.ghost_key('sum', z3.IntSort()), member))
                else:
                    for kk in E.dkeys(inner.key, inner.val):
                        out.append((kk, member))
                return out
            if fn == 'fields_of':
                # field f of every object that is an element of the list e
                outer = self.spec_eval(node.args[0], st, sctx)
                fname = node.args[1].value
                fty = self.field_type(outer.ty.elem.cls, fname)
                member = ('member', outer.z, self.list_len(st, outer), self.list_arr(st, outer))
                return [(E.fkey(fname, fty), member)]
            if fn == 'alldicts':
                # every dict of the type of e (whole maps)
                d = self.spec_eval(node.args[0], st, sctx)
                for k in E.dkeys(d.ty.key, d.ty.val):
                    out.append((k, None))
                return out
            if fn == 'ghost':
                o = self.spec_eval(node.args[0], st, sctx)
                name = node.args[1].value
                srt = self.ghost_sorts[name]
                return [(self.ghost_key(name, srt), o.z)]
            raise Unsupported('location spec %s' % spec)
        if isinstance(node, ast.Attribute):
            obj = self.spec_eval(node.value, st, sctx)
            fty = self.field_type(obj.ty.cls, node.attr)
            if fty is None:
                hook = self.class_hook(obj.ty.cls, 'loc')
                if hook:
                    return hook(self, st, obj, node.attr)
                raise Unsupported('location %s' % spec)
            return [(E.fkey(node.attr, fty), obj.z)]
        if isinstance(node, ast.BinOp) and isinstance(node.op, ast.Mult):
            pass
        if spec.endswith('.*'):
            pass
        raise Unsupported('location spec %s' % spec)

    ghost_sorts = {}

    def resolve_locs(self, specs, st, ctx):
        sctx = self.spec_ctx(ctx, bound=ctx.bound, result=getattr(ctx, 'result', None))
        locs = []
        for spec in specs:
            spec = spec.strip()
            if spec.endswith('.*'):
                obj = self.spec_eval(spec[:-2], st, sctx)
                fields = {}
                for c in reversed(self.mro(obj.ty.cls)):
                    fields.update(self.classes.get(c, {}).get('fields', {}))
                for c in self.subclasses(obj.ty.cls):
                    fields.update(self.classes.get(c, {}).get('fields', {}))
                for fname, fty in fields.items():
                    if fty in (CLS, ANYFUNC):
                        continue
                    locs.append((E.fkey(fname, fty), obj.z))
                for gname, srt in self.classes.get(obj.ty.cls, {}).get('ghosts', {}).items():
                    locs.append((self.ghost_key(gname, srt), obj.z))
            else:
                locs.extend(self.resolve_loc(spec, st, sctx))
        return locs

    def apply_havoc(self, st, locs, tag='hv'):
        for key, ref in locs:
            arr = st.hget(key)
            if isinstance(ref, tuple) and ref[0] == 'member':
                # only the entries of the objects that are elements of the given list may change
                _, outer, n, oarr = ref
                na = fresh(tag + '!' + E.key_name(key), arr.sort())
                r = fresh('r', z3.IntSort())
                j = fresh('j', z3.IntSort())
                st.assume(z3.ForAll([r], z3.Or(z3.Exists([j], z3.And(0 <= j, j < n, z3.Select(oarr, j) == r)),
                                               z3.Select(na, r) == z3.Select(arr, r)), patterns=[z3.Select(na, r)]))
                st.hset(key, na)
                if key[0] in ('elems', 'dval'):
                    st.havoc_vals = st.havoc_vals + [(z3.Select(na, fresh('any', z3.IntSort())), st.alloc + st.nalloc)]
                continue
            if ref is None:
                na = fresh(tag + '!' + E.key_name(key), arr.sort())
                st.hset(key, na)
                st.set_base(key, na)
            else:
                v = fresh(tag + '!' + E.key_name(key), arr.sort().range())
                st.hset(key, z3.Store(arr, ref, v))
                if key[0] == 'f' and key[2] == 'R':
                    st.assume(z3.And(v >= 0, v < st.alloc + st.nalloc))
                # element arrays of lists / dicts of references: facts are added when an element is read
                # (see havoc_bound)
                if key[0] in ('elems', 'dval'):
                    st.havoc_vals = st.havoc_vals + [(v, st.alloc + st.nalloc)]

    def frame_goal(self, before, after, locs, limit=None):
        """Everything outside `locs` that existed in `before` is unchanged in `after`.
        The universally quantified reference is skolemised, so the goal is quantifier free."""
        conj = []
        keys = set(before.heap) | set(after.heap)
        by_key = {}
        for key, ref in locs:
            by_key.setdefault(key, []).append(ref)
        if limit is None:
            limit = before.alloc + before.nalloc
        for key in sorted(keys, key=E.key_name):
            a0, a1 = before.hget(key), after.hget(key)
            if a0.eq(a1):
                continue
            refs = by_key.get(key, [])
            if any(r is None for r in refs):
                continue
            r = fresh('frame!r', z3.IntSort())
            hyp = [r > 0, r < limit]
            for x in refs:
                if isinstance(x, tuple) and x[0] == 'member':
                    j = fresh('j', z3.IntSort())
                    hyp.append(z3.ForAll([j], z3.Implies(z3.And(0 <= j, j < x[2]), z3.Select(x[3], j) != r), patterns=[z3.Select(x[3], j)]))
                else:
                    hyp.append(r != x)
            conj.append((key, z3.Implies(z3.And(hyp), z3.Select(a1, r) == z3.Select(a0, r))))
        return conj

    def check_invariants(self, ctx, st, spec, k, phase, entry_state):
        sctx = self.spec_ctx(ctx, old_state=entry_state, bound=ctx.bound)
        sctx.loop_entry_state = getattr(ctx, 'loop_entry', {}).get(k)
        for i, inv in enumerate(spec.invariants):
            try:
                g = self.spec_bool(inv, st, sctx)
            except Unsupported as ex:
                raise Unsupported('loop %d invariant %r: %s' % (k, inv, ex))
            self.emit(ctx, st, 'inv.' + phase, 'loop%d.%d' % (k, i), g, note=inv)

    def check_steps(self, ctx, st, spec, k, snapshot):
        """step contract of the loop: each clause relates the state at the start of an arbitrary iteration (old(..),
        evaluated in `snapshot`, locals included) to the state at its end"""
        if not getattr(spec, 'steps', None):
            return
        sctx = self.spec_ctx(ctx, old_state=snapshot, bound=ctx.bound)
        for i, clause in enumerate(spec.steps):
            try:
                g = self.spec_bool(clause, st, sctx)
            except Unsupported as ex:
                raise Unsupported('loop %d step clause %r: %s' % (k, clause, ex))
            self.emit(ctx, st, 'step', 'loop%d.%d' % (k, i), g, note=clause)

    def assume_invariants(self, ctx, st, spec, k, entry_state):
        sctx = self.spec_ctx(ctx, old_state=entry_state, bound=ctx.bound)
        sctx.loop_entry_state = getattr(ctx, 'loop_entry', {}).get(k)
        for inv in spec.invariants:
            st.assume(self.spec_bool(inv, st, sctx))

    def run_loop(self, ctx, st, k, spec, body, guard_fn, after_body_fn, extra_names=(), orelse=()):
        """Generic loop cut. guard_fn(state) -> list of (state, z3 cond); after_body_fn(state) advances
        hidden iteration variables at the end of an iteration (for `for` loops)."""
        if spec is None:
            raise Unsupported('loop %d of %s has no invariant in the sidecar' % (k, ctx.contract.target if ctx.contract else '?'))
        entry_state = getattr(ctx, 'pre_state', None)
        if not hasattr(ctx, 'loop_entry'):
            ctx.loop_entry = {}
        ctx.loop_entry[k] = st.fork()              # entry(e) in invariants / step clauses of this loop: e when the loop was entered
        # 1. invariant holds on entry
        self.check_invariants(ctx, st, spec, k, 'init', entry_state)
        # 2. havoc
        hv = st.fork()
        loop_limit = st.alloc + st.nalloc          # everything below existed when the loop was entered
        if not hasattr(ctx, 'loop_entry'):
            ctx.loop_entry = {}
        ctx.loop_entry[k] = st.fork()              # entry(e) in invariants / step clauses of this loop: e when the loop was entered
        # earlier iterations may have allocated objects: the allocation counter moves to an unknown later point
        na = fresh('alloc', z3.IntSort())
        hv.assume(na >= st.alloc + st.nalloc)
        hv.alloc = na
        hv.nalloc = 0
        names = self.assigned_names(body) + list(extra_names)
        for n in names:
            if n in hv.locals:
                hv.locals[n] = self.havoc_local(n, hv.locals[n], hv)
            elif n in spec.locals:
                ty = spec.locals[n]
                hv.locals[n] = SV(ty, fresh('hv!' + n, sort_of(ty)))
        locs = self.resolve_locs(spec.modifies, hv, ctx)
        self.apply_havoc(hv, locs)
        self.assume_invariants(ctx, hv, spec, k, entry_state)
        # 3. one arbitrary iteration / exit
        for g_st, cond in guard_fn(hv.fork()):
            s_in = g_st.fork()
            s_in.assume(cond)
            s_out = g_st.fork()
            s_out.assume(z3.Not(cond))
            if self.feasible(s_in):
                snapshot = s_in.fork()
                ctx.sinks.append([])
                body_outs = list(self.exec_block(body, s_in, ctx))
                body_raised = ctx.sinks.pop()
                for r_st, exc in body_raised:
                    for cls, clauses in getattr(spec, 'raise_steps', {}).items():
                        if not self.is_subclass(exc.cls, cls):
                            continue
                        sctx = self.spec_ctx(ctx, old_state=snapshot, bound=ctx.bound)
                        for i, clause in enumerate(clauses):
                            try:
                                g = self.spec_bool(clause, r_st, sctx)
                            except Unsupported as ex:
                                raise Unsupported('loop %d raise-step clause %r: %s' % (k, clause, ex))
                            self.emit(ctx, r_st, 'step', 'loop%d.raise.%s.%d' % (k, cls, i), g, note=clause)
                    ctx.raise_(r_st, exc)
                for b_st, flow in body_outs:
                    if flow is not None and flow[0] == 'return':
                        yield b_st, flow
                        continue
                    if flow is not None and flow[0] == 'break':
                        # frame of the partial iteration
                        for key, goal in self.frame_goal(snapshot, b_st, locs, limit=loop_limit):
                            self.emit(ctx, b_st, 'frame', 'loop%d.%s' % (k, E.key_name(key)), goal)
                        b_st.marks['exit%d' % k] = b_st.fork()
                        yield b_st, None
                        continue
                    for a_st in after_body_fn(b_st):
                        self.check_steps(ctx, a_st, spec, k, snapshot)
                        self.check_invariants(ctx, a_st, spec, k, 'keep', entry_state)
                        for key, goal in self.frame_goal(snapshot, a_st, locs, limit=loop_limit):
                            self.emit(ctx, a_st, 'frame', 'loop%d.%s' % (k, E.key_name(key)), goal)
            if self.feasible(s_out):
                s_out.marks['exit%d' % k] = s_out.fork()
                if orelse:
                    for r in self.exec_block(list(orelse), s_out, ctx):
                        yield r
                else:
                    yield s_out, None

    def ex_While(self, s, st, ctx):
        k, spec = self.loop_spec(ctx, s)

        def guard(state):
            return [(s1, self.truth(s1, c)) for s1, c in self.ev(s.test, state, ctx)]

        for r in self.run_loop(ctx, st, k, spec, s.body, guard, lambda x: [x], orelse=s.orelse):
            yield r

    def ex_For(self, s, st, ctx):
        k, spec = self.loop_spec(ctx, s)
        it = s.iter
        iv = '_i%d' % k
        # --- range(...) --------------------------------------------------------------
        if isinstance(it, ast.Call) and isinstance(it.func, ast.Name) and it.func.id == 'range':
            for st1, args in self.ev_list(it.args, st, ctx):
                args = [self.coerce(a, INT) for a in args]
                if len(args) == 1:
                    lo, hi, step = I(0), args[0].z, 1
                elif len(args) == 2:
                    lo, hi, step = args[0].z, args[1].z, 1
                else:
                    stp = z3.simplify(args[2].z)
                    if not z3.is_int_value(stp) or stp.as_long() == 0:
                        raise Unsupported('range with symbolic step')
                    lo, hi, step = args[0].z, args[1].z, stp.as_long()
                st1.locals[iv] = SV(INT, lo)
                st1.locals[iv + 'hi'] = SV(INT, hi)
                st1.locals[iv + 'lo'] = SV(INT, lo)
                kind = 'range' if step == 1 else 'other'

                def guard(state, _step=step):
                    i, h = state.locals[iv].z, state.locals[iv + 'hi'].z
                    return [(state, (i < h) if _step > 0 else (i > h))]

                def pre_body(state):
                    return self.assign(s.target, state.locals[iv], state, ctx)

                def after(state, _step=step):
                    state.locals[iv] = SV(INT, state.locals[iv].z + _step)
                    return [state]
                body = [_Bind(s.target, iv)] + list(s.body)
                for r in self.run_loop(ctx, st1, k, self.auto_inv(spec, iv, kind), body, guard, after, extra_names=[iv] + self.assigned_names([ast.Assign(targets=[s.target], value=ast.Constant(value=0))]), orelse=s.orelse):
                    yield r
            return
        # --- enumerate(list) / list / zip ------------------------------------------------
        enum = False
        src = it
        if isinstance(it, ast.Call) and isinstance(it.func, ast.Name) and it.func.id == 'enumerate':
            enum = True
            src = it.args[0]
        zipped = None
        if isinstance(src, ast.Call) and isinstance(src.func, ast.Name) and src.func.id == 'zip':
            zipped = src.args
        if zipped is not None:
            raise Unsupported('for over zip')
        for st1, seq in self.ev(src, st, ctx):
            seq = self.iter_source(ctx, st1, seq)
            if seq.ty == VAL:
                # a dynamically typed slot iterated as a list: the contract names the static list type (`locals={'@iter:<expr>': T}`);
                # anything but an object reference cannot be iterated (TypeError, an obligation under `no implicit raise`)
                hint = (ctx.contract.locals if ctx.contract else {}).get('@iter:' + ast.unparse(src))
                if hint is None:
                    raise Unsupported('for over a dynamically typed value %s (no @iter hint in the contract)' % ast.unparse(src))
                self.safe(ctx, st1, z3.And(Val.is_vref(seq.z), Val.rval(seq.z) > 0), 'TypeError', 'iteration over a value that is not a list')
                seq = SV(hint, Val.rval(seq.z))
                self.coll_fact(st1, hint, seq.z)
            if isinstance(seq.ty, TupleT):
                # unroll over a python-level tuple
                items = self.tuple_items(seq)
                states = [(st1, None)]
                for idx, item in enumerate(items):
                    nxt = []
                    for s0, fl in states:
                        if fl is not None:
                            nxt.append((s0, fl))
                            continue
                        val = self.mk_tuple([SV(INT, I(idx)), item]) if enum else item
                        for s1 in self.assign(s.target, val, s0, ctx):
                            for s2, f2 in self.exec_block(s.body, s1, ctx):
                                if f2 is not None and f2[0] == 'continue':
                                    f2 = None
                                nxt.append((s2, f2))
                    states = nxt
                for s0, fl in states:
                    if fl is not None and fl[0] == 'break':
                        yield s0, None
                    elif fl is not None:
                        yield s0, fl
                    elif s.orelse:
                        for r in self.exec_block(s.orelse, s0, ctx):
                            yield r
                    else:
                        yield s0, None
                continue
            if not isinstance(seq.ty, ListT):
                raise Unsupported('for over %r' % (seq.ty,))
            st1.locals[iv] = SV(INT, I(0))
            st1.locals[iv + 'seq'] = seq
            n0 = self.list_len(st1, seq)
            st1.assume(n0 >= 0)
            st1.locals[iv + 'n'] = SV(INT, n0)
            kind = 'list'

            def guard(state):
                return [(state, state.locals[iv].z < state.locals[iv + 'n'].z)]

            def after(state):
                # the iterated list must keep its length (snapshot semantics are then exact)
                state.locals[iv] = SV(INT, state.locals[iv].z + 1)
                return [state]
            body = [_BindElem(s.target, iv, enum)] + list(s.body)
            for r in self.run_loop(ctx, st1, k, self.auto_inv(spec, iv, kind), body, guard, after, extra_names=[iv] + self.assigned_names([ast.Assign(targets=[s.target], value=ast.Constant(value=0))]), orelse=s.orelse):
                yield r

    def auto_inv(self, spec, iv, kind):
        if spec is None:
            return None
        extra = []
        if kind == 'list':
            extra = ['0 <= %s and %s <= %sn' % (iv, iv, iv)]
        elif kind == 'range':
            extra = ['%slo <= %s and (%s <= %shi or %s == %slo)' % (iv, iv, iv, iv, iv, iv)]
        return Loop(invariants=extra + list(spec.invariants), modifies=spec.modifies, locals=spec.locals, steps=spec.steps,
                    raise_steps=getattr(spec, 'raise_steps', None))

    def iter_source(self, ctx, st, seq):
        if isinstance(seq.ty, Ref):
            hook = self.class_hook(seq.ty.cls, 'iter')
            if hook is not None:
                return hook(self, ctx, st, seq)
        return seq

    def ex__Bind(self, s, st, ctx):
        for s1 in self.assign(s.target, st.locals[s.iv], st, ctx):
            yield s1, None

    def ex__BindElem(self, s, st, ctx):
        seq = st.locals[s.iv + 'seq']
        i = st.locals[s.iv].z
        # Python re-reads the list at each step; with the length invariant this is the snapshot element
        n_now = self.list_len(st, seq)
        self.emit(ctx, st, 'inv.keep', 'iterated_list_length', n_now == st.locals[s.iv + 'n'].z,
                  note='list iterated by a for loop keeps its length')
        st.assume(n_now == st.locals[s.iv + 'n'].z)
        z = z3.Select(self.list_arr(st, seq), i)
        self.ref_fact(st, seq.ty.elem, z)
        self.elem_fact(st, seq.ty.elem, z)
        item = SV(seq.ty.elem, z)
        if isinstance(seq.ty.elem, Ref):
            self.type_fact(st, item)
        val = self.mk_tuple([SV(INT, i), item]) if s.enum else item
        for s1 in self.assign(s.target, val, st, ctx):
            yield s1, None

    def type_fact(self, st, sv):
        if isinstance(sv.ty, Ref) and sv.ty.cls in self.classes:
            st.assume(z3.Or(sv.z == 0, self.isinst(st, sv.z, sv.ty.cls)))

    # ------------------------------------------------------------------------------
    # calls
    def method_names(self, cls):
        names = []
        for c in self.mro(cls) + self.subclasses(cls):
            info = self.classes.get(c)
            if not info or 'module' not in info:
                continue
            m = self.db.module(info['module'])
            for local in m.functions:
                if local.startswith(c + '.'):
                    n = local[len(c) + 1:]
                    if n not in names and not n.endswith('$setter'):
                        names.append(n)
        return names

    def call_qualname(self, ctx, st, q, args, kwargs):
        c = self.reg.get(q)
        fi = self.db.function(q)
        if c is not None and not c.inline:
            for r in self.use_contract(ctx, st, c, args, kwargs, fi):
                yield r
            return
        if fi is None:
            raise Unsupported('no contract and no source for %s' % q)
        for r in self.call_function(ctx, st, fi, args, kwargs):
            yield r

    def call_method(self, ctx, st, obj, name, args, kwargs):
        cls = obj.ty.cls
        for k in self.mro(cls):
            hook = self.classes.get(k, {}).get('methods', {}).get(name)
            if hook is not None:
                for r in hook(self, ctx, st, obj, args, kwargs):
                    yield r
                return
        cname = self.method_contract_name(cls, name)
        c = self.reg.get(cname)
        dcls, fi = self.find_method(cls, name)
        if c is not None and not c.inline:
            recv = [] if (fi is not None and 'staticmethod' in fi.decorators) else [obj]
            for r in self.use_contract(ctx, st, c, recv + list(args), kwargs, fi):
                yield r
            return
        if fi is None:
            raise Unsupported('no contract and no source for method %s.%s' % (cls, name))
        for r in self.call_function(ctx, st, fi, [obj] + list(args), kwargs, recv_cls=dcls):
            yield r

    def bind_args(self, fi_or_contract, args, kwargs, defaults_eval):
        raise NotImplementedError

    def call_function(self, ctx, st, fi, args, kwargs, recv_cls=None, static=False):
        """Inline execution of a callee body (used for properties, tiny helpers and `inline` contracts)."""
        if ctx.depth > 8:
            raise Unsupported('inlining too deep at %s' % fi.qualname)
        if 'staticmethod' in fi.decorators and args and fi.cls and isinstance(args[0].ty, Ref) \
                and self.is_subclass(args[0].ty.cls, fi.cls):
            args = args[1:]
        names = fi.argnames
        c = self.reg.get(fi.qualname)
        c2 = Ctx(self, c, fi, spec=ctx.spec, parent=ctx)
        c2.implicit = ctx.implicit
        c2.handlers = list(ctx.handlers)
        c2.inline_parent = ctx
        c2.bound = {}
        # exceptions of the callee propagate into the caller's sink, unless caught inside
        saved_locals = st.locals
        new_locals = {}
        if len(args) > len(names):
            raise Unsupported('too many arguments for %s' % fi.qualname)
        for n, a in zip(names, args):
            new_locals[n] = a
        for n in names[len(args):]:
            if n in kwargs:
                new_locals[n] = kwargs[n]
            elif n in fi.defaults:
                new_locals[n] = self.lit(ast.literal_eval(fi.defaults[n]))
            else:
                raise Unsupported('missing argument %s for %s' % (n, fi.qualname))
        if c is not None:
            for n, t in c.params.items():
                if n in new_locals and not isinstance(new_locals[n], Exc):
                    try:
                        new_locals[n] = self.coerce(new_locals[n], t)
                    except Unsupported:
                        pass
        st.locals = new_locals
        c2.pre_state = st.fork()
        # the caller's contract decides where escaping exceptions go
        outs = list(self.exec_block(fi.node.body, st, c2))
        for s_r, exc in c2.sinks[0]:
            s_r.locals = dict(saved_locals)
            ctx.raise_(s_r, exc)
        for s1, flow in outs:
            s1.locals = dict(saved_locals)
            if flow is not None and flow[0] == 'return':
                yield s1, flow[1]
            else:
                yield s1, self.lit(None)

    def construct(self, ctx, st, cls, args, kwargs):
        if cls in self.exc_table and cls not in self.classes:
            yield st, SV(CLS, ('exc', cls))
            return
        ctor = self.classes.get(cls, {}).get('ctor')
        if ctor is not None:
            for r in ctor(self, ctx, st, cls, args, kwargs):
                yield r
            return
        r = self.new_ref(st)
        st.hset(('type',), z3.Store(st.hget(('type',)), r, I(self.class_id(cls))))
        obj = SV(Ref(cls), r)
        # ghost counters of a new object start at their declared initial value (definitional: they count events since creation)
        for gname, gval in self.classes.get(cls, {}).get('ghost_init', {}).items():
            self.set_ghost(st, gname, self.ghost_sorts[gname], r, I(gval))
        dcls, fi = self.find_method(cls, '__init__')
        if fi is None:
            yield st, obj
            return
        cname = self.method_contract_name(cls, '__init__')
        c = self.reg.get(cname)
        if c is not None and not c.inline:
            for s1, _ in self.use_contract(ctx, st, c, [obj] + list(args), kwargs, fi):
                yield s1, obj
            return
        for s1, _ in self.call_function(ctx, st, fi, [obj] + list(args), kwargs, recv_cls=dcls):
            yield s1, obj

    def narrow(self, ctx, st, a, ty, what):
        """Coerce an actual argument to a parameter type; a Val narrowed to one variant must carry that tag."""
        if a.ty == VAL and is_reflike(ty) and not ctx.spec:
            ok = z3.Or(Val.is_vref(a.z), Val.is_vnone(a.z))
            self.emit(ctx, st, 'pre@call', what + '.type', ok, note='argument must be an object reference (%r)' % (ty,))
            st.assume(ok)
            return self.coerce(a, ty)
        if a.ty == VAL and ty != VAL and not ctx.spec:
            tag = {INT: Val.is_vint, BYTES: Val.is_vbyt, STR: Val.is_vtxt, BOOL: Val.is_vbool, FLOAT: Val.is_vflt}.get(ty)
            if tag is None:
                raise Unsupported('cannot pass a Val where %r is expected' % (ty,))
            self.emit(ctx, st, 'pre@call', what + '.type', tag(a.z), note='argument must be of type %r' % (ty,))
            st.assume(tag(a.z))
        return self.coerce(a, ty)

    def use_contract(self, ctx, st, c, args, kwargs, fi=None):
        """Call by contract: assert requires, havoc modifies, assume ensures; exceptional exits fork."""
        names = list(c.params.keys())
        # overload on the run-time type of a Val argument (bytes / text variants of one function)
        alt = self.reg.get(c.target + '@text') if not c.variant else None
        if alt is not None and not ctx.spec:
            for n, a in zip(names, args):
                if a.ty == VAL and c.params[n] == BYTES and alt.params.get(n) == STR:
                    s_b = st.fork()
                    s_b.assume(Val.is_vbyt(a.z))
                    s_t = st.fork()
                    s_t.assume(Val.is_vtxt(a.z))
                    self.safe(ctx, st, z3.Or(Val.is_vbyt(a.z), Val.is_vtxt(a.z)), 'TypeError', 'bytes or text expected')
                    i = names.index(n)
                    if self.feasible(s_b):
                        a2 = list(args)
                        a2[i] = SV(BYTES, Val.bval(a.z))
                        for r in self.use_contract(ctx, s_b, c, a2, kwargs, fi):
                            yield r
                    if self.feasible(s_t):
                        a2 = list(args)
                        a2[i] = SV(STR, Val.tval(a.z))
                        for r in self.use_contract(ctx, s_t, alt, a2, kwargs, fi):
                            yield r
                    return
        bound = {}
        if len(args) > len(names):
            raise Unsupported('too many arguments for %s' % c.target)
        for n, a in zip(names, args):
            bound[n] = self.narrow(ctx, st, a, c.params[n], c.target.rsplit('.', 1)[-1] + '.' + n)
        for n in names[len(args):]:
            if n in kwargs:
                bound[n] = self.coerce(kwargs[n], c.params[n])
            elif fi is not None and n in fi.defaults:
                bound[n] = self.coerce(self.lit(ast.literal_eval(fi.defaults[n])), c.params[n])
            else:
                raise Unsupported('missing argument %s for %s' % (n, c.target))
        for g, gty in c.ghost.items():
            bound[g] = SV(gty, fresh('ghost!' + g, sort_of(gty)))
        callee_ctx = Ctx(self, c, fi, spec=True)
        callee_ctx.bound = bound
        callee_ctx.module = fi.module if fi else (c.target.rsplit('.', 2)[0] if c.target.count('.') >= 2 else None)
        callee_ctx.implicit = 'assume'
        callee_ctx.call_exit_cache = {}
        # requires
        if not ctx.spec:
            for i, rq in enumerate(c.requires):
                g = self.spec_bool(rq, st, callee_ctx)
                if rq in c.input_requires and ctx.contract is not None and getattr(ctx.contract, 'assume_input', False):
                    # well-formedness of the input data: assumed at this call (listed in the evidence), not provable from state
                    self.assumed_inputs.add('%s: %s' % (c.target, rq))
                    st.assume(g)
                    continue
                self.emit(ctx, st, 'pre@call', '%s.%d' % (c.target.rsplit('.', 1)[-1], i), g,
                          note='%s requires %s' % (c.target, rq))
                st.assume(g)
        pre = st.fork()
        callee_ctx.old_state = pre
        locs = self.resolve_locs(c.modifies, st, callee_ctx)
        # exceptional exits
        exits = []
        for cls, cond in c.raises.items():
            exits.append((cls, cond))
        for cls, cond in c.must_raise:
            if not any(cls == x and (cnd is None or cnd == cond) for x, cnd in exits):
                exits.append((cls, cond))
        for cls, cond in exits:
            if ctx.spec:
                break
            s_ex = pre.fork()
            if cond is not None:
                s_ex.assume(self.spec_bool(cond, s_ex, callee_ctx))
            if not c.pure:
                na_x = fresh('alloc', z3.IntSort())
                s_ex.assume(na_x >= s_ex.alloc + s_ex.nalloc)
                s_ex.alloc = na_x
                s_ex.nalloc = 0
            self.apply_havoc(s_ex, locs, 'exhv')
            ectx = Ctx(self, c, fi, spec=True)
            ectx.bound = bound
            ectx.module = callee_ctx.module
            ectx.old_state = pre
            for ens in c.exc_ensures.get(cls, []):
                s_ex.assume(self.spec_bool(ens, s_ex, ectx))
            if self.feasible(s_ex):
                ctx.raise_(s_ex, Exc(cls))
        # normal exit
        for cls, cond in c.must_raise:
            st.assume(z3.Not(self.spec_bool(cond, pre.fork(), callee_ctx)))
        # the callee may allocate: the allocation counter moves to an unknown later point (before the havoc, so that the
        # havocked locations may refer to objects the callee allocated)
        if not c.pure:
            na = fresh('alloc', z3.IntSort())
            st.assume(na >= st.alloc + st.nalloc)
            st.alloc = na
            st.nalloc = 0
        self.apply_havoc(st, locs, 'chv')
        res = None
        if c.returns is not None and c.returns != NONE:
            rz = fresh('ret!' + c.target.rsplit('.', 1)[-1], sort_of(c.returns))
            res = SV(c.returns, rz)
            if is_reflike(c.returns):
                st.assume(rz >= 0)
        else:
            res = self.lit(None)
        if res is not None and is_reflike(res.ty):
            st.assume(res.z < st.alloc + st.nalloc)
            if isinstance(res.ty, Ref):
                self.type_fact(st, res)
        callee_ctx.result = res
        if getattr(c, 'allocates', None):
            # fields of objects the callee allocated: named through the (already havocked) post state and the result
            alloc_specs = list(c.allocates)
            if res is not None and is_reflike(res.ty) and any('result' in a for a in alloc_specs):
                # the specs speak about `result`: they apply when an object is returned
                nn = st.fork()
                nn.assume(res.z != 0)
                if self.feasible(nn):
                    hv = st.fork()
                    hv.assume(res.z != 0)
                    for spec1 in alloc_specs:
                        # one at a time, in order: a later spec may go through a field an earlier one has just havocked
                        self.apply_havoc(hv, self.resolve_locs([spec1], hv, callee_ctx), 'chv')
                    # havoc only when the result is an object: merge the havocked heap under that condition
                    for key in set(hv.heap) | set(st.heap):
                        a1, a0 = hv.hget(key), st.hget(key)
                        if not a1.eq(a0):
                            st.hset(key, z3.If(res.z != 0, a1, a0))
            else:
                self.apply_havoc(st, self.resolve_locs(alloc_specs, st, callee_ctx), 'chv')
        probe_state = st.fork()
        for ens in c.ensures:
            st.assume(self.spec_bool(ens, st, callee_ctx))
        for cname_, when, enss in c.cases:
            w = self.spec_bool(when, pre.fork(), callee_ctx)
            for ens in enss:
                st.assume(z3.Implies(w, self.spec_bool(ens, st, callee_ctx)))
        if not self.feasible(st):
            # the assumed postcondition contradicts what is known on this path: report it (a contradictory contract would make
            # every later obligation on the path vacuous)
            culprit = ''
            if not self.feasible(probe_state):
                return          # the path was already contradictory before the call: nothing is lost by dropping it
            for ens in c.ensures:
                probe_state.assume(self.spec_bool(ens, probe_state, callee_ctx))
                if not self.feasible(probe_state):
                    culprit = ' (first contradictory clause: %s)' % ens[:160]
                    break
            self.warnings.append('postcondition of %s is infeasible at a call in %s%s' % (c.name, ctx.contract.name if ctx.contract else '?', culprit))
            return
        yield st, res


class _Bind(ast.stmt):
    _fields = ()

    def __init__(self, target, iv):
        self.target = target
        self.iv = iv


class _BindElem(ast.stmt):
    _fields = ()

    def __init__(self, target, iv, enum):
        self.target = target
        self.iv = iv
        self.enum = enum
