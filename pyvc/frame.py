"""Frame obligations decided on the AST (no solver): a function that its contract declares NOT to modify its arguments must make every store
through an object it allocated itself.

Freshness of a local name (flow-insensitive over the function body, every binding of the name must agree):
  DEEP     bound only to copy.deepcopy(..) results, or to elements (subscript / iteration / .get / .values() / .items()) of DEEP values:
           the whole object graph is private
  SHALLOW  bound only to fresh containers whose ELEMENTS may be shared: dict(..), list(..), tuple(..), sorted(..), literals, comprehensions,
           slices, constructor calls of repository classes
  SHARED   anything else (parameters, attributes of parameters, elements of SHALLOW / SHARED values, results of unknown calls)
A store is  x[k] = v | x.a = v | x[k] op= v | del x[k] | x.append/extend/insert/pop/remove/clear/update/setdefault/popitem/sort/reverse(..).
Its base expression x must be DEEP (any depth of element access below a DEEP name) or a SHALLOW *name itself* (the container is fresh).
Stores through a parameter listed in `may_modify` are allowed.  Everything else is reported with its line.
"""
import ast

MUTATORS = {'append', 'extend', 'insert', 'pop', 'remove', 'clear', 'update', 'setdefault', 'popitem', 'sort', 'reverse', 'add', 'discard',
            'appendleft', 'popleft', '__setitem__', '__delitem__', 'add_parameter', 'add_section', 'set_metadata'}
FRESH_CALLS = {'dict', 'list', 'tuple', 'sorted', 'set', 'OrderedDict', 'bytearray'}
DEEP, SHALLOW, SHARED = 2, 1, 0


class _Analysis(object):
    def __init__(self, fn, classes, may_modify):
        self.fn = fn
        self.classes = classes
        self.may_modify = set(may_modify)
        self.params = [a.arg for a in fn.args.args + fn.args.kwonlyargs] + ([fn.args.vararg.arg] if fn.args.vararg else []) + \
                      ([fn.args.kwarg.arg] if fn.args.kwarg else [])
        self.kind = {}

    def expr_kind(self, e):
        if isinstance(e, ast.Name):
            if e.id in self.params:
                return SHARED
            return self.kind.get(e.id, SHARED)
        if isinstance(e, ast.Call):
            f = e.func
            name = f.id if isinstance(f, ast.Name) else (f.attr if isinstance(f, ast.Attribute) else None)
            if name == 'deepcopy':
                return DEEP
            if isinstance(f, ast.Name) and (name in FRESH_CALLS or name in self.classes):
                return SHALLOW
            if isinstance(f, ast.Attribute) and name in ('get', 'values', 'items', 'keys', 'copy'):
                base = self.expr_kind(f.value)
                if name == 'copy':
                    return DEEP if base == DEEP else SHALLOW
                return DEEP if base == DEEP else SHARED
            return SHARED
        if isinstance(e, (ast.List, ast.Dict, ast.Set, ast.Tuple, ast.ListComp, ast.DictComp, ast.SetComp, ast.GeneratorExp)):
            return SHALLOW
        if isinstance(e, ast.Subscript):
            base = self.expr_kind(e.value)
            if isinstance(e.slice, ast.Slice):
                return DEEP if base == DEEP else SHALLOW
            return DEEP if base == DEEP else SHARED
        if isinstance(e, ast.Attribute):
            return DEEP if self.expr_kind(e.value) == DEEP else SHARED
        if isinstance(e, ast.IfExp):
            return min(self.expr_kind(e.body), self.expr_kind(e.orelse))
        if isinstance(e, ast.Constant):
            return DEEP
        return SHARED

    def bind(self, target, kind):
        if isinstance(target, ast.Name):
            self.kind[target.id] = min(self.kind.get(target.id, DEEP), kind) if target.id in self.seen else kind
            self.seen.add(target.id)
        elif isinstance(target, (ast.Tuple, ast.List)):
            for t in target.elts:
                self.bind(t, DEEP if kind == DEEP else SHARED)

    def run(self):
        # fixpoint over bindings (kinds only go down)
        self.seen = set()
        for _ in range(6):
            before = dict(self.kind)
            self.seen = set()
            for n in ast.walk(self.fn):
                if isinstance(n, ast.Assign):
                    k = self.expr_kind(n.value)
                    for t in n.targets:
                        self.bind(t, k)
                elif isinstance(n, ast.AugAssign) and isinstance(n.target, ast.Name):
                    self.bind(n.target, SHARED if not isinstance(n.value, ast.Constant) else self.kind.get(n.target.id, SHARED))
                elif isinstance(n, (ast.For, ast.comprehension)):
                    it = n.iter
                    if isinstance(it, ast.Call) and isinstance(it.func, ast.Name) and it.func.id in ('enumerate', 'zip', 'reversed', 'iter') and it.args:
                        ks = [self.expr_kind(a) for a in it.args]
                        k = DEEP if all(x == DEEP for x in ks) else SHARED
                    else:
                        k = DEEP if self.expr_kind(it) == DEEP else SHARED
                    self.bind(n.target, k)
                elif isinstance(n, ast.With):
                    for item in n.items:
                        if item.optional_vars is not None:
                            self.bind(item.optional_vars, SHARED)
            if self.kind == before:
                break
        problems = []

        def base_ok(x):
            if isinstance(x, ast.Name):
                if x.id in self.may_modify:
                    return True
                return x.id not in self.params and self.kind.get(x.id, SHARED) in (DEEP, SHALLOW)
            root = x
            while isinstance(root, (ast.Subscript, ast.Attribute)):
                root = root.value
            if isinstance(root, ast.Name) and root.id in self.may_modify:
                return True
            return self.expr_kind(x) == DEEP

        for n in ast.walk(self.fn):
            targets = []
            if isinstance(n, ast.Assign):
                targets = n.targets
            elif isinstance(n, (ast.AugAssign, ast.AnnAssign)):
                targets = [n.target]
            elif isinstance(n, ast.Delete):
                targets = n.targets
            for t in targets:
                for x in (t.elts if isinstance(t, (ast.Tuple, ast.List)) else [t]):
                    if isinstance(x, (ast.Subscript, ast.Attribute)) and not base_ok(x.value):
                        problems.append((n.lineno, 'store through %s' % ast.unparse(x.value)))
            if isinstance(n, ast.Call) and isinstance(n.func, ast.Attribute) and n.func.attr in MUTATORS and not base_ok(n.func.value):
                problems.append((n.lineno, '%s.%s(..)' % (ast.unparse(n.func.value), n.func.attr)))
            if isinstance(n, ast.Call) and isinstance(n.func, ast.Name) and n.func.id == 'setattr' and n.args and not base_ok(n.args[0]):
                problems.append((n.lineno, 'setattr(%s, ..)' % ast.unparse(n.args[0])))
            if isinstance(n, (ast.Global, ast.Nonlocal)):
                problems.append((n.lineno, 'global / nonlocal binding'))
        return problems


def check(db, qualname, may_modify=()):
    """-> (id, ok, detail) for one function"""
    fi = db.function(qualname)
    oid = '%s#frame[no store through an argument%s]' % (qualname, (' except ' + ', '.join(may_modify)) if may_modify else '')
    if fi is None:
        return (oid, False, 'function not found')
    classes = set()
    for mod in ('bufr', 'descriptors', 'templatedata', 'dataquery', 'tables', 'coder', 'templatecompiler', 'bitops', 'errors'):
        try:
            classes.update(db.module('pybufrkit.' + mod).classes.keys())
        except Exception:
            pass
    probs = _Analysis(fi.node, classes, may_modify).run()
    if probs:
        return (oid, False, '; '.join('line %d: %s' % p for p in sorted(set(probs))[:6]))
    return (oid, True, 'every store goes through an object allocated in the call (deepcopy / fresh container / constructor)')
